#!/usr/bin/env python3
"""dev tool: run engine K for <pid> <tier> [regex filter]; prints per-harness durations"""
import sys, os, json
ROOT = os.path.dirname(os.path.dirname(os.path.abspath(__file__)))
sys.path.insert(0, os.path.join(ROOT, "lib"))
pid, tier = sys.argv[1], sys.argv[2]
if len(sys.argv) > 3: os.environ["VERIF_KFILTER"] = sys.argv[3]
import kengine, props
rd = os.path.join(ROOT, "replay", pid); os.makedirs(rd, exist_ok=True)
r = kengine.run(pid, props.PROPS[pid]["kani"], tier, rd)
print("harnesses", r["harnesses"], "passed", r["passed"], "wall", r["coverage"].get("wall_s"))
for v in r["violations"]: print("VIOLATION", v["obligation"], v["summary"], v["replay"], v["found_input"])
for u in r["undecided"]: print("UNDECIDED", u)
d = os.path.join(ROOT, ".cache", "kani", "%s-%s" % (pid, tier), "out.json")
if os.path.exists(d):
    j = json.load(open(d))
    rs = sorted(j["verification_results"]["results"], key=lambda x: -x["duration_ms"])
    for x in rs[:15]: print("  %-45s %-8s %6.1fs" % (x["harness_id"], x["status"], x["duration_ms"] / 1000))
