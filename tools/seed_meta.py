#!/usr/bin/env python3
"""seed_meta.py <seed-name> <pid> <round> <change> <needs>  -- writes seeded/<name>/meta.json from confirm.log"""
import json, os, sys
name, pid, rnd, change, needs = sys.argv[1:6]
d = os.path.join("/verif/seeded", name)
log = [l.rstrip("\n") for l in open(os.path.join(d, "confirm.log"))]
head = os.popen("git -C /repo rev-parse --short HEAD").read().strip()
json.dump({"property": pid, "round": int(rnd), "change": change, "needs_to_manifest": needs,
           "source": "independent sub-agent (round %s) given only the property text (plus the generic request to look beyond the most obvious site) and a scratch worktree of /repo at %s" % (rnd, head),
           "confirmed_by": "tools/seed_confirm.sh in the scratch worktree: `cargo nextest run --workspace --no-fail-fast --offline` (80 passed with the change, demo moved aside); `cargo test --offline -p join --test demo_%s` fails with the change and passes with the source change stashed" % pid,
           "confirm_log": log, "detected_by": "see seeded/MATRIX.json and DESIGN.md section 10.4"},
          open(os.path.join(d, "meta.json"), "w"), indent=1)
