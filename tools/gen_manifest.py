#!/usr/bin/env python3
"""Writes /verif/MANIFEST.json from lib/props.py (single source of truth)."""
import json, os, sys
ROOT = os.path.dirname(os.path.dirname(os.path.abspath(__file__)))
sys.path.insert(0, os.path.join(ROOT, "lib"))
import props
ALL = ["C%02d" % i for i in range(1, 21)]
checks = []
for pid in ALL:
    c = props.PROPS.get(pid)
    if not c:
        continue
    checks.append({
        "property_id": pid,
        "quick_cmd": "./check %s --tier quick" % pid,
        "thorough_cmd": "./check %s --tier thorough" % pid,
        "evidence_file": "/verif/evidence/%s.json" % pid,
        "replay_cmd_template": "cat {path}",
        "engine": "+".join(e for e, k in (("verus", "verus"), ("kani", "kani"), ("native-contracts", "rac")) if c.get(k)),
        "level_claimed": {"category": c["level"], "text": c.get("level_text", ""), "design_ref": "DESIGN.md section 4, %s" % pid},
        "level_note": c.get("level_note", "trusted base: " + "; ".join(props.TRUSTED_BASE)),
        "technique": c.get("technique", "contract-based deductive verification: Verus contracts on the real functions (extracted on every run)"
                           + ("; Kani Hoare triples around the real expansion (complete per program, programs enumerated)" if c.get("kani") else "")
                           + ("; native executable contracts / sweeps (bounded stand-in)" if (c.get("rac") or c.get("native")) else "")
                           + ({"C08": "; the run-time clauses by native thread probes (exploration)", "C18": "; the run-time clauses by native panic injection (fault enumeration)"}.get(pid, ""))),
    })
na = [{"property_id": p, "reason": r} for p, r in props.NOT_APPLICABLE.items() if p not in props.PROPS]
m = {
    "version": 1,
    "setup_cmd": "cd /verif && ./setup.sh",
    "hooks": {"guard": "none", "enable": "no hooks are needed: engine V reads /repo's sources, engines K and R use the public macros / public API of the crates built from the working tree",
              "baseline_off_cmd": "cd /repo && cargo nextest run --workspace --no-fail-fast --offline", "source_commits": [], "add_only": True},
    "engines": [
        {"name": "V", "path": "tools/extract + verus/ + lib/vengine.py", "serves_properties": [p for p in ALL if props.PROPS.get(p, {}).get("verus")], "kind_free_text": "Verus on mechanically extracted real functions with spliced contracts (unbounded)"},
        {"name": "K", "path": "kani/ + lib/kengine.py", "serves_properties": [p for p in ALL if props.PROPS.get(p, {}).get("kani")], "kind_free_text": "Kani/CBMC Hoare triples around real macro invocations (complete over inputs per program; programs enumerated)"},
        {"name": "R", "path": "rac/ + lib/rengine.py", "serves_properties": [p for p in ALL if props.PROPS.get(p, {}).get("rac")], "kind_free_text": "native executable contracts over exhaustive finite domains (bounded stand-in, replay)"},
    ],
    "checks": checks,
    "notes": "fix: commits in /repo (genuine defects, see KNOWN_FINDINGS.txt): d526310 (C05), 57c5e60 (C15), b146182 (C16), 0941b1e (C01), f08b30f (C14), deb1e7c (C15/C14). exit 2 of a check = undecided (lost anchor / tool limit), never an alarm.",
    "not_applicable": na,
}
json.dump(m, open(os.path.join(ROOT, "MANIFEST.json"), "w"), indent=1)
print("checks:", [c["property_id"] for c in checks], "n/a:", [x["property_id"] for x in na])
