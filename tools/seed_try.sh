#!/bin/bash
# usage: seed_try.sh <seed-name> <pid>...   runs the checks against a scratch clone of /repo with the seed applied;
# caches / evidence / replay files go to a private work area (VERIF_WORK), /repo and /verif/evidence stay untouched
set -u
N=$1; shift
R=/tmp/seedtry-repo-$$; W=${SEED_TRY_WORK:-/tmp/seedtry-work}
rm -rf $R; git clone -q /repo $R || exit 3
git -C $R apply /verif/seeded/$N/patch.diff || { echo "patch does not apply"; rm -rf $R; exit 3; }
mkdir -p $W
for p in "$@"; do VERIF_REPO=$R VERIF_WORK=$W /verif/check $p 2>&1 | grep -E "^(obligation failed|VIOLATION|UNDECIDED|OK)" | cut -c1-260 | head -${SEED_TRY_LINES:-6}; done
rm -rf $R
