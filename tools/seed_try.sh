#!/bin/bash
# usage: seed_try.sh <patch.diff> <pid> [more pids]  -- applies the patch to /repo, runs ./check, restores
P=$1; shift
cd /repo && git apply "$P" || exit 3
cd /verif
for pid in "$@"; do
  ./check $pid 2>&1 | grep -E '^(VIOLATION|UNDECIDED|OK|obligation failed)' | cut -c1-230 | head -4
done
git -C /repo checkout -- .
