#!/usr/bin/env python3
"""Pilot mutants: apply a textual change to /repo, run engine V, restore. For developing the checks only."""
import subprocess, sys, os, json
sys.path.insert(0, os.path.join(os.path.dirname(os.path.abspath(__file__)), "..", "lib"))
import vrun
M = [
 ("chain->zip", "join_impl/src/chain/expr/process_expr.rs", "quote! { .chain(#expr) }", "quote! { .zip(#expr) }"),
 ("find<->find_map parse table", "join_impl/src/chain/group/action_group.rs", "ExprGroup::parse_single_unit(ProcessExpr::Find, unit_parser, self, input)", "ExprGroup::parse_single_unit(ProcessExpr::FindMap, unit_parser, self, input)"),
 ("wrapper Find->FindMap", "join_impl/src/chain/group/action_group.rs", "Combinator::Find => ActionExpr::Process(ProcessExpr::Find([return_val])),", "Combinator::Find => ActionExpr::Process(ProcessExpr::FindMap([return_val])),"),
 ("spawn is_try", "join/src/lib.rs", "pub fn spawn(input: TokenStream) -> TokenStream {\n    let parsed = syn::parse_macro_input!(input as JoinInputDefault);\n\n    join_impl(\n        parsed,\n        Config {\n            is_async: false,\n            is_spawn: true,\n            is_try: false,", "pub fn spawn(input: TokenStream) -> TokenStream {\n    let parsed = syn::parse_macro_input!(input as JoinInputDefault);\n\n    join_impl(\n        parsed,\n        Config {\n            is_async: false,\n            is_spawn: true,\n            is_try: true,"),
 ("Then not replaceable", "join_impl/src/chain/expr/process_expr.rs", "Self::Dot(_) | Self::Collect(_) | Self::Unzip(_) | Self::Flatten | Self::Enumerate\n        )", "Self::Dot(_) | Self::Then(_) | Self::Collect(_) | Self::Unzip(_) | Self::Flatten | Self::Enumerate\n        )"),
 ("can_be_wrapper loses Partition", "join_impl/src/chain/group/combinator.rs", "                | Self::Partition\n                | Self::OrElse", "                | Self::OrElse"),
 ("respell ?@ as ?#", "join_impl/src/join/parse.rs", "Find => Token![?], Token![@] => 2,", "Find => Token![?], Token![#] => 2,"),
 ("FilterMap above FindMap", "join_impl/src/join/parse.rs", "    FindMap => Token![?], Token![|], Token![>], Token![@] => 4,\n    FilterMap => Token![?], Token![|], Token![>] => 3,", "    FilterMap => Token![?], Token![|], Token![>] => 3,\n    FindMap => Token![?], Token![|], Token![>], Token![@] => 4,"),
 ("fold operands swapped in replace", "join_impl/src/chain/expr/process_expr.rs", ".map(|first_expr| Self::Fold([first_expr, expr])),", ".map(|first_expr| Self::Fold([expr, first_expr])),"),
 ("__ew loses separator", "join_impl/src/join/name_constructors.rs", '"__ew{}_{}_{}"', '"__ew{}{}_{}"'),
 ("rename __handler (harmless)", "join_impl/src/chain/expr/process_expr.rs", "quote! {{ let __handler = #expr; __handler }}", "quote! {{ let __hh = #expr; __hh }}"),
 ("reorder arms (harmless)", "join_impl/src/chain/expr/err_expr.rs", "            Self::Or([expr]) => {\n                quote! { .or(#expr) }\n            }\n            Self::OrElse([expr]) => {\n                quote! { .or_else(#expr) }\n            }", "            Self::OrElse([expr]) => {\n                quote! { .or_else(#expr) }\n            }\n            Self::Or([expr]) => {\n                quote! { .or(#expr) }\n            }"),
]
sel = sys.argv[1:]
for name, f, old, new in M:
    if sel and not any(s in name for s in sel): continue
    p = os.path.join("/repo", f)
    s = open(p).read()
    if s.count(old) < 1:
        print("%-40s PATTERN matches %d" % (name, s.count(old))); continue
    open(p, "w").write(s.replace(old, new, 1))
    try:
        r = vrun.run_verus()
    finally:
        subprocess.run(["git", "-C", "/repo", "checkout", "--", "."], check=True)
    if r["extract_exit"] != 0:
        print("%-40s EXTRACT exit %d: %s" % (name, r["extract_exit"], r["extract_stderr"].strip()[:200])); continue
    j = r["json"]
    failed = []
    if j and "smt" in j.get("times-ms", {}):
        for m in j["times-ms"]["smt"]["smt-run-module-times"]:
            failed += [x["function"] for x in m["function-breakdown"] if not x["success"]]
    vr = j.get("verification-results", {}) if j else {}
    print("%-40s verified=%s errors=%s failed=%s %s" % (name, vr.get("verified"), vr.get("errors"), failed, "" if vr.get("verified") is not None else r["verus_stderr"][:300]))
