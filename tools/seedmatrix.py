#!/usr/bin/env python3
"""Runs the check of each seeded change's property (and optionally others) against the change applied to a COPY of /repo.
usage: seedmatrix.py [--repo DIR] [--all] [seed-name-filter]   -> writes seeded/MATRIX.json"""
import json, os, subprocess, sys, shutil, time
ROOT = os.path.dirname(os.path.dirname(os.path.abspath(__file__)))
args = sys.argv[1:]
repo = "/repo"
if "--repo" in args:
    i = args.index("--repo"); repo = args[i + 1]; del args[i:i + 2]
allp = "--all" in args
args = [a for a in args if a != "--all"]
jobs, shard = 1, None
if "--jobs" in args:
    i = args.index("--jobs"); jobs = int(args[i + 1]); del args[i:i + 2]
if "--shard" in args:
    i = args.index("--shard"); shard = tuple(int(x) for x in args[i + 1].split("/")); del args[i:i + 2]
if jobs > 1 and shard is None:
    # one worker per shard, each with its own scratch clone and its own work area (VERIF_WORK); merged at the end
    ps = [subprocess.Popen([sys.executable, os.path.abspath(__file__), "--repo", repo, "--shard", "%d/%d" % (k, jobs)] + (["--all"] if allp else []) + args,
                           env=dict(os.environ, SEED_SCRATCH="/tmp/seedrepo%d" % k, SEED_WORK="/tmp/seedwork%d" % k)) for k in range(jobs)]
    for p_ in ps: p_.wait()
    merged = {}
    for k in range(jobs):
        f = os.path.join(ROOT, "seeded", "MATRIX.%d.json" % k)
        merged.update(json.load(open(f))); os.remove(f)
    mp = os.path.join(ROOT, "seeded", "MATRIX.json")
    if args and os.path.exists(mp):
        # a filtered run updates the entries it re-ran and keeps the others
        old = json.load(open(mp)); old.update(merged); merged = old
    json.dump(dict(sorted(merged.items())), open(mp, "w"), indent=1)
    sys.exit(0)
flt = args[0] if args else ""
scratch = os.environ.get("SEED_SCRATCH", "/tmp/seedrepo")
if os.path.exists(scratch): shutil.rmtree(scratch)
subprocess.run(["git", "clone", "-q", repo, scratch], check=True)
if os.path.isdir(os.path.join(repo, "target")):
    pass
work = os.environ.get("SEED_WORK", "/tmp/seedwork")
os.makedirs(work, exist_ok=True)
env = dict(os.environ, VERIF_REPO=scratch, VERIF_WORK=work)
out = {}
EXTRA = {"C01-orelse-becomes-maperr": ["C02"], "C10-chain-zip-not-hoisted": ["C11"], "C17-err-capture-name-swapped": ["C11"],
         "C19-move-wrapper-closure": ["C02"], "C02-move-closure-at-depth2": ["C19"], "C20-hashmap-def-order": ["C11"],
         "C06-next-step-filter-runs-later-steps": ["C05"], "C05-next-step-filter": ["C06"], "C13-then-guard-uses-transpose": []}
for idx, name in enumerate(sorted(n for n in os.listdir(os.path.join(ROOT, "seeded")) if os.path.isdir(os.path.join(ROOT, "seeded", n)) and flt in n)):
    d = os.path.join(ROOT, "seeded", name)
    if shard is not None and idx % shard[1] != shard[0]: continue
    meta = json.load(open(os.path.join(d, "meta.json")))
    pids = [meta["property"]] + EXTRA.get(name, [])
    if allp: pids = ["C%02d" % i for i in range(1, 21) if i not in (8, 18)]
    subprocess.run(["git", "-C", scratch, "checkout", "-q", "--", "."], check=True)
    r = subprocess.run(["git", "-C", scratch, "apply", os.path.join(d, "patch.diff")], capture_output=True, text=True)
    if r.returncode != 0:
        out[name] = {"error": "patch does not apply: " + r.stderr[:200]}; print(name, out[name]); continue
    res = {}
    for pid in pids:
        t0 = time.time()
        p = subprocess.run([os.path.join(ROOT, "check"), pid, "--tier", "quick"], cwd=ROOT, env=env, capture_output=True, text=True)
        viol = [l for l in p.stdout.split("\n") if l.startswith("VIOLATION")]
        obl = [l for l in p.stdout.split("\n") if l.startswith("obligation failed")]
        und = [l for l in p.stdout.split("\n") if l.startswith("UNDECIDED")]
        res[pid] = {"exit": p.returncode, "violations": len(viol), "first": (obl[0][:220] if obl else (und[0][:220] if und else "")), "wall_s": round(time.time() - t0, 1)}
        print(name, pid, res[pid], flush=True)
    out[name] = res
    subprocess.run(["git", "-C", scratch, "checkout", "-q", "--", "."], check=True)
json.dump(out, open(os.path.join(ROOT, "seeded", "MATRIX.json" if shard is None else "MATRIX.%d.json" % shard[0]), "w"), indent=1)
shutil.rmtree(scratch)
shutil.rmtree(work, ignore_errors=True)
