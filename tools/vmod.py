#!/usr/bin/env python3
"""dev helper: extract + verify ONE module of engine V and print what failed.  usage: tools/vmod.py <module> [-v]"""
import os, sys, json
ROOT = os.path.dirname(os.path.dirname(os.path.abspath(__file__)))
sys.path.insert(0, os.path.join(ROOT, "lib")); sys.path.insert(0, os.path.join(ROOT, "verus"))
import vengine
r = vengine.run_module(sys.argv[1], tag="dev")
print("status", r["status"], "verified", r.get("verified"), "errors", r.get("n_errors"), "extract_s", r.get("extract_s"), "verus_s", r.get("verus_s"))
for n, f in r["functions"].items():
    if not f["success"] or "-v" in sys.argv: print("  ", n, f)
for e in r["errors"]:
    print("--", e["kind"], e.get("owner"), "\n", e["text"][:int(os.environ.get("ERRLEN", "2500"))])
print("gen:", r["gen_path"])
