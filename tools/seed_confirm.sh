#!/bin/bash
# usage: seed_confirm.sh <worktree> <property-id> <seed-name>
# Confirms a sub-agent's change in its scratch worktree (suite passes with the change, demo fails
# with it and passes without it) and stores patch + demo under /verif/seeded/<seed-name>/.
set -u
WT=$1; ID=$2; NAME=$3
OUT=/verif/seeded/$NAME
mkdir -p $OUT
cd $WT || exit 3
DEMO=join/tests/demo_$ID.rs
[ -f "$DEMO" ] || { echo "no demo"; exit 3; }
cp $DEMO /tmp/demo_$ID.rs.keep
git diff -- join_impl join/src > $OUT/patch.diff
[ -s $OUT/patch.diff ] || { echo "empty patch"; exit 3; }
cp $DEMO $OUT/demo_$ID.rs
log=$OUT/confirm.log; : > $log
# 1. suite with change, demo moved aside
mv $DEMO /tmp/demo_$ID.rs.aside
cargo nextest run --workspace --no-fail-fast --offline 2>&1 | tail -3 >> $log
suite=$(grep -c '80 tests run: 80 passed' $log)
mv /tmp/demo_$ID.rs.aside $DEMO
# 2. demo with change
cargo test --offline -p join --test demo_$ID > /tmp/demo_$ID.with 2>&1; with=$?
echo "demo with change: exit $with" >> $log; grep -E '^test result|error(\[|:)' /tmp/demo_$ID.with | head -5 >> $log
# 3. demo without change
# (no `git stash`: the stash is shared by all worktrees of a repository and concurrent sub-agents would race on it)
git checkout -q -- join_impl join/src
cargo test --offline -p join --test demo_$ID > /tmp/demo_$ID.without 2>&1; without=$?
echo "demo without change: exit $without" >> $log; grep -E '^test result' /tmp/demo_$ID.without | head -3 >> $log
git apply $OUT/patch.diff
echo "suite_ok=$suite with=$with without=$without" | tee -a $log
rm -f /tmp/demo_$ID.with /tmp/demo_$ID.without /tmp/demo_$ID.rs.keep
[ "$suite" = 1 ] && [ $with -ne 0 ] && [ $without -eq 0 ]
