//! Mechanical extractor: copies real items of /repo by byte range into one Verus file,
//! applying only the logged rewrite rules R1..R12 of DESIGN.md section 3.1.
//!
//! usage: extract <plan.json> <out.rs> <log.json>
//! exit 0: ok; exit 2: lost anchor / unsupported construct (never a violation).

use proc_macro2::{Delimiter, Span, TokenStream, TokenTree};
use serde::{Deserialize, Serialize};
use std::collections::{BTreeMap, HashMap, HashSet};
use syn::spanned::Spanned;
use syn::visit::Visit;

// ---------------------------------------------------------------- plan

#[derive(Deserialize, Default, Clone)]
struct ClosureSpec {
    /// optional stable identifier: generated parameter names become `__<id>p<i>` instead of `__c<ordinal>p<i>`
    #[serde(default)]
    id: String,
    #[serde(default)]
    params: Vec<String>,
    #[serde(default)]
    ret: String,
    #[serde(default)]
    requires: Vec<String>,
    #[serde(default)]
    ensures: Vec<String>,
    /// ghost text inserted at the start of the closure body (proof blocks only)
    #[serde(default)]
    prologue: String,
    /// R15 call-out: the closure's body is replaced by this call of its lifted twin (a `lifted` unit that verifies the
    /// same bytes as a method); the enclosing function is then checked against the twin's contract, not its body
    #[serde(default)]
    call_out: String,
}

#[derive(Deserialize, Default, Clone)]
struct LoopSpec {
    /// ghost text inserted at the end of the loop body, before the index is advanced (R13 shapes that support it)
    #[serde(default)]
    body_epilogue: String,
    #[serde(default)]
    invariant: Vec<String>,
    #[serde(default)]
    decreases: String,
    /// ghost text inserted at the start of the loop body (proof blocks / documented assumptions only)
    #[serde(default)]
    body_prologue: String,
    /// ghost text inserted right after the loop (R13 loops only; proof blocks only)
    #[serde(default)]
    after: String,
    /// R13 folds: type annotation of the accumulator where rustc cannot infer it from the desugared form
    #[serde(default)]
    acc_ty: String,
}

#[derive(Deserialize, Default, Clone)]
struct Subst {
    find: String,
    replace: String,
    why: String,
    /// replace every occurrence (default: the pattern must match exactly once)
    #[serde(default)]
    all: bool,
}

#[derive(Deserialize, Default, Clone)]
struct FnSpec {
    name: String,
    #[serde(default)]
    ret: String,
    #[serde(default)]
    requires: Vec<String>,
    #[serde(default)]
    ensures: Vec<String>,
    /// "verify" (default) or "assumed" (signature only, external_body)
    #[serde(default)]
    mode: String,
    #[serde(default)]
    attrs: String,
    #[serde(default)]
    closures: BTreeMap<String, ClosureSpec>,
    #[serde(default)]
    loops: BTreeMap<String, LoopSpec>,
    #[serde(default)]
    subst: Vec<Subst>,
    /// ghost text inserted at the start of the body (proof blocks only)
    #[serde(default)]
    proof_prologue: String,
    /// ghost text inserted before the tail expression / at the end of the body
    #[serde(default)]
    proof_epilogue: String,
    /// override of generic-parameter text `<...>` of the fn (monomorphisation, logged)
    #[serde(default)]
    rename: String,
    /// R16: ordinals (source order) of `quote!` invocations whose BODY is left unspecified: each becomes a call of a
    /// generated function `oq_<fn>_<k>(&a, &b, ..)` over its interpolated variables with the contract
    /// `r@ == oq_<fn>_<k>_spec(a.toks(), b.toks(), ..)` for an uninterpreted spec function (a quote! is a function of what it
    /// interpolates).  Used for the run-time helper functions that exist only as quote! bodies.
    #[serde(default)]
    opaque_quotes: Vec<usize>,
    /// name the emitted copy goes by in logs (monomorphised copies of one generic function)
    #[serde(default)]
    label: String,
    /// R13: loop contracts for desugared iterator chains `xs.iter().enumerate().map(F).fold(init, G)`, by ordinal
    #[serde(default)]
    iter_loops: BTreeMap<String, LoopSpec>,
    /// R12 generic: method name -> prelude helper taking (receiver, argument)
    #[serde(default)]
    method_helpers: BTreeMap<String, String>,
    /// R12 generic: `RECV.m1().m2()` (both without arguments) -> the template with `{}` replaced by RECV, key "m1.m2"
    #[serde(default)]
    chain_helpers: BTreeMap<String, String>,
    /// R15 call-out for a statement tail (see extract_fn)
    #[serde(default)]
    tail_from: String,
    #[serde(default)]
    tail_call: String,
    /// R15 call-out for a nested block: the inner text of the block whose first statement starts with
    /// `block_call_from` is replaced by `block_call` (a call of its lifted twin, verified from the same bytes)
    #[serde(default)]
    block_call_from: String,
    #[serde(default)]
    block_call: String,
    /// R15 call-outs for single statements: a (possibly nested) statement whose text starts with the key is replaced
    /// by the value (a call of its lifted twin, verified from the same bytes); every key must match exactly once
    #[serde(default)]
    stmt_calls: BTreeMap<String, String>,
}

#[derive(Deserialize, Clone)]
#[serde(tag = "kind")]
enum Unit {
    #[serde(rename = "raw")]
    Raw { label: String, text: String },
    #[serde(rename = "type")]
    Type {
        file: String,
        name: String,
        #[serde(default)]
        attrs: String,
        #[serde(default)]
        subst: Vec<Subst>,
        /// also emit `enum <Name>Ctor { V.. }` and `spec fn ctor(&self)` (variant identity, mechanical)
        #[serde(default)]
        ctor_enum: bool,
    },
    #[serde(rename = "fns")]
    Fns {
        file: String,
        /// last segment of the self type, e.g. "ProcessExpr"; empty => free functions
        #[serde(default)]
        self_ty: String,
        /// last segment of the trait, e.g. "ToTokens"; empty => inherent impl
        #[serde(default)]
        trait_: String,
        /// extra items (spec fns) emitted inside the impl block
        #[serde(default)]
        extra: String,
        /// optional override of the impl header text
        #[serde(default)]
        header: String,
        fns: Vec<FnSpec>,
    },
    #[serde(rename = "trait")]
    Trait {
        file: String,
        name: String,
        /// extra items (spec fns) emitted inside the trait
        #[serde(default)]
        extra: String,
        /// override of the header, e.g. "pub trait InnerExpr: Sized"
        #[serde(default)]
        header: String,
        fns: Vec<FnSpec>,
    },
    #[serde(rename = "table")]
    Table {
        what: String,
        file: String,
        name: String,
    },
    /// R15: the body of the k-th closure (source order) of a function that is out of reach as a whole, lifted into a
    /// method `fn <sig> { <closure body verbatim> }` whose parameters are the closure's own parameters and the variables
    /// it captures (signature text given by the plan); then treated like any extracted function (R2-R13, contracts)
    #[serde(rename = "lifted")]
    Lifted {
        file: String,
        self_ty: String,
        func: String,
        #[serde(default)]
        closure: usize,
        /// alternative to `closure`: the statements of the function body from the first one whose text starts with this
        /// string to the end (R8 suffix, but processed like a function: R2-R13 apply)
        #[serde(default)]
        stmts_from: String,
        /// alternative: the inner text of the (nested) block whose first statement starts with this string
        #[serde(default)]
        block_from: String,
        /// alternative: the ONE (possibly nested) statement whose text starts with this string
        #[serde(default)]
        stmt_at: String,
        /// the function sits in `impl <of_trait> for <self_ty>` (default: an inherent impl; `self_ty` empty: a free fn)
        #[serde(default)]
        of_trait: String,
        /// tail expression appended after the lifted text, `{}` = the value of the lifted block
        #[serde(default)]
        ret_wrap: String,
        /// `impl<'a> JoinOutput<'a>`
        header: String,
        /// text between `fn` and the body: `name<T>(&self, a: A) -> R`
        sig: String,
        spec: FnSpec,
    },
    /// R14: static dispatch resolved mechanically: the body `<self_ty as trait_>::method` runs -- the impl's own
    /// method if the impl block defines one, else the trait's provided (default) body -- emitted as a free function
    /// `fn <name>(this: &SelfTy) -> Ret` (only `&self` methods without further parameters)
    #[serde(rename = "resolved")]
    Resolved {
        trait_file: String,
        trait_: String,
        method: String,
        impl_file: String,
        self_ty: String,
        name: String,
        /// return type text to use instead of the source text (associated types written out)
        #[serde(default)]
        ret_ty: String,
        #[serde(default)]
        ret: String,
        #[serde(default)]
        ensures: Vec<String>,
        /// "assumed": contract only (the body is verified in another module)
        #[serde(default)]
        mode: String,
    },
    #[serde(rename = "exprs")]
    Exprs {
        file: String,
        #[serde(default)]
        self_ty: String,
        func: String,
        what: String,
        name: String,
        /// parameter list text of the generated function(s)
        params: String,
        #[serde(default)]
        ensures: Vec<String>,
        #[serde(default)]
        subst: Vec<Subst>,
        #[serde(default)]
        fields: Vec<FieldSpec>,
    },
}

#[derive(Deserialize, Default, Clone)]
struct FieldSpec {
    name: String,
    ty: String,
    #[serde(default)]
    ensures: Vec<String>,
}

#[derive(Deserialize)]
struct Plan {
    repo: String,
    units: Vec<Unit>,
    /// method/function name -> indices (0-based, not counting self) of `impl Into<Option<_>>` params
    #[serde(default)]
    optargs: HashMap<String, Vec<usize>>,
}

// ---------------------------------------------------------------- log

#[derive(Serialize, Default)]
struct Rewrite {
    rule: String,
    item: String,
    orig: String,
    repl: String,
}

#[derive(Serialize, Default)]
struct LineMap {
    gen_start: usize,
    gen_end: usize,
    item: String,
    kind: String,
    src_file: String,
    src_line_start: usize,
    src_line_end: usize,
}

#[derive(Serialize, Default)]
struct Log {
    rewrites: Vec<Rewrite>,
    line_map: Vec<LineMap>,
    items: Vec<String>,
    assumed: Vec<String>,
    errors: Vec<String>,
}

fn die(log: &mut Log, log_path: &str, msg: String) -> ! {
    eprintln!("extract: UNDECIDED: {}", msg);
    log.errors.push(msg);
    let _ = std::fs::write(log_path, serde_json::to_string_pretty(log).unwrap());
    std::process::exit(2);
}

// ---------------------------------------------------------------- helpers

#[derive(Clone, Debug)]
struct Edit {
    start: usize,
    end: usize,
    text: String,
    order: i64,
}

fn br(sp: Span) -> (usize, usize) {
    let r = sp.byte_range();
    (r.start, r.end)
}

fn short(s: &str) -> String {
    let t: String = s.split_whitespace().collect::<Vec<_>>().join(" ");
    if t.len() > 160 {
        format!("{}…", &t[..t.char_indices().nth(157).map(|x| x.0).unwrap_or(t.len())])
    } else {
        t
    }
}

fn attr_is_cfg_full(a: &syn::Attribute) -> Option<bool> {
    // Some(true): cfg(feature = "full"); Some(false): cfg(not(feature = "full"))
    if !a.path().is_ident("cfg") {
        return None;
    }
    let s = a.meta.to_token_stream_string();
    let s: String = s.chars().filter(|c| !c.is_whitespace()).collect();
    if s == "cfg(feature=\"full\")" {
        Some(true)
    } else if s == "cfg(not(feature=\"full\"))" {
        Some(false)
    } else {
        None
    }
}

fn attr_is_cfg_test(a: &syn::Attribute) -> bool {
    if !a.path().is_ident("cfg") {
        return false;
    }
    let s: String = a
        .meta
        .to_token_stream_string()
        .chars()
        .filter(|c| !c.is_whitespace())
        .collect();
    s == "cfg(test)"
}

trait TsString {
    fn to_token_stream_string(&self) -> String;
}
impl<T: quote::ToTokens> TsString for T {
    fn to_token_stream_string(&self) -> String {
        self.to_token_stream().to_string()
    }
}

fn skip_by_cfg(attrs: &[syn::Attribute]) -> bool {
    attrs
        .iter()
        .any(|a| attr_is_cfg_full(a) == Some(true) || attr_is_cfg_test(a))
}

fn last_seg(ty: &syn::Type) -> String {
    match ty {
        syn::Type::Path(p) => p
            .path
            .segments
            .last()
            .map(|s| s.ident.to_string())
            .unwrap_or_default(),
        syn::Type::Reference(r) => last_seg(&r.elem),
        _ => String::new(),
    }
}

fn esc_str(s: &str) -> String {
    let mut o = String::new();
    for c in s.chars() {
        match c {
            '"' => o.push_str("\\\""),
            '\\' => o.push_str("\\\\"),
            '\n' => o.push_str("\\n"),
            c => o.push(c),
        }
    }
    o
}

fn esc_char(c: char) -> String {
    match c {
        '\'' => "\\'".to_string(),
        '\\' => "\\\\".to_string(),
        c => c.to_string(),
    }
}

// ---------------------------------------------------------------- R2: quote! -> token builder

struct QuoteGen {
    counter: usize,
}

impl QuoteGen {
    fn gen_stream(&mut self, ts: TokenStream) -> Result<String, String> {
        let v = format!("_s{}", self.counter);
        self.counter += 1;
        let ops = self.gen_ops(ts, &v)?;
        Ok(format!("{{ let mut {v} = TokenStream::new(); {ops}{v} }}"))
    }

    fn gen_ops(&mut self, ts: TokenStream, var: &str) -> Result<String, String> {
        let toks: Vec<TokenTree> = ts.into_iter().collect();
        let mut out = String::new();
        let mut i = 0;
        while i < toks.len() {
            match &toks[i] {
                TokenTree::Punct(p) if p.as_char() == '#' && i + 1 < toks.len() => {
                    match &toks[i + 1] {
                        TokenTree::Ident(id) => {
                            out.push_str(&format!("ToTokens::to_tokens(&{id}, &mut {var}); "));
                            i += 2;
                            continue;
                        }
                        TokenTree::Group(g) if g.delimiter() == Delimiter::Parenthesis => {
                            // repetition  #( #x ) sep? *
                            let inner: Vec<TokenTree> = g.stream().into_iter().collect();
                            let name = match (inner.get(0), inner.get(1), inner.len()) {
                                (Some(TokenTree::Punct(h)), Some(TokenTree::Ident(id)), 2)
                                    if h.as_char() == '#' =>
                                {
                                    id.to_string()
                                }
                                _ => {
                                    return Err(format!(
                                        "quote!: unsupported repetition body `{}`",
                                        g.stream()
                                    ))
                                }
                            };
                            // separator?
                            match (toks.get(i + 2), toks.get(i + 3)) {
                                (Some(TokenTree::Punct(s)), _) if s.as_char() == '*' => {
                                    out.push_str(&format!("quote_rep(&{name}, &mut {var}); "));
                                    i += 3;
                                }
                                (Some(TokenTree::Punct(s)), Some(TokenTree::Punct(st)))
                                    if st.as_char() == '*' =>
                                {
                                    out.push_str(&format!(
                                        "quote_rep_sep(&{name}, '{}', &mut {var}); ",
                                        esc_char(s.as_char())
                                    ));
                                    i += 4;
                                }
                                _ => return Err("quote!: malformed repetition".to_string()),
                            }
                            continue;
                        }
                        _ => {}
                    }
                    out.push_str(&format!("{var}.push_punct('#'); "));
                    i += 1;
                }
                TokenTree::Punct(p) => {
                    out.push_str(&format!("{var}.push_punct('{}'); ", esc_char(p.as_char())));
                    i += 1;
                }
                TokenTree::Ident(id) => {
                    out.push_str(&format!("{var}.push_ident(\"{}\"); ", id));
                    i += 1;
                }
                TokenTree::Literal(l) => {
                    out.push_str(&format!("{var}.push_lit(\"{}\"); ", esc_str(&l.to_string())));
                    i += 1;
                }
                TokenTree::Group(g) => {
                    let d = match g.delimiter() {
                        Delimiter::Parenthesis => "Paren",
                        Delimiter::Brace => "Brace",
                        Delimiter::Bracket => "Bracket",
                        Delimiter::None => "NoDelim",
                    };
                    let v2 = format!("_s{}", self.counter);
                    self.counter += 1;
                    let inner = self.gen_ops(g.stream(), &v2)?;
                    out.push_str(&format!(
                        "{{ let mut {v2} = TokenStream::new(); {inner}{var}.push_group(Delim::{d}, {v2}); }} "
                    ));
                    i += 1;
                }
            }
        }
        Ok(out)
    }
}

// ---------------------------------------------------------------- the body rewriter

struct Rw<'a> {
    src: &'a str,
    item: String,
    spec: &'a FnSpec,
    optargs: &'a HashMap<String, Vec<usize>>,
    edits: Vec<Edit>,
    log: Vec<Rewrite>,
    errors: Vec<String>,
    seq: i64,
    closure_idx: usize,
    loop_idx: usize,
    qgen: QuoteGen,
    into_usize: HashSet<String>,
    into_opt: HashSet<String>,
    rename_self: bool,
    arr_idx: usize,
    tail_loop_break_to_return: bool,
    in_tail_loop_depth: usize,
    iter_chain_idx: usize,
    closure_pat_seen: HashMap<String, usize>,
    quote_idx: usize,
    pre_items: String,
    block_call_done: bool,
    stmt_calls_done: HashMap<String, usize>,
}

impl<'a> Rw<'a> {
    /// R13: `X.iter().enumerate().map(F).fold(INIT, G)` -> the index loop these adaptors are defined as
    /// (`acc = G(acc, F((i, &X[i])))` for i in 0..X.len()); F and G stay verbatim closures.
    fn try_iter_chain(&mut self, mc: &syn::ExprMethodCall) -> bool {
        if mc.method == "count" && mc.args.is_empty() {
            return self.try_filter_count(mc);
        }
        if mc.method == "find" && mc.args.len() == 1 {
            if let syn::Expr::MethodCall(m) = &*mc.receiver {
                if (m.method == "iter" || m.method == "clone") && m.args.is_empty() {
                    return self.try_iter_find(mc, m);
                }
            }
        }
        if mc.method == "unzip" && mc.args.is_empty() {
            if let syn::Expr::MethodCall(m) = &*mc.receiver {
                if m.method == "map" && m.args.len() == 1 {
                    if let syn::Expr::Paren(_) = &*m.receiver {
                        return self.try_range_map_unzip(mc, m);
                    }
                }
            }
            if let syn::Expr::MethodCall(m) = &*mc.receiver {
                if m.method == "filter_map" && m.args.len() == 1 {
                    return self.try_map_enum_filter_map_unzip(mc, m);
                }
                if m.method == "map" && m.args.len() == 1 {
                    if let syn::Expr::MethodCall(it) = &*m.receiver {
                        if it.method == "iter" && it.args.is_empty() {
                            return self.try_iter_map_unzip(mc, m, it);
                        }
                    }
                }
            }
            return self.try_enum_filter_enum_map_unzip(mc);
        }
        if mc.method == "collect" && mc.args.is_empty() {
            return self.try_enum_filter_map_collect(mc);
        }
        if mc.method == "filter_map" && mc.args.len() == 1 {
            return self.try_range_filter_map(mc);
        }
        if mc.method == "filter" && mc.args.len() == 1 {
            return self.try_filter_collect(mc);
        }
        if mc.method != "fold" || mc.args.len() != 2 {
            return false;
        }
        if let syn::Expr::MethodCall(m) = &*mc.receiver {
            if m.method == "rev" && m.args.is_empty() {
                if let syn::Expr::MethodCall(it) = &*m.receiver {
                    if it.method == "map" && it.args.len() == 1 {
                        return self.try_range_map_rev_fold(mc, it);
                    }
                    return self.try_plain_fold(mc, it, true);
                }
                return false;
            }
            if m.method == "iter" && m.args.is_empty() {
                return self.try_plain_fold(mc, m, false);
            }
            if m.method == "enumerate" && m.args.is_empty() {
                if let syn::Expr::MethodCall(it) = &*m.receiver {
                    return self.try_enum_fold(mc, it);
                }
                return false;
            }
        }
        let map = match &*mc.receiver { syn::Expr::MethodCall(m) if m.method == "map" && m.args.len() == 1 => m, _ => return false };
        let en = match &*map.receiver { syn::Expr::MethodCall(m) if m.method == "enumerate" && m.args.is_empty() => m, _ => return false };
        let it = match &*en.receiver { syn::Expr::MethodCall(m) if m.method == "iter" && m.args.is_empty() => m, _ => return false };
        let k = self.iter_chain_idx;
        self.iter_chain_idx += 1;
        let ls = match self.spec.iter_loops.get(&k.to_string()).cloned() {
            Some(l) => l,
            None => return false,
        };
        let x = &*it.receiver;
        let (xs, xe) = br(x.span());
        let (c1s, c1e) = br(map.args[0].span());
        let (is_, ie) = br(mc.args[0].span());
        let (c2s, c2e) = br(mc.args[1].span());
        let (_, end) = br(mc.span());
        let mut inv = String::new();
        if !ls.invariant.is_empty() {
            inv.push_str(&format!(" invariant {},", ls.invariant.join(", ")));
        }
        let dec = if ls.decreases.is_empty() { "__it.len() - __i".to_string() } else { ls.decreases.clone() };
        self.insert_open(xs, "{ let __it = ".to_string());
        self.replace_range(xe, c1s, "; let __f = ".to_string(), "R13-iter-chain");
        self.replace_range(c1e, is_, (if ls.acc_ty.is_empty() { "; let mut __acc = ".to_string() } else { format!("; let mut __acc: {} = ", ls.acc_ty) }), "R13-iter-chain");
        self.replace_range(ie, c2s, "; let __g = ".to_string(), "R13-iter-chain");
        self.replace_range(c2e, end, format!(
            "; let mut __i: usize = 0; while __i < __it.len(){} decreases {}, {{ {} __acc = __g(__acc, __f((__i, &__it[__i]))); __i += 1; }} {} __acc }}",
            inv, dec, ls.body_prologue, ls.after), "R13-iter-chain");
        // closures and the operands are visited for the other rules
        self.visit_expr(x);
        self.visit_expr(&map.args[0]);
        self.visit_expr(&mc.args[0]);
        self.visit_expr(&mc.args[1]);
        true
    }

    /// R13: `X.iter().rev().fold(INIT, G)` -> `acc = INIT; for i in (0..X.len()).rev() { acc = G(acc, &X[i]) }` (and the
    /// same without `.rev()`, counting upwards); G stays verbatim
    fn try_plain_fold(&mut self, mc: &syn::ExprMethodCall, it: &syn::ExprMethodCall, rev: bool) -> bool {
        if it.method != "iter" || !it.args.is_empty() {
            return false;
        }
        let k = self.iter_chain_idx;
        let ls = match self.spec.iter_loops.get(&k.to_string()).cloned() {
            Some(l) => l,
            None => return false,
        };
        self.iter_chain_idx += 1;
        let x = &*it.receiver;
        let (xs, xe) = br(x.span());
        let (is_, ie) = br(mc.args[0].span());
        let (gs, ge) = br(mc.args[1].span());
        let (_, end) = br(mc.span());
        let mut inv = String::new();
        if !ls.invariant.is_empty() {
            inv.push_str(&format!(" invariant {},", ls.invariant.join(", ")));
        }
        self.insert_open(xs, "{ let __it = ".to_string());
        self.replace_range(xe, is_, (if ls.acc_ty.is_empty() { "; let mut __acc = ".to_string() } else { format!("; let mut __acc: {} = ", ls.acc_ty) }), "R13-fold");
        self.replace_range(ie, gs, "; let __g = ".to_string(), "R13-fold");
        let text = if rev {
            let dec = if ls.decreases.is_empty() { "__i".to_string() } else { ls.decreases.clone() };
            format!("; let mut __i: usize = __it.len(); while __i > 0{} decreases {}, {{ __i -= 1; {} __acc = __g(__acc, &__it[__i]); }} {} __acc }}",
                    inv, dec, ls.body_prologue, ls.after)
        } else {
            let dec = if ls.decreases.is_empty() { "__it.len() - __i".to_string() } else { ls.decreases.clone() };
            format!("; let mut __i: usize = 0; while __i < __it.len(){} decreases {}, {{ {} __acc = __g(__acc, &__it[__i]); __i += 1; }} {} __acc }}",
                    inv, dec, ls.body_prologue, ls.after)
        };
        self.replace_range(ge, end, text, if rev { "R13-rev-fold" } else { "R13-fold" });
        self.visit_expr(x);
        self.visit_expr(&mc.args[0]);
        self.visit_expr(&mc.args[1]);
        true
    }

    /// R13: `X.iter().enumerate().fold(INIT, G)` -> `acc = INIT; for i in 0..X.len() { acc = G(acc, (i, &X[i])) }`; G verbatim
    fn try_enum_fold(&mut self, mc: &syn::ExprMethodCall, it: &syn::ExprMethodCall) -> bool {
        if it.method != "iter" || !it.args.is_empty() {
            return false;
        }
        let k = self.iter_chain_idx;
        let ls = match self.spec.iter_loops.get(&k.to_string()).cloned() {
            Some(l) => l,
            None => return false,
        };
        self.iter_chain_idx += 1;
        let x = &*it.receiver;
        let (xs, xe) = br(x.span());
        let (is_, ie) = br(mc.args[0].span());
        let (gs, ge) = br(mc.args[1].span());
        let (_, end) = br(mc.span());
        let mut inv = String::new();
        if !ls.invariant.is_empty() {
            inv.push_str(&format!(" invariant {},", ls.invariant.join(", ")));
        }
        let dec = if ls.decreases.is_empty() { "__it.len() - __i".to_string() } else { ls.decreases.clone() };
        self.insert_open(xs, "{ let __it = ".to_string());
        self.replace_range(xe, is_, (if ls.acc_ty.is_empty() { "; let mut __acc = ".to_string() } else { format!("; let mut __acc: {} = ", ls.acc_ty) }), "R13-enum-fold");
        self.replace_range(ie, gs, "; let __g = ".to_string(), "R13-enum-fold");
        self.replace_range(ge, end, format!(
            "; let mut __i: usize = 0; while __i < __it.len(){} decreases {}, {{ {} __acc = __g(__acc, (__i, &__it[__i])); __i += 1; }} {} __acc }}",
            inv, dec, ls.body_prologue, ls.after), "R13-enum-fold");
        self.visit_expr(x);
        self.visit_expr(&mc.args[0]);
        self.visit_expr(&mc.args[1]);
        true
    }

    /// R13: `X.iter().enumerate().filter(P).enumerate().map(F).unzip()` -> two vectors filled by the index loop
    /// `j = 0; for i in 0..X.len() { if P(&(i, &X[i])) { let t = F((j, (i, &X[i]))); a.push(t.0); b.push(t.1); j += 1 } }`
    fn try_enum_filter_enum_map_unzip(&mut self, mc: &syn::ExprMethodCall) -> bool {
        let map = match &*mc.receiver { syn::Expr::MethodCall(m) if m.method == "map" && m.args.len() == 1 => m, _ => return false };
        let en2 = match &*map.receiver { syn::Expr::MethodCall(m) if m.method == "enumerate" && m.args.is_empty() => m, _ => return false };
        let fl = match &*en2.receiver { syn::Expr::MethodCall(m) if m.method == "filter" && m.args.len() == 1 => m, _ => return false };
        let en1 = match &*fl.receiver { syn::Expr::MethodCall(m) if m.method == "enumerate" && m.args.is_empty() => m, _ => return false };
        let it = match &*en1.receiver { syn::Expr::MethodCall(m) if m.method == "iter" && m.args.is_empty() => m, _ => return false };
        let k = self.iter_chain_idx;
        let ls = match self.spec.iter_loops.get(&k.to_string()).cloned() { Some(l) => l, None => return false };
        self.iter_chain_idx += 1;
        let x = &*it.receiver;
        let (xs, xe) = br(x.span());
        let (ps, pe) = br(fl.args[0].span());
        let (fs, fe) = br(map.args[0].span());
        let (_, end) = br(mc.span());
        let mut inv = String::new();
        if !ls.invariant.is_empty() { inv.push_str(&format!(" invariant {},", ls.invariant.join(", "))); }
        let dec = if ls.decreases.is_empty() { "__it.len() - __i".to_string() } else { ls.decreases.clone() };
        self.insert_open(xs, "{ let __it = ".to_string());
        self.replace_range(xe, ps, "; let __p = ".to_string(), "R13-filter-map-unzip");
        self.replace_range(pe, fs, "; let __f = ".to_string(), "R13-filter-map-unzip");
        self.replace_range(fe, end, format!(
            "; let mut __a = Vec::new(); let mut __b = Vec::new(); let mut __j: usize = 0; let mut __i: usize = 0; while __i < __it.len(){} decreases {}, {{ {} if __p(&(__i, &__it[__i])) {{ let __t = __f((__j, (__i, &__it[__i]))); __a.push(__t.0); __b.push(__t.1); __j += 1; }} __i += 1; }} {} (__a, __b) }}",
            inv, dec, ls.body_prologue, ls.after), "R13-filter-map-unzip");
        self.visit_expr(x);
        self.visit_expr(&fl.args[0]);
        self.visit_expr(&map.args[0]);
        true
    }

    /// R13: `X.iter().enumerate().filter_map(F).collect()` -> `for i in 0..X.len() { if let Some(v) = F((i, &X[i])) { out.push(v) } }`
    /// R13: `X.iter().map(F).unzip()` -> `for i in 0..X.len() { let t = F(&X[i]); a.push(t.0); b.push(t.1) }`; F verbatim
    fn try_iter_map_unzip(&mut self, mc: &syn::ExprMethodCall, map: &syn::ExprMethodCall, it: &syn::ExprMethodCall) -> bool {
        let k = self.iter_chain_idx;
        let ls = match self.spec.iter_loops.get(&k.to_string()).cloned() { Some(l) => l, None => return false };
        self.iter_chain_idx += 1;
        let x = &*it.receiver;
        let (xs, xe) = br(x.span());
        let (fs, fe) = br(map.args[0].span());
        let (_, end) = br(mc.span());
        let mut inv = String::new();
        if !ls.invariant.is_empty() { inv.push_str(&format!(" invariant {},", ls.invariant.join(", "))); }
        let dec = if ls.decreases.is_empty() { "__it.len() - __i".to_string() } else { ls.decreases.clone() };
        let (ta, tb) = match ls.acc_ty.split_once(';') {
            Some((a, b)) => (format!(": Vec<{}>", a.trim()), format!(": Vec<{}>", b.trim())),
            None => (String::new(), String::new()),
        };
        self.insert_open(xs, "{ let __it = &".to_string());
        self.replace_range(xe, fs, "; let __f = ".to_string(), "R13-iter-map-unzip");
        self.replace_range(fe, end, format!(
            "; let mut __a{} = Vec::new(); let mut __b{} = Vec::new(); let mut __i: usize = 0; while __i < __it.len(){} decreases {}, {{ {} let __t = __f(&__it[__i]); __a.push(__t.0); __b.push(__t.1); {} __i += 1; }} {} (__a, __b) }}",
            ta, tb, inv, dec, ls.body_prologue, ls.body_epilogue, ls.after), "R13-iter-map-unzip");
        self.visit_expr(x);
        self.visit_expr(&map.args[0]);
        true
    }

    /// R13: `X.iter().map(F).enumerate().filter_map(G).unzip()` -> `for i in 0..X.len() { if let Some(t) = G((i, F(&X[i]))) { a.push(t.0); b.push(t.1) } }`;
    /// F and G stay verbatim closures (their contracts are R7 closure contracts).  `acc_ty` = "A; B": element types.
    fn try_map_enum_filter_map_unzip(&mut self, mc: &syn::ExprMethodCall, fm: &syn::ExprMethodCall) -> bool {
        let en = match &*fm.receiver { syn::Expr::MethodCall(m) if m.method == "enumerate" && m.args.is_empty() => m, _ => return false };
        let map = match &*en.receiver { syn::Expr::MethodCall(m) if m.method == "map" && m.args.len() == 1 => m, _ => return false };
        let it = match &*map.receiver { syn::Expr::MethodCall(m) if m.method == "iter" && m.args.is_empty() => m, _ => return false };
        let k = self.iter_chain_idx;
        let ls = match self.spec.iter_loops.get(&k.to_string()).cloned() { Some(l) => l, None => return false };
        self.iter_chain_idx += 1;
        let x = &*it.receiver;
        let (xs, xe) = br(x.span());
        let (fs, fe) = br(map.args[0].span());
        let (gs, ge) = br(fm.args[0].span());
        let (_, end) = br(mc.span());
        let mut inv = String::new();
        if !ls.invariant.is_empty() { inv.push_str(&format!(" invariant {},", ls.invariant.join(", "))); }
        let dec = if ls.decreases.is_empty() { "__it.len() - __i".to_string() } else { ls.decreases.clone() };
        let (ta, tb) = match ls.acc_ty.split_once(';') {
            Some((a, b)) => (format!(": Vec<{}>", a.trim()), format!(": Vec<{}>", b.trim())),
            None => (String::new(), String::new()),
        };
        self.insert_open(xs, "{ let __it = &".to_string());
        self.replace_range(xe, fs, "; let __f = ".to_string(), "R13-map-enum-filter-map-unzip");
        self.replace_range(fe, gs, "; let __g = ".to_string(), "R13-map-enum-filter-map-unzip");
        self.replace_range(ge, end, format!(
            "; let mut __a{} = Vec::new(); let mut __b{} = Vec::new(); let mut __i: usize = 0; while __i < __it.len(){} decreases {}, {{ {} let __o = __g((__i, __f(&__it[__i]))); match __o {{ Some(__t) => {{ __a.push(__t.0); __b.push(__t.1); }} None => {{}} }} {} __i += 1; }} {} (__a, __b) }}",
            ta, tb, inv, dec, ls.body_prologue, ls.body_epilogue, ls.after), "R13-map-enum-filter-map-unzip");
        self.visit_expr(x);
        self.visit_expr(&map.args[0]);
        self.visit_expr(&fm.args[0]);
        true
    }

    fn try_enum_filter_map_collect(&mut self, mc: &syn::ExprMethodCall) -> bool {
        let fm = match &*mc.receiver { syn::Expr::MethodCall(m) if m.method == "filter_map" && m.args.len() == 1 => m, _ => return false };
        let en = match &*fm.receiver { syn::Expr::MethodCall(m) if m.method == "enumerate" && m.args.is_empty() => m, _ => return false };
        let it = match &*en.receiver { syn::Expr::MethodCall(m) if m.method == "iter" && m.args.is_empty() => m, _ => return false };
        let k = self.iter_chain_idx;
        let ls = match self.spec.iter_loops.get(&k.to_string()).cloned() { Some(l) => l, None => return false };
        self.iter_chain_idx += 1;
        let x = &*it.receiver;
        let (xs, xe) = br(x.span());
        let (fs, fe) = br(fm.args[0].span());
        let (_, end) = br(mc.span());
        let mut inv = String::new();
        if !ls.invariant.is_empty() { inv.push_str(&format!(" invariant {},", ls.invariant.join(", "))); }
        let dec = if ls.decreases.is_empty() { "__it.len() - __i".to_string() } else { ls.decreases.clone() };
        self.insert_open(xs, "{ let __it = ".to_string());
        self.replace_range(xe, fs, "; let __f = ".to_string(), "R13-filter-map-collect");
        self.replace_range(fe, end, format!(
            "; let mut __v = Vec::new(); let mut __i: usize = 0; while __i < __it.len(){} decreases {}, {{ {} let __o = __f((__i, &__it[__i])); if let Some(__x) = __o {{ __v.push(__x); }} __i += 1; }} {} __v }}",
            inv, dec, ls.body_prologue, ls.after), "R13-filter-map-collect");
        self.visit_expr(x);
        self.visit_expr(&fm.args[0]);
        true
    }

    /// R13: `(0..N).filter_map(|i| BODY)` (lazy, its closure counts in a captured variable, consumed once and entirely by the
    /// `quote!` repetition that follows) -> `for i in 0..N { if let Some(v) = BODY { out.push(v) } }` with BODY inlined.
    /// DROPPED: laziness (as for the filter adaptor above).
    fn try_range_filter_map(&mut self, mc: &syn::ExprMethodCall) -> bool {
        let range = match &*mc.receiver {
            syn::Expr::Paren(p) => match &*p.expr { syn::Expr::Range(r) => r, _ => return false },
            _ => return false,
        };
        let (lo, hi) = match (&range.start, &range.end, &range.limits) {
            (Some(a), Some(b), syn::RangeLimits::HalfOpen(_)) => (a, b),
            _ => return false,
        };
        let cl = match &mc.args[0] { syn::Expr::Closure(c) => c, _ => return false };
        let var = match cl.inputs.first() {
            Some(syn::Pat::Ident(pi)) if cl.inputs.len() == 1 && pi.subpat.is_none() => pi.ident.to_string(),
            _ => return false,
        };
        let k = self.iter_chain_idx;
        let ls = match self.spec.iter_loops.get(&k.to_string()).cloned() { Some(l) => l, None => return false };
        self.iter_chain_idx += 1;
        self.closure_idx += 1;
        let (ms, _) = br(mc.span());
        let (los, loe) = br(lo.span());
        let (his, hie) = br(hi.span());
        let (bs, be) = br(cl.body.span());
        let (_, end) = br(mc.span());
        let mut inv = String::new();
        if !ls.invariant.is_empty() { inv.push_str(&format!(" invariant {},", ls.invariant.join(", "))); }
        let dec = if ls.decreases.is_empty() { format!("__hi - {}", var) } else { ls.decreases.clone() };
        self.replace_range(ms, los, format!("{{ let mut {}: usize = ", var), "R13-range-filter-map");
        self.replace_range(loe, his, "; let __hi: usize = ".to_string(), "R13-range-filter-map");
        self.replace_range(hie, bs, format!(
            "; let mut __v = Vec::new(); while {} < __hi{} decreases {}, {{ {} let __o = ", var, inv, dec, ls.body_prologue), "R13-range-filter-map");
        self.replace_range(be, end, format!("; if let Some(__x) = __o {{ __v.push(__x); }} {} += 1; }} {} __v }}", var, ls.after), "R13-range-filter-map");
        self.visit_expr(lo);
        self.visit_expr(hi);
        self.visit_expr(&cl.body);
        true
    }

    /// R13: `(A..B).map(F).rev().fold(INIT, G)` -> `acc = INIT; for i in (A..B).rev() { acc = G(acc, F(i)) }`; F and G verbatim.
    /// DROPPED: the order in which F is called relative to G (the adaptor chain calls F(i) right before G(.., F(i)), as the loop does).
    fn try_range_map_rev_fold(&mut self, mc: &syn::ExprMethodCall, map: &syn::ExprMethodCall) -> bool {
        let range = match &*map.receiver {
            syn::Expr::Paren(p) => match &*p.expr { syn::Expr::Range(r) => r, _ => return false },
            _ => return false,
        };
        let (lo, hi) = match (&range.start, &range.end, &range.limits) {
            (Some(a), Some(b), syn::RangeLimits::HalfOpen(_)) => (a, b),
            _ => return false,
        };
        let k = self.iter_chain_idx;
        let ls = match self.spec.iter_loops.get(&k.to_string()).cloned() { Some(l) => l, None => return false };
        self.iter_chain_idx += 1;
        let (ms, _) = br(mc.span());
        let (los, loe) = br(lo.span());
        let (his, hie) = br(hi.span());
        let (fs, fe) = br(map.args[0].span());
        let (is_, ie) = br(mc.args[0].span());
        let (gs, ge) = br(mc.args[1].span());
        let (_, end) = br(mc.span());
        let mut inv = String::new();
        if !ls.invariant.is_empty() { inv.push_str(&format!(" invariant {},", ls.invariant.join(", "))); }
        let dec = if ls.decreases.is_empty() { "__i - __lo".to_string() } else { ls.decreases.clone() };
        self.replace_range(ms, los, "{ let __lo: usize = ".to_string(), "R13-range-map-rev-fold");
        self.replace_range(loe, his, "; let __hi: usize = ".to_string(), "R13-range-map-rev-fold");
        self.replace_range(hie, fs, "; let __f = ".to_string(), "R13-range-map-rev-fold");
        self.replace_range(fe, is_, (if ls.acc_ty.is_empty() { "; let mut __acc = ".to_string() } else { format!("; let mut __acc: {} = ", ls.acc_ty) }), "R13-range-map-rev-fold");
        self.replace_range(ie, gs, "; let __g = ".to_string(), "R13-range-map-rev-fold");
        self.replace_range(ge, end, format!(
            "; let mut __i: usize = if __hi > __lo {{ __hi }} else {{ __lo }}; while __i > __lo{} decreases {}, {{ __i -= 1; {} __acc = __g(__acc, __f(__i)); }} {} __acc }}",
            inv, dec, ls.body_prologue, ls.after), "R13-range-map-rev-fold");
        self.visit_expr(lo);
        self.visit_expr(hi);
        self.visit_expr(&map.args[0]);
        self.visit_expr(&mc.args[0]);
        self.visit_expr(&mc.args[1]);
        true
    }

    /// R13: `(A..B).map(F).unzip()` -> two vectors filled by `for i in A..B { let t = F(i); a.push(t.0); b.push(t.1) }`
    fn try_range_map_unzip(&mut self, mc: &syn::ExprMethodCall, map: &syn::ExprMethodCall) -> bool {
        let range = match &*map.receiver {
            syn::Expr::Paren(p) => match &*p.expr { syn::Expr::Range(r) => r, _ => return false },
            _ => return false,
        };
        let (lo, hi) = match (&range.start, &range.end, &range.limits) {
            (Some(a), Some(b), syn::RangeLimits::HalfOpen(_)) => (a, b),
            _ => return false,
        };
        let k = self.iter_chain_idx;
        let ls = match self.spec.iter_loops.get(&k.to_string()).cloned() { Some(l) => l, None => return false };
        self.iter_chain_idx += 1;
        let (ms, _) = br(mc.span());
        let (los, loe) = br(lo.span());
        let (his, hie) = br(hi.span());
        let (fs, fe) = br(map.args[0].span());
        let (_, end) = br(mc.span());
        let mut inv = String::new();
        if !ls.invariant.is_empty() { inv.push_str(&format!(" invariant {},", ls.invariant.join(", "))); }
        let dec = if ls.decreases.is_empty() { "__hi - __i".to_string() } else { ls.decreases.clone() };
        self.replace_range(ms, los, "{ let __lo: usize = ".to_string(), "R13-range-map-unzip");
        self.replace_range(loe, his, "; let __hi: usize = ".to_string(), "R13-range-map-unzip");
        self.replace_range(hie, fs, "; let __f = ".to_string(), "R13-range-map-unzip");
        // `acc_ty` = "A;B": element types of the two vectors (Verus needs them before the invariant mentions the vectors)
        let (ta, tb) = match ls.acc_ty.split_once(';') {
            Some((a, b)) => (format!(": Vec<{}>", a.trim()), format!(": Vec<{}>", b.trim())),
            None => (String::new(), String::new()),
        };
        self.replace_range(fe, end, format!(
            "; let mut __a{} = Vec::new(); let mut __b{} = Vec::new(); let mut __i: usize = __lo; while __i < __hi{} decreases {}, {{ {} let __t = __f(__i); __a.push(__t.0); __b.push(__t.1); __i += 1; }} {} (__a, __b) }}",
            ta, tb, inv, dec, ls.body_prologue, ls.after), "R13-range-map-unzip");
        self.visit_expr(lo);
        self.visit_expr(hi);
        self.visit_expr(&map.args[0]);
        true
    }

    /// R13: `X.iter().filter(P).count()` -> `n = 0; for i in 0..X.len() { if P(&&X[i]) { n += 1 } }`; P stays a verbatim closure
    fn try_filter_count(&mut self, mc: &syn::ExprMethodCall) -> bool {
        let fl = match &*mc.receiver { syn::Expr::MethodCall(m) if m.method == "filter" && m.args.len() == 1 => m, _ => return false };
        let it = match &*fl.receiver { syn::Expr::MethodCall(m) if m.method == "iter" && m.args.is_empty() => m, _ => return false };
        let k = self.iter_chain_idx;
        self.iter_chain_idx += 1;
        let ls = match self.spec.iter_loops.get(&k.to_string()).cloned() {
            Some(l) => l,
            None => return false,
        };
        let x = &*it.receiver;
        let (xs, xe) = br(x.span());
        let (ps, pe) = br(fl.args[0].span());
        let (_, end) = br(mc.span());
        let mut inv = String::new();
        if !ls.invariant.is_empty() {
            inv.push_str(&format!(" invariant {},", ls.invariant.join(", ")));
        }
        let dec = if ls.decreases.is_empty() { "__it.len() - __i".to_string() } else { ls.decreases.clone() };
        self.insert_open(xs, "{ let __it = &".to_string());
        self.replace_range(xe, ps, "; let __p = ".to_string(), "R13-filter-count");
        self.replace_range(pe, end, format!(
            "; let mut __n: usize = 0; let mut __i: usize = 0; while __i < __it.len(){} decreases {}, {{ {} if __p(&&__it[__i]) {{ __n += 1; }} __i += 1; }} {} __n }}",
            inv, dec, ls.body_prologue, ls.after), "R13-filter-count");
        self.visit_expr(x);
        self.visit_expr(&fl.args[0]);
        true
    }

    /// R13: `X.iter().find(P)` -> the first element (in slice order) for which P holds: the index loop `Iterator::find`
    /// is defined as.  Also `X.clone().find(P)` where X is a restartable iterator that the plan monomorphises to the
    /// slice it iterates (the clone restarts at the first element).
    fn try_iter_find(&mut self, mc: &syn::ExprMethodCall, it: &syn::ExprMethodCall) -> bool {
        let k = self.iter_chain_idx;
        let ls = match self.spec.iter_loops.get(&k.to_string()).cloned() {
            Some(l) => l,
            None => return false,
        };
        self.iter_chain_idx += 1;
        let x = &*it.receiver;
        let (xs, xe) = br(x.span());
        let (ps, pe) = br(mc.args[0].span());
        let (_, end) = br(mc.span());
        let mut inv = String::new();
        if !ls.invariant.is_empty() {
            inv.push_str(&format!(" invariant {},", ls.invariant.join(", ")));
        }
        let dec = if ls.decreases.is_empty() { "(__it.len() - __i) * 2 + (if __r is None { 1int } else { 0int })".to_string() } else { ls.decreases.clone() };
        self.insert_open(xs, "{ let __it = ".to_string());
        self.replace_range(xe, ps, "; let __p = ".to_string(), "R13-iter-find");
        self.replace_range(pe, end, format!(
            "; let mut __r = None; let mut __i: usize = 0; while __i < __it.len() && __r.is_none(){} decreases {}, {{ {} if __p(&&__it[__i]) {{ __r = Some(&__it[__i]); }} else {{ __i += 1; }} }} {} __r }}",
            inv, dec, ls.body_prologue, ls.after), "R13-iter-find");
        self.visit_expr(x);
        self.visit_expr(&mc.args[0]);
        true
    }

    /// R13: `X.iter().filter(|_| BODY)` (a lazy adaptor whose closure mutates a captured counter, consumed once and
    /// entirely by the `quote!` repetition that follows) -> the references it yields, collected eagerly by the loop
    /// `for i in 0..X.len() { if BODY { v.push(&X[i]) } }` with BODY inlined verbatim.
    /// DROPPED: laziness (BODY runs at the `let`, not inside the repetition; nothing runs in between).
    fn try_filter_collect(&mut self, mc: &syn::ExprMethodCall) -> bool {
        let it = match &*mc.receiver { syn::Expr::MethodCall(m) if m.method == "iter" && m.args.is_empty() => m, _ => return false };
        let cl = match &mc.args[0] { syn::Expr::Closure(c) => c, _ => return false };
        if cl.inputs.len() != 1 || !matches!(cl.inputs[0], syn::Pat::Wild(_)) {
            return false;
        }
        let k = self.iter_chain_idx;
        let ls = match self.spec.iter_loops.get(&k.to_string()).cloned() {
            Some(l) => l,
            None => return false,
        };
        self.iter_chain_idx += 1;
        // the closure disappears from the output but keeps its ordinal (R7 contracts are keyed by source order)
        self.closure_idx += 1;
        let x = &*it.receiver;
        let (xs, xe) = br(x.span());
        let (bs, be) = br(cl.body.span());
        let (_, end) = br(mc.span());
        let mut inv = String::new();
        if !ls.invariant.is_empty() {
            inv.push_str(&format!(" invariant {},", ls.invariant.join(", ")));
        }
        let dec = if ls.decreases.is_empty() { "__it.len() - __i".to_string() } else { ls.decreases.clone() };
        self.insert_open(xs, "{ let __it = ".to_string());
        self.replace_range(xe, bs, format!(
            "; let mut __v = Vec::new(); let mut __i: usize = 0; while __i < __it.len(){} decreases {}, {{ {} let __keep = ",
            inv, dec, ls.body_prologue), "R13-filter-collect");
        self.replace_range(be, end, format!("; if __keep {{ __v.push(&__it[__i]); }} __i += 1; }} {} __v }}", ls.after), "R13-filter-collect");
        self.visit_expr(x);
        self.visit_expr(&cl.body);
        true
    }

    fn text(&self, sp: Span) -> &'a str {
        let (s, e) = br(sp);
        &self.src[s..e]
    }
    fn next_seq(&mut self) -> i64 {
        self.seq += 1;
        self.seq
    }
    fn replace(&mut self, sp: Span, text: String, rule: &str) {
        let (s, e) = br(sp);
        let o = self.next_seq();
        self.log.push(Rewrite {
            rule: rule.to_string(),
            item: self.item.clone(),
            orig: short(&self.src[s..e]),
            repl: short(&text),
        });
        self.edits.push(Edit {
            start: s,
            end: e,
            text,
            order: o,
        });
    }
    fn replace_range(&mut self, s: usize, e: usize, text: String, rule: &str) {
        let o = self.next_seq();
        self.log.push(Rewrite {
            rule: rule.to_string(),
            item: self.item.clone(),
            orig: short(&self.src[s..e]),
            repl: short(&text),
        });
        self.edits.push(Edit {
            start: s,
            end: e,
            text,
            order: o,
        });
    }
    fn insert_open(&mut self, pos: usize, text: String) {
        let o = self.next_seq();
        self.edits.push(Edit {
            start: pos,
            end: pos,
            text,
            order: o,
        });
    }
    fn insert_close(&mut self, pos: usize, text: String) {
        let o = self.next_seq();
        self.edits.push(Edit {
            start: pos,
            end: pos,
            text,
            order: -o,
        });
    }

    /// R5: collect array patterns inside a pattern; replaces each by a fresh binding and
    /// returns the `let` prologue that re-creates the element bindings by reference.
    fn array_pats(&mut self, pat: &syn::Pat, prologue: &mut String) {
        match pat {
            syn::Pat::Slice(sl) => {
                let name = format!("__a{}", self.arr_idx);
                self.arr_idx += 1;
                let mut ok = true;
                for (i, el) in sl.elems.iter().enumerate() {
                    match el {
                        syn::Pat::Ident(pi) if pi.subpat.is_none() && pi.by_ref.is_none() => {
                            prologue.push_str(&format!("let {} = &{}[{}]; ", pi.ident, name, i));
                        }
                        syn::Pat::Wild(_) => {}
                        _ => ok = false,
                    }
                }
                if !ok {
                    self.errors.push(format!(
                        "R5: unsupported element in array pattern `{}`",
                        self.text(sl.span())
                    ));
                }
                self.replace(sl.span(), name, "R5-array-pattern");
            }
            syn::Pat::TupleStruct(ts) => {
                for p in ts.elems.iter() {
                    self.array_pats(p, prologue);
                }
            }
            syn::Pat::Tuple(t) => {
                for p in t.elems.iter() {
                    self.array_pats(p, prologue);
                }
            }
            syn::Pat::Or(o) => {
                for p in o.cases.iter() {
                    self.array_pats(p, prologue);
                }
            }
            syn::Pat::Reference(r) => self.array_pats(&r.pat, prologue),
            syn::Pat::Struct(s) => {
                for f in s.fields.iter() {
                    self.array_pats(&f.pat, prologue);
                }
            }
            syn::Pat::Paren(p) => self.array_pats(&p.pat, prologue),
            syn::Pat::Ident(pi) => {
                if let Some((_, sub)) = &pi.subpat {
                    self.array_pats(sub, prologue);
                }
            }
            _ => {}
        }
    }

    fn handle_macro(&mut self, mac: &syn::Macro, whole: Span) {
        let name = mac
            .path
            .segments
            .last()
            .map(|s| s.ident.to_string())
            .unwrap_or_default();
        match name.as_str() {
            "quote" => {
                let k = self.quote_idx;
                self.quote_idx += 1;
                if self.spec.opaque_quotes.contains(&k) {
                    // R16: interpolated variables in order of first occurrence (repetitions are not supported here)
                    fn scan(ts: TokenStream, out: &mut Vec<String>, bad: &mut bool) {
                        let toks: Vec<TokenTree> = ts.into_iter().collect();
                        let mut i = 0;
                        while i < toks.len() {
                            match &toks[i] {
                                TokenTree::Punct(p) if p.as_char() == '#' && i + 1 < toks.len() => match &toks[i + 1] {
                                    TokenTree::Ident(id) => {
                                        let n = id.to_string();
                                        if !out.contains(&n) { out.push(n); }
                                        i += 2;
                                        continue;
                                    }
                                    TokenTree::Group(g) if g.delimiter() == Delimiter::Parenthesis => { *bad = true; }
                                    _ => {}
                                },
                                TokenTree::Group(g) => scan(g.stream(), out, bad),
                                _ => {}
                            }
                            i += 1;
                        }
                    }
                    let mut vars = Vec::new();
                    let mut bad = false;
                    scan(mac.tokens.clone(), &mut vars, &mut bad);
                    if bad {
                        self.errors.push(format!("R16: quote! #{} has a repetition and cannot be made opaque", k));
                        return;
                    }
                    let fname = format!("oq_{}_{}", self.item.replace(|c: char| !c.is_alphanumeric(), "_"), k);
                    let gens: Vec<String> = (0..vars.len()).map(|i| format!("Q{}: ToTokens", i)).collect();
                    let params: Vec<String> = vars.iter().enumerate().map(|(i, v)| format!("{}: &Q{}", v, i)).collect();
                    let sparams: Vec<String> = vars.iter().map(|v| format!("{}: Seq<Tok>", v)).collect();
                    let sargs: Vec<String> = vars.iter().map(|v| format!("{}.toks()", v)).collect();
                    let reqs: Vec<String> = vars.iter().map(|v| format!("{}.tokenizable()", v)).collect();
                    self.pre_items.push_str(&format!(
                        "/// R16: the body of quote! #{k} of {item} (not specified: a function of what it interpolates)\npub uninterp spec fn {f}_spec({sp}) -> Seq<Tok>;\n#[verifier::external_body]\npub fn {f}{g}({p}) -> (r: TokenStream)\n    {req}ensures r@ == {f}_spec({sa}),\n{{ unimplemented!() }}\n",
                        k = k, item = self.item, f = fname, sp = sparams.join(", "),
                        g = if gens.is_empty() { String::new() } else { format!("<{}>", gens.join(", ")) },
                        p = params.join(", "),
                        req = if reqs.is_empty() { String::new() } else { format!("requires {},\n    ", reqs.join(", ")) },
                        sa = sargs.join(", ")));
                    let args: Vec<String> = vars.iter().map(|v| format!("&{}", v)).collect();
                    self.replace(whole, format!("{}({})", fname, args.join(", ")), "R16-opaque-quote");
                    return;
                }
                match self.qgen.gen_stream(mac.tokens.clone()) {
                    Ok(t) => self.replace(whole, t, "R2-quote"),
                    Err(e) => self.errors.push(e),
                }
            }
            "parse_quote" => match self.qgen.gen_stream(mac.tokens.clone()) {
                Ok(t) => self.replace(
                    whole,
                    format!("FromTokens::from_tokens({})", t),
                    "R3-parse_quote",
                ),
                Err(e) => self.errors.push(e),
            },
            "format_ident" => {
                let parsed: Result<FormatIdentArgs, _> = syn::parse2(mac.tokens.clone());
                match parsed {
                    Ok(fa) => {
                        let pieces: Vec<&str> = fa.fmt.split("{}").collect();
                        if pieces.len() != fa.args.len() + 1
                            || fa.fmt.replace("{}", "").contains('{')
                        {
                            self.errors
                                .push(format!("R4: unsupported format string {:?}", fa.fmt));
                            return;
                        }
                        let mut call = format!("ident_fmt{}(", fa.args.len());
                        for (i, p) in pieces.iter().enumerate() {
                            if i > 0 {
                                call.push_str(", ");
                            }
                            call.push_str(&format!("\"{}\"", esc_str(p)));
                            if i < fa.args.len() {
                                let a = &fa.args[i];
                                let mut t = self.text(a.span()).to_string();
                                if let syn::Expr::MethodCall(mc) = a {
                                    if mc.method == "into" && mc.args.is_empty() {
                                        if let syn::Expr::Path(p) = &*mc.receiver {
                                            if let Some(id) = p.path.get_ident() {
                                                if self.into_usize.contains(&id.to_string()) {
                                                    t = id.to_string();
                                                }
                                            }
                                        }
                                    }
                                }
                                call.push_str(&format!(", {}", t));
                            }
                        }
                        call.push(')');
                        self.replace(whole, call, "R4-format_ident");
                    }
                    Err(e) => self.errors.push(format!("R4: cannot parse format_ident!: {}", e)),
                }
            }
            "matches" | "vec" | "panic" | "unreachable" | "unimplemented" | "assert"
            | "assert_eq" | "debug_assert" => {
                // accepted verbatim by Verus; but `self` renaming cannot look inside
                if self.rename_self && mac.tokens.to_string().contains("self") {
                    self.errors.push(format!(
                        "R5: `self` inside macro `{}` in a `mut self` function",
                        name
                    ));
                }
            }
            "format" => {
                // only ever used to build error-message strings: value is opaque
                self.replace(whole, "opaque_string()".to_string(), "R11-format");
            }
            "parenthesized" => {
                // `parenthesized!(content in input)` assigns the parenthesised sub-stream to the declared local and
                // returns early with the error otherwise (definition of the syn macro)
                let toks: Vec<String> = mac.tokens.clone().into_iter().map(|t| t.to_string()).collect();
                if toks.len() == 3 && toks[1] == "in" {
                    self.replace(whole, format!("{} = parenthesized_in({})?", toks[0], toks[2]), "R11-parenthesized");
                } else {
                    self.errors.push("R11: unsupported form of parenthesized!".to_string());
                }
            }
            "Token" => {
                let t: String = mac
                    .tokens
                    .to_string()
                    .chars()
                    .filter(|c| !c.is_whitespace())
                    .collect();
                let marker = match t.as_str() {
                    "," => "TokComma",
                    "=>" => "TokFatArrow",
                    other => {
                        self.errors
                            .push(format!("R11: unsupported Token![{}] in body", other));
                        return;
                    }
                };
                self.replace(whole, marker.to_string(), "R11-Token");
            }
            other => self
                .errors
                .push(format!("unsupported macro `{}!` in {}", other, self.item)),
        }
    }
}

struct FormatIdentArgs {
    fmt: String,
    args: Vec<syn::Expr>,
}
impl syn::parse::Parse for FormatIdentArgs {
    fn parse(input: syn::parse::ParseStream) -> syn::Result<Self> {
        let s: syn::LitStr = input.parse()?;
        let mut args = Vec::new();
        while !input.is_empty() {
            input.parse::<syn::Token![,]>()?;
            if input.is_empty() {
                break;
            }
            args.push(input.parse()?);
        }
        Ok(Self {
            fmt: s.value(),
            args,
        })
    }
}

impl<'a, 'ast> Visit<'ast> for Rw<'a> {
    fn visit_attribute(&mut self, a: &'ast syn::Attribute) {
        let (s, e) = br(a.span());
        // R1
        let o = self.next_seq();
        self.edits.push(Edit {
            start: s,
            end: e,
            text: String::new(),
            order: o,
        });
    }

    fn visit_stmt(&mut self, st: &'ast syn::Stmt) {
        if !self.spec.stmt_calls.is_empty() {
            let (ss, se) = br(st.span());
            let hit = self.spec.stmt_calls.iter().find(|(k, _)| self.src[ss..].starts_with(k.as_str())).map(|(k, v)| (k.clone(), v.clone()));
            if let Some((k, v)) = hit {
                self.replace_range(ss, se, v, "R15-call-out");
                *self.stmt_calls_done.entry(k).or_insert(0) += 1;
                return;
            }
        }
        syn::visit::visit_stmt(self, st);
    }

    fn visit_block(&mut self, b: &'ast syn::Block) {
        if !self.spec.block_call_from.is_empty() && !self.block_call_done {
            if let Some(st) = b.stmts.first() {
                let (ss, _) = br(st.span());
                if self.src[ss..].starts_with(self.spec.block_call_from.as_str()) {
                    let (_, be) = br(b.span());
                    let call = self.spec.block_call.clone();
                    self.replace_range(ss, be - 1, format!("{}\n", call), "R15-call-out");
                    self.block_call_done = true;
                    return;
                }
            }
        }
        syn::visit::visit_block(self, b);
    }

    fn visit_expr_macro(&mut self, m: &'ast syn::ExprMacro) {
        for a in &m.attrs {
            self.visit_attribute(a);
        }
        self.handle_macro(&m.mac, m.mac.span());
    }

    fn visit_stmt_macro(&mut self, m: &'ast syn::StmtMacro) {
        for a in &m.attrs {
            self.visit_attribute(a);
        }
        self.handle_macro(&m.mac, m.mac.span());
    }

    fn visit_type_macro(&mut self, m: &'ast syn::TypeMacro) {
        self.handle_macro(&m.mac, m.mac.span());
    }

    fn visit_arm(&mut self, arm: &'ast syn::Arm) {
        for a in &arm.attrs {
            self.visit_attribute(a);
        }
        let mut prologue = String::new();
        self.array_pats(&arm.pat, &mut prologue);
        if !prologue.is_empty() {
            let (bs, be) = br(arm.body.span());
            self.insert_open(bs, format!("{{ {}", prologue));
            self.insert_close(be, " }".to_string());
        }
        if let Some((_, g)) = &arm.guard {
            self.visit_expr(g);
        }
        self.visit_expr(&arm.body);
    }

    fn visit_local(&mut self, l: &'ast syn::Local) {
        for a in &l.attrs {
            self.visit_attribute(a);
        }
        let mut prologue = String::new();
        self.array_pats(&l.pat, &mut prologue);
        if !prologue.is_empty() {
            self.errors.push(format!(
                "R5: array pattern in `let` is not supported: `{}`",
                short(self.text(l.span()))
            ));
        }
        self.visit_pat(&l.pat);
        if let Some(init) = &l.init {
            self.visit_expr(&init.expr);
            if let Some((_, d)) = &init.diverge {
                self.visit_expr(d);
            }
        }
    }

    fn visit_expr_if(&mut self, i: &'ast syn::ExprIf) {
        // `if let PAT = e` with array patterns is not supported
        if let syn::Expr::Let(l) = &*i.cond {
            let mut prologue = String::new();
            self.array_pats(&l.pat, &mut prologue);
            if !prologue.is_empty() {
                let (bs, _) = br(i.then_branch.span());
                // insert right after the opening brace of the then-block
                self.insert_open(bs + 1, format!(" {}", prologue));
            }
        }
        syn::visit::visit_expr_if(self, i);
    }

    fn visit_expr_closure(&mut self, c: &'ast syn::ExprClosure) {
        let k = self.closure_idx;
        self.closure_idx += 1;
        // R7 lookup: by source-order ordinal, else by the text of the parameter list (`|a, (b, c)|`, n-th occurrence as
        // `|..|#n`), which survives the insertion or removal of other closures in the function
        let pkey = {
            let ps: Vec<String> = c.inputs.iter().map(|p| self.text(p.span()).split_whitespace().collect::<Vec<_>>().join(" ")).collect();
            format!("|{}|", ps.join(", "))
        };
        let occ = {
            let e = self.closure_pat_seen.entry(pkey.clone()).or_insert(0);
            let o = *e;
            *e += 1;
            o
        };
        let spec = self
            .spec
            .closures
            .get(&k.to_string())
            .or_else(|| self.spec.closures.get(&format!("{}#{}", pkey, occ)))
            .or_else(|| if occ == 0 { self.spec.closures.get(&pkey) } else { None })
            .cloned();
        let mut prologue = String::new();
        let call_out = spec.as_ref().map(|c| c.call_out.clone()).unwrap_or_default();
        if let Some(cs) = spec {
            let k: String = if cs.id.is_empty() { format!("c{}", k) } else { cs.id.clone() };
            if cs.params.len() != c.inputs.len() {
                self.errors.push(format!(
                    "R7: closure {} of {} has {} params, contract gives {}",
                    k,
                    self.item,
                    c.inputs.len(),
                    cs.params.len()
                ));
            } else {
                let mut head = String::new();
                if c.capture.is_some() {
                    head.push_str("move ");
                }
                head.push('|');
                for (i, p) in c.inputs.iter().enumerate() {
                    if i > 0 {
                        head.push_str(", ");
                    }
                    let inner = match p {
                        syn::Pat::Type(pt) => &*pt.pat,
                        other => other,
                    };
                    match inner {
                        syn::Pat::Ident(pi) if pi.subpat.is_none() => {
                            head.push_str(&format!("{}: {}", pi.ident, cs.params[i]));
                        }
                        syn::Pat::Wild(_) => {
                            head.push_str(&format!("__{}p{}: {}", k, i, cs.params[i]));
                        }
                        syn::Pat::Slice(sl) => {
                            let name = format!("__{}p{}", k, i);
                            for (j, el) in sl.elems.iter().enumerate() {
                                match el {
                                    syn::Pat::Ident(pi) => prologue.push_str(&format!(
                                        "let {} = &{}[{}]; ",
                                        pi.ident, name, j
                                    )),
                                    syn::Pat::Wild(_) => {}
                                    _ => self.errors.push(
                                        "R5: unsupported closure array pattern element".to_string(),
                                    ),
                                }
                            }
                            head.push_str(&format!("{}: {}", name, cs.params[i]));
                        }
                        syn::Pat::Tuple(t) if t.elems.iter().any(|e| matches!(e, syn::Pat::Reference(_))) => {
                            // R5: `(a, &b)` -> `let a = p.0; let b = *p.1;` (reference patterns are not supported by Verus)
                            let name = format!("__{}p{}", k, i);
                            for (j, el) in t.elems.iter().enumerate() {
                                let mut depth = 0;
                                let mut cur = el;
                                while let syn::Pat::Reference(r) = cur {
                                    depth += 1;
                                    cur = &*r.pat;
                                }
                                match cur {
                                    syn::Pat::Ident(pi) if pi.subpat.is_none() && pi.by_ref.is_none() => {
                                        prologue.push_str(&format!("let {}{} = {}{}.{}; ", if pi.mutability.is_some() { "mut " } else { "" }, pi.ident, "*".repeat(depth), name, j));
                                    }
                                    syn::Pat::Wild(_) => {}
                                    _ => self.errors.push("R5: unsupported element in a tuple closure parameter with reference patterns".to_string()),
                                }
                            }
                            self.log.push(Rewrite {
                                rule: "R5-ref-pattern".to_string(),
                                item: self.item.clone(),
                                orig: self.text(inner.span()).to_string(),
                                repl: format!("{}: _; field-wise lets with derefs", name),
                            });
                            head.push_str(&format!("{}: {}", name, cs.params[i]));
                        }
                        syn::Pat::Tuple(_) | syn::Pat::Struct(_) | syn::Pat::TupleStruct(_) => {
                            let name = format!("__{}p{}", k, i);
                            prologue.push_str(&format!(
                                "let {} = {}; ",
                                self.text(inner.span()),
                                name
                            ));
                            head.push_str(&format!("{}: {}", name, cs.params[i]));
                        }
                        syn::Pat::Reference(_) => {
                            // R5: `&&x` (reference patterns are not supported by Verus) -> `let x = **param;`
                            let name = format!("__{}p{}", k, i);
                            let mut depth = 0;
                            let mut cur = inner;
                            while let syn::Pat::Reference(r) = cur {
                                if r.mutability.is_some() {
                                    self.errors.push("R5: `&mut` closure parameter pattern".to_string());
                                }
                                depth += 1;
                                cur = &*r.pat;
                            }
                            match cur {
                                syn::Pat::Ident(pi) if pi.subpat.is_none() && pi.by_ref.is_none() => {
                                    prologue.push_str(&format!("let {} = {}{}; ", pi.ident, "*".repeat(depth), name));
                                    self.log.push(Rewrite {
                                        rule: "R5-ref-pattern".to_string(),
                                        item: self.item.clone(),
                                        orig: self.text(inner.span()).to_string(),
                                        repl: format!("{}: _; let {} = {}{}", name, pi.ident, "*".repeat(depth), name),
                                    });
                                }
                                syn::Pat::Tuple(t) => {
                                    // `&(a, _)` -> `let a = (*p).0;`
                                    for (j, el) in t.elems.iter().enumerate() {
                                        match el {
                                            syn::Pat::Ident(pi) if pi.subpat.is_none() && pi.by_ref.is_none() => {
                                                prologue.push_str(&format!("let {} = ({}{}).{}; ", pi.ident, "*".repeat(depth), name, j));
                                            }
                                            syn::Pat::Wild(_) => {}
                                            _ => self.errors.push("R5: unsupported element in a `&(..)` closure parameter".to_string()),
                                        }
                                    }
                                    self.log.push(Rewrite {
                                        rule: "R5-ref-pattern".to_string(),
                                        item: self.item.clone(),
                                        orig: self.text(inner.span()).to_string(),
                                        repl: format!("{}: _; field-wise lets through the reference", name),
                                    });
                                }
                                _ => self.errors.push("R5: unsupported reference pattern in closure parameter".to_string()),
                            }
                            head.push_str(&format!("{}: {}", name, cs.params[i]));
                        }
                        _ => self.errors.push(format!(
                            "R7: unsupported closure parameter pattern `{}`",
                            self.text(p.span())
                        )),
                    }
                }
                head.push('|');
                if !cs.ret.is_empty() {
                    head.push_str(&format!(" -> {}", cs.ret));
                }
                if !cs.requires.is_empty() {
                    head.push_str(&format!(" requires {},", cs.requires.join(", ")));
                }
                if !cs.ensures.is_empty() {
                    head.push_str(&format!(" ensures {},", cs.ensures.join(", ")));
                }
                let (cs_, _) = br(c.span());
                let (bs, be) = br(c.body.span());
                self.replace_range(cs_, bs, format!("{} {{ {}{}", head, prologue, if cs.prologue.is_empty() { String::new() } else { format!("{} ", cs.prologue) }), "R7-closure-contract");
                self.insert_close(be, " }".to_string());
            }
        } else {
            for p in c.inputs.iter() {
                let inner = match p {
                    syn::Pat::Type(pt) => &*pt.pat,
                    other => other,
                };
                match inner {
                    syn::Pat::Ident(_) | syn::Pat::Wild(_) => {}
                    _ => self.errors.push(format!(
                        "closure {} of {} has a parameter pattern `{}` and no contract",
                        k,
                        self.item,
                        self.text(p.span())
                    )),
                }
            }
        }
        if !call_out.is_empty() {
            self.replace(c.body.span(), call_out, "R15-call-out");
            return;
        }
        let saved = self.in_tail_loop_depth;
        self.in_tail_loop_depth = 0;
        let mut done = false;
        if let syn::Expr::Loop(l) = &*c.body {
            struct HasBreakVal(bool);
            impl<'ast> Visit<'ast> for HasBreakVal {
                fn visit_expr_break(&mut self, b: &'ast syn::ExprBreak) {
                    if b.expr.is_some() {
                        self.0 = true;
                    }
                }
                fn visit_expr_closure(&mut self, _: &'ast syn::ExprClosure) {}
            }
            let mut h = HasBreakVal(false);
            h.visit_block(&l.body);
            if h.0 {
                // R10 inside a closure whose whole body is the loop: `break V` leaves the closure with V
                let k2 = self.loop_idx;
                self.loop_idx += 1;
                self.splice_loop(k2, br(l.body.span()).0);
                self.in_tail_loop_depth = 1;
                self.visit_block(&l.body);
                self.log.push(Rewrite {
                    rule: "R10-tail-loop".to_string(),
                    item: self.item.clone(),
                    orig: "closure body `loop { .. break V .. }`".to_string(),
                    repl: "break V -> return V".to_string(),
                });
                done = true;
            }
        }
        if !done {
            self.visit_expr(&c.body);
        }
        self.in_tail_loop_depth = saved;
    }

    fn visit_expr_loop(&mut self, l: &'ast syn::ExprLoop) {
        let k = self.loop_idx;
        self.loop_idx += 1;
        self.splice_loop(k, br(l.body.span()).0);
        if self.in_tail_loop_depth > 0 {
            self.in_tail_loop_depth += 1;
        }
        syn::visit::visit_expr_loop(self, l);
        if self.in_tail_loop_depth > 1 {
            self.in_tail_loop_depth -= 1;
        }
    }
    fn visit_expr_while(&mut self, l: &'ast syn::ExprWhile) {
        let k = self.loop_idx;
        self.loop_idx += 1;
        self.splice_loop(k, br(l.body.span()).0);
        let saved = self.in_tail_loop_depth;
        if saved > 0 {
            self.in_tail_loop_depth += 1;
        }
        syn::visit::visit_expr_while(self, l);
        self.in_tail_loop_depth = saved;
    }
    fn visit_expr_for_loop(&mut self, l: &'ast syn::ExprForLoop) {
        let k = self.loop_idx;
        self.loop_idx += 1;
        self.splice_loop(k, br(l.body.span()).0);
        let saved = self.in_tail_loop_depth;
        if saved > 0 {
            self.in_tail_loop_depth += 1;
        }
        syn::visit::visit_expr_for_loop(self, l);
        self.in_tail_loop_depth = saved;
    }

    fn visit_expr_break(&mut self, b: &'ast syn::ExprBreak) {
        if self.in_tail_loop_depth == 1 && b.expr.is_some() && b.label.is_none() {
            // R10
            self.replace(b.break_token.span(), "return".to_string(), "R10-break-to-return");
        } else if b.expr.is_some() {
            self.errors
                .push("break with value outside the tail loop (R10 does not apply)".to_string());
        }
        syn::visit::visit_expr_break(self, b);
    }

    fn visit_expr_path(&mut self, p: &'ast syn::ExprPath) {
        if self.rename_self && p.path.is_ident("self") {
            self.replace(p.span(), "__self".to_string(), "R5-mut-self");
        }
    }

    fn visit_expr_method_call(&mut self, mc: &'ast syn::ExprMethodCall) {
        if mc.args.is_empty() && !self.spec.chain_helpers.is_empty() {
            if let syn::Expr::MethodCall(m1) = &*mc.receiver {
                if m1.args.is_empty() {
                    if let Some(t) = self.spec.chain_helpers.get(&format!("{}.{}", m1.method, mc.method)).cloned() {
                        let (ms, me) = br(mc.span());
                        let (rs, re) = br(m1.receiver.span());
                        let (pre, post) = t.split_once("{}").unwrap_or((t.as_str(), ""));
                        self.replace_range(ms, rs, pre.to_string(), "R12-chain-helper");
                        self.replace_range(re, me, post.to_string(), "R12-chain-helper");
                        self.visit_expr(&m1.receiver);
                        return;
                    }
                }
            }
        }
        if self.try_iter_chain(mc) {
            return;
        }
        // R6: NAME.into() where NAME is a monomorphised `impl Into<_>` parameter
        if mc.method == "into" && mc.args.is_empty() {
            if let syn::Expr::Path(p) = &*mc.receiver {
                if let Some(id) = p.path.get_ident() {
                    let n = id.to_string();
                    if self.into_usize.contains(&n) || self.into_opt.contains(&n) {
                        self.replace(mc.span(), n, "R6-into");
                        return;
                    }
                }
            }
        }
        let name = mc.method.to_string();
        // R12 (generic form): `RECV.m(ARG)` -> `helper(RECV, ARG)` for the one-argument methods the plan maps to a
        // prelude helper (std methods Verus has no specification for); RECV and ARG stay verbatim
        if let Some(h) = self.spec.method_helpers.get(&name).cloned() {
            if mc.args.len() == 1 {
                let (ms, _) = br(mc.span());
                let (_, re) = br(mc.receiver.span());
                let (as_, _) = br(mc.args[0].span());
                self.insert_open(ms, format!("{}(", h));
                self.replace_range(re, as_, ", ".to_string(), "R12-method-helper");
                self.visit_expr(&mc.receiver);
                self.visit_expr(&mc.args[0]);
                return;
            }
        }
        if let Some(idx) = self.optargs.get(&name) {
            for &i in idx {
                if let Some(a) = mc.args.iter().nth(i) {
                    let (s, e) = br(a.span());
                    self.insert_open(s, "IntoOpt::into_opt(".to_string());
                    self.insert_close(e, ")".to_string());
                    self.log.push(Rewrite {
                        rule: "R6-optarg".to_string(),
                        item: self.item.clone(),
                        orig: short(self.text(a.span())),
                        repl: format!("IntoOpt::into_opt({})", short(self.text(a.span()))),
                    });
                }
            }
        }
        syn::visit::visit_expr_method_call(self, mc);
    }
}

impl<'a> Rw<'a> {
    fn splice_loop(&mut self, k: usize, body_start: usize) {
        if let Some(ls) = self.spec.loops.get(&k.to_string()).cloned() {
            let mut t = String::new();
            if !ls.invariant.is_empty() {
                t.push_str(&format!(" invariant {},", ls.invariant.join(", ")));
            }
            if !ls.decreases.is_empty() {
                t.push_str(&format!(" decreases {},", ls.decreases));
            }
            t.push(' ');
            self.insert_open(body_start, t);
            if !ls.body_prologue.is_empty() {
                self.insert_open(body_start + 1, format!(" {} ", ls.body_prologue));
            }
        }
    }
}

/// R15: byte range of the text to lift out of a function body: the inner text of the (nested) block whose first
/// statement starts with `block_from`, or the statements from the one starting with `stmts_from` to the end, or the
/// body of the k-th closure (source order)
fn find_lift_range(text: &str, block: &syn::Block, block_from: &str, stmts_from: &str, stmt_at: &str, closure: usize) -> Option<(usize, usize)> {
    struct FindStmt<'t> {
        text: &'t str,
        from: &'t str,
        out: Option<(usize, usize)>,
    }
    impl<'ast, 't> Visit<'ast> for FindStmt<'t> {
        fn visit_stmt(&mut self, st: &'ast syn::Stmt) {
            if self.out.is_none() {
                let (ss, se) = br(st.span());
                if self.text[ss..].starts_with(self.from) {
                    self.out = Some((ss, se));
                    return;
                }
            }
            syn::visit::visit_stmt(self, st);
        }
    }
    if !stmt_at.is_empty() {
        let mut fs = FindStmt { text, from: stmt_at, out: None };
        fs.visit_block(block);
        return fs.out;
    }
    struct Find {
        k: usize,
        want: usize,
        out: Option<(usize, usize)>,
    }
    impl<'ast> Visit<'ast> for Find {
        fn visit_expr_closure(&mut self, c: &'ast syn::ExprClosure) {
            if self.k == self.want {
                self.out = Some(br(c.body.span()));
            }
            self.k += 1;
            syn::visit::visit_expr_closure(self, c);
        }
    }
    struct FindBlock<'t> {
        text: &'t str,
        from: &'t str,
        out: Option<(usize, usize)>,
    }
    impl<'ast, 't> Visit<'ast> for FindBlock<'t> {
        fn visit_block(&mut self, b: &'ast syn::Block) {
            if self.out.is_none() {
                if let Some(st) = b.stmts.first() {
                    let (ss, _) = br(st.span());
                    if self.text[ss..].starts_with(self.from) {
                        let (_, be) = br(b.span());
                        self.out = Some((ss, be - 1));
                        return;
                    }
                }
            }
            syn::visit::visit_block(self, b);
        }
    }
    if !block_from.is_empty() {
        let mut fb = FindBlock { text, from: block_from, out: None };
        fb.visit_block(block);
        fb.out
    } else if !stmts_from.is_empty() {
        let (_, blk_e) = br(block.span());
        for st in &block.stmts {
            let (ss, _) = br(st.span());
            if text[ss..].starts_with(stmts_from) {
                return Some((ss, blk_e - 1));
            }
        }
        None
    } else {
        let mut fd = Find { k: 0, want: closure, out: None };
        fd.visit_block(block);
        fd.out
    }
}

fn apply_edits(src: &str, base: usize, end: usize, mut edits: Vec<Edit>) -> Result<String, String> {
    edits.retain(|e| e.start >= base && e.end <= end);
    edits.sort_by(|a, b| {
        (a.start, a.end, a.order).cmp(&(b.start, b.end, b.order))
    });
    let mut out = String::new();
    let mut pos = base;
    for e in edits {
        if e.start < pos {
            return Err(format!(
                "overlapping edits at byte {} (`{}`)",
                e.start,
                short(&e.text)
            ));
        }
        out.push_str(&src[pos..e.start]);
        out.push_str(&e.text);
        pos = e.end;
    }
    out.push_str(&src[pos..end]);
    Ok(out)
}

// ---------------------------------------------------------------- item lookup

struct Src {
    path: String,
    text: String,
    file: syn::File,
}

fn collect_items<'f>(items: &'f [syn::Item], out: &mut Vec<&'f syn::Item>) {
    for it in items {
        match it {
            syn::Item::Mod(m) => {
                if skip_by_cfg(&m.attrs) {
                    continue;
                }
                if let Some((_, its)) = &m.content {
                    collect_items(its, out);
                }
            }
            other => out.push(other),
        }
    }
}

fn line_of(text: &str, byte: usize) -> usize {
    text[..byte].bytes().filter(|b| *b == b'\n').count() + 1
}

// ---------------------------------------------------------------- fn extraction

struct FnOut {
    pre_items: String,
    text: String,
    src_start: usize,
    src_end: usize,
}

#[allow(clippy::too_many_arguments)]
fn extract_fn(
    src: &Src,
    attrs: &[syn::Attribute],
    vis_start: usize,
    sig: &syn::Signature,
    block: &syn::Block,
    whole: Span,
    spec: &FnSpec,
    item_label: &str,
    in_trait_impl: bool,
    optargs: &HashMap<String, Vec<usize>>,
    log: &mut Log,
) -> Result<FnOut, Vec<String>> {
    let _ = attrs;
    let assumed = spec.mode == "assumed";
    let mut rw = Rw {
        src: &src.text,
        item: item_label.to_string(),
        spec,
        optargs,
        edits: Vec::new(),
        log: Vec::new(),
        errors: Vec::new(),
        seq: 0,
        closure_idx: 0,
        loop_idx: 0,
        qgen: QuoteGen { counter: 0 },
        into_usize: HashSet::new(),
        into_opt: HashSet::new(),
        rename_self: false,
        arr_idx: 0,
        tail_loop_break_to_return: false,
        in_tail_loop_depth: 0,
        iter_chain_idx: 0,
        closure_pat_seen: HashMap::new(),
        quote_idx: 0,
        pre_items: String::new(),
        block_call_done: false,
        stmt_calls_done: HashMap::new(),
    };
    let (_, wend) = br(whole);
    let (sig_s, sig_e) = br(sig.span());
    let (blk_s, blk_e) = br(block.span());

    // ---- signature: parameters
    let mut body_prologue = String::new();
    let mut argn = 0usize;
    for inp in sig.inputs.iter() {
        match inp {
            syn::FnArg::Receiver(r) => {
                if r.mutability.is_some() && r.reference.is_none() {
                    // R5: `mut self` -> `self` + `let mut __self = self;`
                    rw.replace(r.span(), "self".to_string(), "R5-mut-self");
                    body_prologue.push_str("let mut __self = self; ");
                    rw.rename_self = true;
                }
            }
            syn::FnArg::Typed(pt) => {
                // R6 impl Into<usize> / impl Into<Option<T>>
                let mut ty_done = false;
                if let syn::Type::ImplTrait(it) = &*pt.ty {
                    let t: String = it
                        .to_token_stream_string()
                        .chars()
                        .filter(|c| !c.is_whitespace())
                        .collect();
                    if t == "implInto<usize>" {
                        if let syn::Pat::Ident(pi) = &*pt.pat {
                            rw.into_usize.insert(pi.ident.to_string());
                            rw.replace(pt.ty.span(), "usize".to_string(), "R6-impl-into-usize");
                            ty_done = true;
                        }
                    } else if t.starts_with("implInto<Option<") && t.ends_with(">>") {
                        if let syn::Pat::Ident(pi) = &*pt.pat {
                            rw.into_opt.insert(pi.ident.to_string());
                            // keep the inner `Option<...>` text from the source
                            let full = rw.text(pt.ty.span());
                            let start = full.find("Option").unwrap();
                            let inner = full[start..full.rfind('>').unwrap()].to_string();
                            rw.replace(pt.ty.span(), inner, "R6-impl-into-option");
                            ty_done = true;
                        }
                    }
                    if !ty_done && spec.subst.iter().any(|sb| rw.text(pt.span()).contains(sb.find.as_str())) {
                        // a logged R12 signature substitution of the plan rewrites this parameter (monomorphisation)
                        ty_done = true;
                    }
                    if !ty_done {
                        rw.errors.push(format!(
                            "unsupported `impl Trait` parameter `{}`",
                            rw.text(pt.span())
                        ));
                    }
                }
                // R5 pattern parameters
                match &*pt.pat {
                    syn::Pat::Ident(pi) if pi.subpat.is_none() => {
                        if pi.mutability.is_some() && !assumed {
                            // `mut x: T` is accepted by Verus
                        }
                    }
                    other => {
                        let name = format!("__arg{}", argn);
                        body_prologue.push_str(&format!(
                            "let {} = {}; ",
                            rw.text(other.span()),
                            name
                        ));
                        rw.replace(other.span(), name, "R5-param-pattern");
                    }
                }
                argn += 1;
            }
        }
    }
    // ---- signature: return binder
    if !spec.ret.is_empty() {
        match &sig.output {
            syn::ReturnType::Type(_, ty) => {
                let t = rw.text(ty.span()).to_string();
                rw.replace(ty.span(), format!("({}: {})", spec.ret, t), "R7-return-binder");
            }
            syn::ReturnType::Default => rw
                .errors
                .push("contract names a result but the function returns ()".to_string()),
        }
    }
    // visit types in the signature for Token! macros etc. (rare)
    // ---- contract clauses
    let mut clauses = String::new();
    if !spec.requires.is_empty() {
        if in_trait_impl {
            rw.errors
                .push("requires on a trait impl method is not allowed".to_string());
        }
        clauses.push_str(&format!("\n    requires\n        {},", spec.requires.join(",\n        ")));
    }
    if !spec.ensures.is_empty() {
        clauses.push_str(&format!("\n    ensures\n        {},", spec.ensures.join(",\n        ")));
    }
    clauses.push('\n');

    let mut attr_text = spec.attrs.clone();

    let text = if assumed {
        let sig_text = apply_edits(&src.text, vis_start, sig_e, rw.edits.clone())
            .map_err(|e| vec![e])?;
        log.assumed.push(item_label.to_string());
        format!(
            "{}#[verifier::external_body]\n{}{}{{ unimplemented!() }}\n",
            attr_text, sig_text, clauses
        )
    } else {
        // R10 detection: tail expression is `loop` with `break <value>`
        if let Some(syn::Stmt::Expr(syn::Expr::Loop(_), None)) = block.stmts.last() {
            struct HasBreakVal(bool);
            impl<'ast> Visit<'ast> for HasBreakVal {
                fn visit_expr_break(&mut self, b: &'ast syn::ExprBreak) {
                    if b.expr.is_some() {
                        self.0 = true;
                    }
                }
                fn visit_expr_closure(&mut self, _: &'ast syn::ExprClosure) {}
            }
            let mut h = HasBreakVal(false);
            h.visit_block(block);
            if h.0 {
                rw.tail_loop_break_to_return = true;
                attr_text.push_str("#[verifier::exec_allows_no_decreases_clause]\n");
                rw.log.push(Rewrite {
                    rule: "R10-tail-loop".to_string(),
                    item: item_label.to_string(),
                    orig: "loop { .. break V .. } in tail position".to_string(),
                    repl: "break V -> return V; exec_allows_no_decreases_clause (termination not proved)".to_string(),
                });
            }
        }
        // visit body statements; the tail loop gets depth 1
        let n = block.stmts.len();
        // R15 call-out for a statement tail: the statements from the one that starts with `tail_from` to the end of the
        // body are replaced by `tail_call` (a call of their lifted twin, verified from the same bytes)
        let mut cut: Option<usize> = None;
        if !spec.tail_from.is_empty() {
            for (i, st) in block.stmts.iter().enumerate() {
                let (ss, _) = br(st.span());
                if src.text[ss..].starts_with(spec.tail_from.as_str()) {
                    cut = Some(i);
                    let (_, be) = br(block.span());
                    rw.replace_range(ss, be - 1, format!("{}\n", spec.tail_call), "R15-call-out");
                    break;
                }
            }
            if cut.is_none() {
                rw.errors.push(format!("lost anchor: no statement of {} starts with `{}`", item_label, spec.tail_from));
            }
        }
        for (i, st) in block.stmts.iter().enumerate() {
            if let Some(c) = cut {
                if i >= c {
                    break;
                }
            }
            if i + 1 == n && rw.tail_loop_break_to_return {
                rw.in_tail_loop_depth = 0;
                if let syn::Stmt::Expr(syn::Expr::Loop(l), None) = st {
                    let k = rw.loop_idx;
                    rw.loop_idx += 1;
                    rw.splice_loop(k, br(l.body.span()).0);
                    rw.in_tail_loop_depth = 1;
                    rw.visit_block(&l.body);
                    rw.in_tail_loop_depth = 0;
                }
            } else {
                rw.visit_stmt(st);
            }
        }
        for k in spec.stmt_calls.keys() {
            if rw.stmt_calls_done.get(k).copied().unwrap_or(0) != 1 {
                rw.errors.push(format!("lost anchor: statement `{}` of {} matched {} times", k, item_label, rw.stmt_calls_done.get(k).copied().unwrap_or(0)));
            }
        }
        if !spec.block_call_from.is_empty() && !rw.block_call_done {
            rw.errors.push(format!("lost anchor: no block of {} starts with `{}`", item_label, spec.block_call_from));
        }
        // body prologue / proof prologue right after `{`
        let mut pro = String::new();
        if !body_prologue.is_empty() {
            pro.push_str(&format!(" {}", body_prologue));
        }
        if !spec.proof_prologue.is_empty() {
            pro.push_str(&format!(" {}", spec.proof_prologue));
        }
        if !pro.is_empty() {
            rw.insert_open(blk_s + 1, pro);
        }
        if !spec.proof_epilogue.is_empty() {
            // before the tail expression if there is one, else before `}`
            let pos = match block.stmts.last() {
                Some(syn::Stmt::Expr(e, None)) => br(e.span()).0,
                _ => blk_e - 1,
            };
            rw.insert_open(pos, format!("{} ", spec.proof_epilogue));
        }
        let sig_text =
            apply_edits(&src.text, vis_start, sig_e, rw.edits.clone()).map_err(|e| vec![e])?;
        let body_text =
            apply_edits(&src.text, blk_s, blk_e, rw.edits.clone()).map_err(|e| vec![e])?;
        format!("{}{}{}{}\n", attr_text, sig_text, clauses, body_text)
    };
    let _ = sig_s;
    if !rw.errors.is_empty() {
        return Err(rw.errors);
    }
    let mut text = text;
    // R12 textual substitutions (each must match exactly once)
    for s in &spec.subst {
        let n = text.matches(&s.find).count();
        if s.all && n >= 1 {
            text = text.replace(&s.find, &s.replace);
            rw.log.push(Rewrite {
                rule: format!("R12-subst-all ({})", s.why),
                item: item_label.to_string(),
                orig: short(&s.find),
                repl: format!("{} ({} occurrences)", short(&s.replace), n),
            });
            continue;
        }
        if n != 1 {
            return Err(vec![format!(
                "R12: pattern `{}` matches {} times in {} (expected 1)",
                short(&s.find),
                n,
                item_label
            )]);
        }
        text = text.replacen(&s.find, &s.replace, 1);
        rw.log.push(Rewrite {
            rule: format!("R12-subst ({})", s.why),
            item: item_label.to_string(),
            orig: short(&s.find),
            repl: short(&s.replace),
        });
    }
    log.rewrites.extend(rw.log);
    Ok(FnOut {
        pre_items: rw.pre_items.clone(),
        text,
        src_start: vis_start,
        src_end: wend,
    })
}

// ---------------------------------------------------------------- tables (R9)

fn table_parse_action_expr(src: &Src, name: &str) -> Result<(String, usize, usize), String> {
    let mut items = Vec::new();
    collect_items(&src.file.items, &mut items);
    for it in items {
        if let syn::Item::Impl(im) = it {
            if im.trait_.is_some() || last_seg(&im.self_ty) != "ActionGroup" {
                continue;
            }
            for ii in &im.items {
                if let syn::ImplItem::Fn(f) = ii {
                    if f.sig.ident != "parse_action_expr" || skip_by_cfg(&f.attrs) {
                        continue;
                    }
                    // body: single match
                    let m = match f.block.stmts.as_slice() {
                        [syn::Stmt::Expr(syn::Expr::Match(m), None)] => m,
                        _ => return Err("parse_action_expr: body is not a single match".into()),
                    };
                    let scrut: String = m
                        .expr
                        .to_token_stream_string()
                        .chars()
                        .filter(|c| !c.is_whitespace())
                        .collect();
                    if scrut != "self.combinator" {
                        return Err(format!("parse_action_expr: scrutinee is `{}`", scrut));
                    }
                    let mut rows = String::new();
                    for arm in &m.arms {
                        if arm.guard.is_some() {
                            return Err("parse_action_expr: arm with guard".into());
                        }
                        let comb = match &arm.pat {
                            syn::Pat::Path(p)
                                if p.path.segments.len() == 2
                                    && p.path.segments[0].ident == "Combinator" =>
                            {
                                p.path.segments[1].ident.to_string()
                            }
                            _ => {
                                return Err(format!(
                                    "parse_action_expr: unsupported arm pattern `{}`",
                                    arm.pat.to_token_stream_string()
                                ))
                            }
                        };
                        let mut body: &syn::Expr = &arm.body;
                        loop {
                            match body {
                                syn::Expr::Block(b)
                                    if b.block.stmts.len() == 1 && b.label.is_none() =>
                                {
                                    if let syn::Stmt::Expr(e, None) = &b.block.stmts[0] {
                                        body = e;
                                        continue;
                                    }
                                    break;
                                }
                                _ => break,
                            }
                        }
                        let call = match body {
                            syn::Expr::Call(c) => c,
                            _ => {
                                return Err(format!(
                                    "parse_action_expr: arm `{}` is not a call",
                                    comb
                                ))
                            }
                        };
                        let fpath = match &*call.func {
                            syn::Expr::Path(p) => p,
                            _ => return Err("parse_action_expr: callee not a path".into()),
                        };
                        if fpath.path.segments.len() != 2
                            || fpath.path.segments[0].ident != "ExprGroup"
                        {
                            return Err(format!(
                                "parse_action_expr: callee `{}`",
                                fpath.to_token_stream_string()
                            ));
                        }
                        let pf = fpath.path.segments[1].ident.to_string();
                        let args: Vec<String> = call
                            .args
                            .iter()
                            .map(|a| {
                                a.to_token_stream_string()
                                    .chars()
                                    .filter(|c| !c.is_whitespace())
                                    .collect()
                            })
                            .collect();
                        if args.len() != 4
                            || args[1] != "unit_parser"
                            || args[2] != "self"
                            || args[3] != "input"
                        {
                            return Err(format!(
                                "parse_action_expr: arm `{}` has unexpected arguments {:?}",
                                comb, args
                            ));
                        }
                        let ctor: Vec<&str> = args[0].split("::").collect();
                        if ctor.len() != 2 {
                            return Err(format!(
                                "parse_action_expr: constructor `{}`",
                                args[0]
                            ));
                        }
                        let pfn = match pf.strip_prefix("parse_").and_then(|x| x.strip_suffix("_unit")) {
                            Some(mid) => mid
                                .split('_')
                                .map(|w| {
                                    let mut c = w.chars();
                                    c.next().map(|f| f.to_uppercase().collect::<String>() + c.as_str()).unwrap_or_default()
                                })
                                .collect::<String>(),
                            None => return Err(format!("parse_action_expr: unit parser `{}`", pf)),
                        };
                        rows.push_str(&format!(
                            "        Combinator::{} => (ParseFn::{}, Ctor::{}({}Ctor::{})),\n",
                            comb, pfn, ctor[0], ctor[0], ctor[1]
                        ));
                    }
                    let text = format!(
                        "/// R9 table extracted from `ActionGroup::parse_action_expr` (not(feature = \"full\")):\n/// combinator => (unit parser function, expression enum, constructor)\npub open spec fn {}(c: Combinator) -> (ParseFn, Ctor) {{\n    match c {{\n{}    }}\n}}\n",
                        name, rows
                    );
                    let (s, e) = br(f.span());
                    return Ok((text, s, e));
                }
            }
        }
    }
    Err("parse_action_expr not found".into())
}

#[derive(Debug)]
struct DetRow {
    comb: Option<String>,
    pats: Vec<String>,
    len: String,
}

fn pat_elem(tokens: &[TokenTree]) -> Result<String, String> {
    // Token![..]  |  path::to::Type
    let s: String = tokens
        .iter()
        .map(|t| t.to_string())
        .collect::<Vec<_>>()
        .join("");
    let s: String = s.chars().filter(|c| !c.is_whitespace()).collect();
    if let Some(rest) = s.strip_prefix("Token![") {
        let inner = rest.strip_suffix(']').ok_or("bad Token!")?;
        let cs: Vec<char> = inner.chars().collect();
        if cs.is_empty() || cs.len() > 3 || cs.iter().any(|c| c.is_alphanumeric()) {
            return Err(format!("unsupported Token![{}]", inner));
        }
        let args: Vec<String> = cs.iter().map(|c| format!("'{}'", esc_char(*c))).collect();
        Ok(format!("PatElem::P{}({})", cs.len(), args.join(", ")))
    } else if s == "syn::token::Bracket" {
        Ok("PatElem::BracketGroup".to_string())
    } else if let Some(kw) = s.strip_prefix("keywords::") {
        let cs: Vec<String> = kw.chars().map(|c| format!("'{}'", esc_char(c))).collect();
        Ok(format!("PatElem::Kw(seq![{}])", cs.join(", ")))
    } else {
        Err(format!("unsupported determiner token `{}`", s))
    }
}

fn parse_det_rows(ts: TokenStream, with_comb: bool) -> Result<Vec<DetRow>, String> {
    let toks: Vec<TokenTree> = ts.into_iter().collect();
    let mut rows = Vec::new();
    let mut i = 0;
    let is_arrow = |toks: &[TokenTree], i: usize| -> bool {
        matches!((&toks.get(i), &toks.get(i + 1)),
            (Some(TokenTree::Punct(a)), Some(TokenTree::Punct(b)))
                if a.as_char() == '=' && b.as_char() == '>' && a.spacing() == proc_macro2::Spacing::Joint)
    };
    while i < toks.len() {
        let comb = if with_comb {
            let c = match &toks[i] {
                TokenTree::Ident(id) => id.to_string(),
                t => return Err(format!("determiner row: expected combinator, got `{}`", t)),
            };
            i += 1;
            if !is_arrow(&toks, i) {
                return Err("determiner row: expected `=>`".into());
            }
            i += 2;
            Some(c)
        } else {
            None
        };
        // token exprs separated by commas until `=>`
        let mut pats = Vec::new();
        let mut cur: Vec<TokenTree> = Vec::new();
        loop {
            if i >= toks.len() {
                return Err("determiner row: unexpected end".into());
            }
            // `Token![=>]` contains => inside a group, so top-level `=>` is unambiguous
            if is_arrow(&toks, i) {
                pats.push(pat_elem(&cur)?);
                i += 2;
                break;
            }
            match &toks[i] {
                TokenTree::Punct(p) if p.as_char() == ',' => {
                    pats.push(pat_elem(&cur)?);
                    cur.clear();
                }
                t => cur.push(t.clone()),
            }
            i += 1;
        }
        let len = match toks.get(i) {
            Some(TokenTree::Literal(l)) => l.to_string(),
            _ => return Err("determiner row: expected length literal".into()),
        };
        i += 1;
        if let Some(TokenTree::Punct(p)) = toks.get(i) {
            if p.as_char() == ',' {
                i += 1;
            }
        }
        rows.push(DetRow { comb, pats, len });
    }
    Ok(rows)
}

fn table_determiners(src: &Src, repo: &str, name: &str) -> Result<(String, usize, usize), String> {
    let mut items = Vec::new();
    collect_items(&src.file.items, &mut items);
    let mut out = String::new();
    let mut lo = usize::MAX;
    let mut hi = 0usize;
    let mut found = 0;
    for it in items {
        if let syn::Item::Const(c) = it {
            let cname = c.ident.to_string();
            if cname != "DEFAULT_GROUP_DETERMINERS"
                && cname != "DEFERRED_DETERMINER"
                && cname != "WRAPPER_DETERMINER"
            {
                continue;
            }
            // expr: & crate::macro!{...}
            let mac = match &*c.expr {
                syn::Expr::Reference(r) => match &*r.expr {
                    syn::Expr::Macro(m) => &m.mac,
                    _ => return Err(format!("{}: initialiser is not `&macro!{{}}`", cname)),
                },
                _ => return Err(format!("{}: initialiser is not `&macro!{{}}`", cname)),
            };
            let mname = mac.path.segments.last().unwrap().ident.to_string();
            let (s, e) = br(c.span());
            lo = lo.min(s);
            hi = hi.max(e);
            found += 1;
            if cname == "DEFAULT_GROUP_DETERMINERS" {
                if mname != "define_group_determiners" {
                    return Err(format!("{}: built by `{}!`", cname, mname));
                }
                let rows = parse_det_rows(mac.tokens.clone(), true)?;
                let mut body = String::new();
                for r in &rows {
                    body.push_str(&format!(
                        "        DetRow {{ comb: Some(Combinator::{}), pat: seq![{}], len: {} }},\n",
                        r.comb.as_ref().unwrap(),
                        r.pats.join(", "),
                        r.len
                    ));
                }
                out.push_str(&format!(
                    "/// R9 table: rows of `define_group_determiners!{{..}}` in DEFAULT_GROUP_DETERMINERS, in source order\npub open spec fn {}() -> Seq<DetRow> {{\n    seq![\n{}    ]\n}}\n",
                    name, body
                ));
            } else {
                if mname != "define_determiner_with_no_group" {
                    return Err(format!("{}: built by `{}!`", cname, mname));
                }
                let rows = parse_det_rows(mac.tokens.clone(), false)?;
                if rows.len() != 1 {
                    return Err(format!("{}: expected one row", cname));
                }
                out.push_str(&format!(
                    "/// R9: {}\npub open spec fn {}_{}() -> DetRow {{\n    DetRow {{ comb: None, pat: seq![{}], len: {} }}\n}}\n",
                    cname,
                    name,
                    cname.to_lowercase(),
                    rows[0].pats.join(", "),
                    rows[0].len
                ));
            }
        }
    }
    if found != 3 {
        return Err(format!("determiner constants: found {} of 3", found));
    }
    // shape check of the macro that adds the leading `,` row and the trailing handler row
    let gd = std::fs::read_to_string(format!(
        "{}/join_impl/src/chain/group/group_determiner.rs",
        repo
    ))
    .map_err(|e| e.to_string())?;
    let squeezed: String = gd.chars().filter(|c| !c.is_whitespace()).collect();
    let want = "[$crate::define_determiner_with_no_group!(Token![,]=>0),$($crate::define_group_determiner!($crate::chain::group::Combinator::$combinator=>$($token),+=>$length)),*,$crate::chain::group::GroupDeterminer::new_const(None,$crate::handler::Handler::peek_handlerasas*const(),true,0)]";
    let want = want.replace("asas", "as");
    if !squeezed.contains(&want) {
        return Err("define_group_determiners!: macro body no longer has the shape [comma row, $(rows),*, handler row]".into());
    }
    Ok((out, lo, hi))
}

fn table_configs(src: &Src, name: &str) -> Result<(String, usize, usize), String> {
    let mut rows = String::new();
    let mut lo = usize::MAX;
    let mut hi = 0usize;
    let mut saw_join_impl = false;
    for it in &src.file.items {
        if let syn::Item::Fn(f) = it {
            let fname = f.sig.ident.to_string();
            if fname == "join_impl" {
                let body: String = f
                    .block
                    .to_token_stream_string()
                    .chars()
                    .filter(|c| !c.is_whitespace())
                    .collect();
                // the body of `join_impl` is a function under contract of its own (module `top`): only its existence
                // matters for the shape of the entry points
                let _ = body;
                saw_join_impl = true;
                continue;
            }
            if !f.attrs.iter().any(|a| a.path().is_ident("proc_macro")) {
                continue;
            }
            let (s, e) = br(f.span());
            lo = lo.min(s);
            hi = hi.max(e);
            // shape: let parsed = syn::parse_macro_input!(input as JoinInputDefault); join_impl(parsed, Config {..})
            if f.block.stmts.len() != 2 {
                return Err(format!("{}: body has {} statements", fname, f.block.stmts.len()));
            }
            let s0: String = f.block.stmts[0]
                .to_token_stream_string()
                .chars()
                .filter(|c| !c.is_whitespace())
                .collect();
            if s0 != "letparsed=syn::parse_macro_input!(inputasJoinInputDefault);" {
                return Err(format!("{}: first statement is `{}`", fname, s0));
            }
            let call = match &f.block.stmts[1] {
                syn::Stmt::Expr(syn::Expr::Call(c), None) => c,
                _ => return Err(format!("{}: tail is not a call", fname)),
            };
            let callee: String = call.func.to_token_stream_string();
            if callee.trim() != "join_impl" || call.args.len() != 2 {
                return Err(format!("{}: tail does not call join_impl(parsed, Config)", fname));
            }
            if call.args[0].to_token_stream_string().trim() != "parsed" {
                return Err(format!("{}: first argument is not `parsed`", fname));
            }
            let st = match &call.args[1] {
                syn::Expr::Struct(st) if st.path.is_ident("Config") && st.rest.is_none() => st,
                _ => return Err(format!("{}: second argument is not a Config literal", fname)),
            };
            let mut m: BTreeMap<String, String> = BTreeMap::new();
            for fv in &st.fields {
                let k = match &fv.member {
                    syn::Member::Named(i) => i.to_string(),
                    _ => return Err("Config literal: unnamed field".into()),
                };
                let v = match &fv.expr {
                    syn::Expr::Lit(syn::ExprLit {
                        lit: syn::Lit::Bool(b),
                        ..
                    }) => b.value.to_string(),
                    _ => return Err(format!("{}: Config field `{}` is not a bool literal", fname, k)),
                };
                m.insert(k, v);
            }
            if m.len() != 3 {
                return Err(format!("{}: Config literal has {} fields", fname, m.len()));
            }
            rows.push_str(&format!(
                "        EntryRow {{ name: \"{}\"@, is_async: {}, is_try: {}, is_spawn: {} }},\n",
                fname,
                m.get("is_async").ok_or("is_async missing")?,
                m.get("is_try").ok_or("is_try missing")?,
                m.get("is_spawn").ok_or("is_spawn missing")?
            ));
        }
    }
    if !saw_join_impl {
        return Err("fn join_impl not found in join/src/lib.rs".into());
    }
    let text = format!(
        "/// R9 table: the `Config {{..}}` literal of every `#[proc_macro]` function of join/src/lib.rs\n/// (each body is `let parsed = parse_macro_input!(..); join_impl(parsed, Config{{..}})`, shape-checked)\npub open spec fn {}() -> Seq<EntryRow> {{\n    seq![\n{}    ]\n}}\n",
        name, rows
    );
    Ok((text, lo, hi))
}


/// R9: name constructors -> spec functions built from the format strings / literals as they stand in the source.
/// Pieces are emitted as character sequences (native to the solver); `lemma_names_strlits` ties them to the
/// string literals the executable code passes to `format_ident!` / `Ident::new`.
fn table_names(src: &Src, prefix: &str) -> Result<(String, usize, usize), String> {
    fn chars(p: &str) -> String {
        if p.is_empty() {
            return "Seq::<char>::empty()".to_string();
        }
        let cs: Vec<String> = p.chars().map(|c| format!("'{}'", esc_char(c))).collect();
        format!("seq![{}]", cs.join(", "))
    }
    let mut out = String::new();
    let mut lo = usize::MAX;
    let mut hi = 0usize;
    let mut fam = Vec::new();
    let mut lits: Vec<String> = Vec::new();
    for it in &src.file.items {
        if let syn::Item::Fn(f) = it {
            let fname = f.sig.ident.to_string();
            if !fname.starts_with("construct_") {
                continue;
            }
            let (s, e) = br(f.span());
            lo = lo.min(s);
            hi = hi.max(e);
            // a constructor outside the two recognised shapes is left out of the table (and named in the generated
            // text): contracts that mention it then fail to resolve, and the `names` module, whose lemmas speak about
            // the COMPLETE family, is reported undecided by the engine.  Every other module stays decidable.
            let modelled: Result<(Vec<String>, Vec<String>, Vec<String>), String> = (|| {
            let params: Vec<String> = f
                .sig
                .inputs
                .iter()
                .filter_map(|a| match a {
                    syn::FnArg::Typed(pt) => match &*pt.pat {
                        syn::Pat::Ident(pi) => Some(pi.ident.to_string()),
                        _ => None,
                    },
                    _ => None,
                })
                .collect();
            let tail = match f.block.stmts.as_slice() {
                [syn::Stmt::Expr(e, None)] => e,
                _ => return Err(format!("{}: body is not a single expression", fname)),
            };
            let (pieces, args): (Vec<String>, Vec<String>) = match tail {
                syn::Expr::Macro(m) if m.mac.path.is_ident("format_ident") => {
                    let fa: FormatIdentArgs = syn::parse2(m.mac.tokens.clone()).map_err(|e| format!("{}: {}", fname, e))?;
                    let pieces: Vec<String> = fa.fmt.split("{}").map(|x| x.to_string()).collect();
                    if pieces.len() != fa.args.len() + 1 || fa.fmt.replace("{}", "").contains('{') {
                        return Err(format!("{}: unsupported format string {:?}", fname, fa.fmt));
                    }
                    let mut args = Vec::new();
                    for a in &fa.args {
                        let t: String = a.to_token_stream_string().chars().filter(|c| !c.is_whitespace()).collect();
                        match t.strip_suffix(".into()") {
                            Some(p) if params.iter().any(|x| x == p) => args.push(p.to_string()),
                            _ => return Err(format!("{}: argument `{}` is not `<param>.into()`", fname, t)),
                        }
                    }
                    (pieces, args)
                }
                syn::Expr::Call(c) => {
                    let callee: String = c.func.to_token_stream_string().chars().filter(|c| !c.is_whitespace()).collect();
                    if callee != "Ident::new" || c.args.len() != 2 {
                        return Err(format!("{}: unexpected body", fname));
                    }
                    match &c.args[0] {
                        syn::Expr::Lit(syn::ExprLit { lit: syn::Lit::Str(s), .. }) => (vec![s.value()], vec![]),
                        _ => return Err(format!("{}: Ident::new argument is not a literal", fname)),
                    }
                }
                _ => return Err(format!("{}: unexpected body", fname)),
            };
            Ok((params, pieces, args))
            })();
            let (params, pieces, args) = match modelled {
                Ok(x) => x,
                Err(e) => {
                    out.push_str(&format!("// R9-UNMODELLED: {}\n", e.replace('\n', " ")));
                    continue;
                }
            };
            for p in &pieces {
                if !lits.contains(p) {
                    lits.push(p.clone());
                }
            }
            let sig: Vec<String> = params.iter().map(|p| format!("{}: usize", p)).collect();
            let mut body = chars(&pieces[0]);
            for (i, a) in args.iter().enumerate() {
                body.push_str(&format!(" + dec({} as nat) + {}", a, chars(&pieces[i + 1])));
            }
            out.push_str(&format!("pub open spec fn {}_spec({}) -> Seq<char> {{ {} }}\n", fname, sig.join(", "), body));
            let ps: Vec<String> = pieces.iter().map(|p| chars(p)).collect();
            fam.push(format!("    NameFamily {{ pieces: seq![{}] }}, // {}: {}\n", ps.join(", "), fam.len(), fname));
        }
    }
    if fam.is_empty() {
        return Err("no construct_* functions found".into());
    }
    out.push_str(&format!(
        "/// every name family of name_constructors.rs: the literal pieces between the `{{}}` holes, in source order\npub open spec fn {}_families() -> Seq<NameFamily> {{\n  seq![\n{}  ]\n}}\n",
        prefix,
        fam.join("")
    ));
    // strlit bridge
    let mut reveals = String::new();
    let mut ens = Vec::new();
    for l in &lits {
        reveals.push_str(&format!("    reveal_strlit(\"{}\");\n", esc_str(l)));
        ens.push(format!("\"{}\"@ =~= {}", esc_str(l), chars(l)));
    }
    out.push_str(&format!(
        "/// the string literals of name_constructors.rs, as character sequences\npub proof fn lemma_{}_strlits()\n    ensures\n        {},\n{{\n{}}}\n",
        prefix,
        ens.join(",\n        "),
        reveals
    ));
    Ok((out, lo, hi))
}

/// R9: identifiers starting with `__` that occur inside quote!/parse_quote! bodies, per function, in order
fn table_quote_idents(src: &Src, prefix_spec: &str) -> Result<(String, usize, usize), String> {
    // `prefix` or `prefix+name1+name2`: besides the `__`-identifiers, the listed binder names are temporaries too
    let mut parts = prefix_spec.split('+');
    let prefix = parts.next().unwrap_or("qi");
    let extra: Vec<String> = parts.map(|s| s.to_string()).collect();
    struct V {
        cur: String,
        out: Vec<(String, Vec<String>)>,
        extra: Vec<String>,
    }
    // extras: `name` = that identifier is a temporary; `@Ctor` = the identifier that is the whole content of the
    // parentheses after `Ctor` (a binder such as the `err` of `Err(err) => Err(err)`), whatever it is called
    fn scan(ts: TokenStream, acc: &mut Vec<String>, extra: &[String]) {
        let mut prev: Option<String> = None;
        for t in ts {
            match t {
                TokenTree::Ident(i) => {
                    let s = i.to_string();
                    if s.starts_with("__") || extra.contains(&s) {
                        acc.push(s.clone());
                    }
                    prev = Some(s);
                }
                TokenTree::Group(g) => {
                    let inner: Vec<TokenTree> = g.stream().into_iter().collect();
                    let binder = match (&prev, inner.as_slice()) {
                        (Some(p), [TokenTree::Ident(b)]) if g.delimiter() == Delimiter::Parenthesis && extra.contains(&format!("@{}", p)) => Some(b.to_string()),
                        _ => None,
                    };
                    match binder {
                        Some(b) if !b.starts_with("__") => acc.push(b),
                        _ => scan(g.stream(), acc, extra),
                    }
                    prev = None;
                }
                _ => prev = None,
            }
        }
    }
    impl<'ast> Visit<'ast> for V {
        fn visit_macro(&mut self, m: &'ast syn::Macro) {
            let n = m.path.segments.last().unwrap().ident.to_string();
            if n == "quote" || n == "parse_quote" {
                let mut acc = Vec::new();
                scan(m.tokens.clone(), &mut acc, &self.extra);
                if let Some(last) = self.out.last_mut() {
                    if last.0 == self.cur {
                        last.1.extend(acc);
                        return;
                    }
                }
                self.out.push((self.cur.clone(), acc));
            }
        }
    }
    let mut items = Vec::new();
    collect_items(&src.file.items, &mut items);
    let mut v = V { cur: String::new(), out: Vec::new(), extra };
    for it in items {
        match it {
            syn::Item::Fn(f) if !skip_by_cfg(&f.attrs) => {
                v.cur = f.sig.ident.to_string();
                v.visit_block(&f.block);
            }
            syn::Item::Impl(im) if !skip_by_cfg(&im.attrs) => {
                let ty = last_seg(&im.self_ty);
                for ii in &im.items {
                    if let syn::ImplItem::Fn(f) = ii {
                        if skip_by_cfg(&f.attrs) {
                            continue;
                        }
                        v.cur = format!("{}_{}", ty, f.sig.ident);
                        v.visit_block(&f.block);
                    }
                }
            }
            _ => {}
        }
    }
    let mut out = String::new();
    for (f, ids) in &v.out {
        if ids.is_empty() {
            continue;
        }
        let q: Vec<String> = ids.iter().map(|i| format!("\"{}\"@", i)).collect();
        out.push_str(&format!(
            "/// `__`-identifiers in the quote!/parse_quote! bodies of {}, in order of occurrence\npub open spec fn {}_{}() -> Seq<Seq<char>> {{ seq![{}] }}\n",
            f, prefix, f, q.join(", ")
        ));
    }
    Ok((out, 0, src.text.len()))
}


/// R9: `parse_n_or_empty_unit_fn! { name => [count, allow_empty], .. }` in expr_group.rs
fn table_unit_parsers(src: &Src, name: &str) -> Result<(String, usize, usize), String> {
    struct F {
        found: Option<(TokenStream, usize, usize)>,
    }
    impl<'ast> Visit<'ast> for F {
        fn visit_macro(&mut self, m: &'ast syn::Macro) {
            if m.path.segments.last().unwrap().ident == "parse_n_or_empty_unit_fn" {
                let (s, e) = br(m.span());
                self.found = Some((m.tokens.clone(), s, e));
            }
        }
    }
    let mut f = F { found: None };
    f.visit_file(&src.file);
    let (ts, s, e) = f.found.ok_or("parse_n_or_empty_unit_fn! invocation not found")?;
    let toks: Vec<TokenTree> = ts.into_iter().collect();
    let mut rows = String::new();
    let mut i = 0;
    while i < toks.len() {
        let fname = match &toks[i] {
            TokenTree::Ident(id) => id.to_string(),
            t => return Err(format!("unit parser table: unexpected `{}`", t)),
        };
        // => [n, bool]
        let grp = match (toks.get(i + 1), toks.get(i + 2), toks.get(i + 3)) {
            (Some(TokenTree::Punct(a)), Some(TokenTree::Punct(b)), Some(TokenTree::Group(g)))
                if a.as_char() == '=' && b.as_char() == '>' && g.delimiter() == Delimiter::Bracket =>
            {
                g.stream().to_string()
            }
            _ => return Err("unit parser table: expected `=> [n, bool]`".into()),
        };
        let parts: Vec<String> = grp.split(',').map(|x| x.trim().to_string()).collect();
        if parts.len() != 2 {
            return Err(format!("unit parser table: `[{}]`", grp));
        }
        let pfn = match fname.strip_prefix("parse_").and_then(|x| x.strip_suffix("_unit")) {
            Some(mid) => mid
                .split('_')
                .map(|w| {
                    let mut c = w.chars();
                    c.next().map(|f| f.to_uppercase().collect::<String>() + c.as_str()).unwrap_or_default()
                })
                .collect::<String>(),
            None => return Err(format!("unit parser `{}`", fname)),
        };
        rows.push_str(&format!("        ParseFn::{} => ({}int, {}),\n", pfn, parts[0], parts[1]));
        i += 4;
        if let Some(TokenTree::Punct(p)) = toks.get(i) {
            if p.as_char() == ',' {
                i += 1;
            }
        }
    }
    Ok((
        format!(
            "/// R9 table: `parse_n_or_empty_unit_fn!{{..}}`: unit parser => (operand count, operands may be omitted)\npub open spec fn {}(p: ParseFn) -> (int, bool) {{\n    match p {{\n{}    }}\n}}\n",
            name, rows
        ),
        s,
        e,
    ))
}

// ---------------------------------------------------------------- R8: expression extraction

/// R8 (suffix): the statements of a function body that follow its (single, top-level) `while` loop become a
/// function whose parameters are the variables live at that point (given by the plan).  The loop and everything
/// before it are dropped (listed as unverified).  The suffix is copied verbatim up to logged R12 substitutions;
/// `fields[0].ty` carries the return type text, `fields[0].name` optional generics.
#[allow(clippy::too_many_arguments)]
fn suffix_after_while(
    src: &Src,
    block: &syn::Block,
    func: &str,
    name: &str,
    params: &str,
    ensures: &[String],
    subst: &[Subst],
    fields: &[FieldSpec],
    fs: usize,
    fe: usize,
    log: &mut Log,
) -> Result<(String, usize, usize), String> {
    let widx = block
        .stmts
        .iter()
        .position(|st| matches!(st, syn::Stmt::Expr(syn::Expr::While(_), _)))
        .ok_or(format!("{}: no top-level `while` statement", func))?;
    if block.stmts[widx + 1..].iter().any(|st| matches!(st, syn::Stmt::Expr(syn::Expr::While(_), _))) {
        return Err(format!("{}: more than one top-level `while`", func));
    }
    let mut body = String::new();
    for st in &block.stmts[widx + 1..] {
        let (s, e) = br(st.span());
        body.push_str("    ");
        body.push_str(&src.text[s..e]);
        body.push('\n');
    }
    let (generics, ret) = match fields.first() {
        Some(f0) => (f0.name.clone(), f0.ty.clone()),
        None => return Err("suffix: return type missing (fields[0].ty)".into()),
    };
    let ens = if ensures.is_empty() { String::new() } else { format!("    ensures\n        {},\n", ensures.join(",\n        ")) };
    let mut text = format!(
        "/// R8 (suffix of `{}` after its scan loop)\n#[allow(unused_variables, unused_mut, unused_assignments)]\npub fn {}{}({}) -> (r: {})\n{}{{\n{}}}\n",
        func, name, generics, params, ret, ens, body
    );
    for sb in subst {
        let n = text.matches(&sb.find).count();
        if n == 0 {
            return Err(format!("R12: pattern `{}` not found in suffix of {}", short(&sb.find), func));
        }
        text = text.replace(&sb.find, &sb.replace);
        log.rewrites.push(Rewrite { rule: format!("R12-subst ({})", sb.why), item: format!("{}/suffix", func), orig: sb.find.clone(), repl: sb.replace.clone() });
    }
    log.rewrites.push(Rewrite {
        rule: "R8-suffix-extraction".into(),
        item: format!("{}/suffix_after_while", func),
        orig: "<lets>; while <scan> { .. } <suffix>".into(),
        repl: "fn(..variables live after the loop..) { <suffix> }; the loop and the lets before it are dropped".into(),
    });
    Ok((text, fs, fe))
}

/// R8 expression extraction from a function that is out of Verus' reach as a whole.
/// The generated function consists of the *prefix* of the real body (every statement before the
/// tail expression, verbatim up to the logged R12 substitutions) followed by
///   what == "guards":      the tail `if c1 { Err("m1") } else if c2 { Err("m2") } .. else { Ok(..) }`
///                          with conditions verbatim and branch bodies replaced by
///                          (ordinal, message-is-non-empty); the accepting branch is ordinal 0;
///   what == "field_inits": for each requested field F of the `Self { .. }` literal, its
///                          initialiser expression verbatim (or the variable for shorthand `F,`).
#[allow(clippy::too_many_arguments)]
fn extract_exprs(
    src: &Src,
    self_ty: &str,
    func: &str,
    what: &str,
    name: &str,
    params: &str,
    ensures: &[String],
    subst: &[Subst],
    fields: &[FieldSpec],
    log: &mut Log,
) -> Result<(String, usize, usize), String> {
    let mut items = Vec::new();
    collect_items(&src.file.items, &mut items);
    if self_ty.is_empty() {
        for it in &items {
            if let syn::Item::Fn(f) = it {
                if f.sig.ident == func && !skip_by_cfg(&f.attrs) {
                    let (fs, fe) = br(f.span());
                    if what == "suffix_after_while" {
                        return suffix_after_while(src, &f.block, func, name, params, ensures, subst, fields, fs, fe, log);
                    }
                    return Err(format!("exprs kind `{}` is not available for free functions", what));
                }
            }
        }
        return Err(format!("free fn {} not found", func));
    }
    for it in items {
        if let syn::Item::Impl(im) = it {
            if im.trait_.is_some() || last_seg(&im.self_ty) != self_ty {
                continue;
            }
            for ii in &im.items {
                if let syn::ImplItem::Fn(f) = ii {
                    if f.sig.ident != func || skip_by_cfg(&f.attrs) {
                        continue;
                    }
                    let (fs, fe) = br(f.span());
                    if what == "suffix_after_while" {
                        return suffix_after_while(src, &f.block, &f.sig.ident.to_string(), name, params, ensures, subst, fields, fs, fe, log);
                    }
                    let tail = match f.block.stmts.last() {
                        Some(syn::Stmt::Expr(syn::Expr::If(i), None)) => i,
                        _ => return Err(format!("{}::{}: tail is not an if-chain", self_ty, func)),
                    };
                    // prefix: statements before the tail, comments stripped by re-slicing per statement
                    let mut prefix = String::new();
                    for st in &f.block.stmts[..f.block.stmts.len() - 1] {
                        let (s, e) = br(st.span());
                        prefix.push_str("    ");
                        prefix.push_str(&src.text[s..e]);
                        prefix.push('\n');
                    }
                    let apply_subst = |mut t: String, log: &mut Log| -> Result<String, String> {
                        for sb in subst {
                            if t.contains(&sb.find) {
                                t = t.replace(&sb.find, &sb.replace);
                                log.rewrites.push(Rewrite {
                                    rule: format!("R12-subst ({})", sb.why),
                                    item: format!("{}::{}/{}", self_ty, func, what),
                                    orig: sb.find.clone(),
                                    repl: sb.replace.clone(),
                                });
                            }
                        }
                        Ok(t)
                    };
                    let ens = if ensures.is_empty() {
                        String::new()
                    } else {
                        format!("    ensures\n        {},\n", ensures.join(",\n        "))
                    };
                    match what {
                        "guards" => {
                            let mut conds = Vec::new();
                            let mut msgs = Vec::new();
                            let mut cur = tail;
                            loop {
                                let (cs, ce) = br(cur.cond.span());
                                conds.push(src.text[cs..ce].to_string());
                                let tb: String = cur.then_branch.to_token_stream_string();
                                let lit = match cur.then_branch.stmts.as_slice() {
                                    [syn::Stmt::Expr(syn::Expr::Call(c), None)]
                                        if c.func.to_token_stream_string().trim() == "Err"
                                            && c.args.len() == 1 =>
                                    {
                                        match &c.args[0] {
                                            syn::Expr::Lit(syn::ExprLit {
                                                lit: syn::Lit::Str(s),
                                                ..
                                            }) => s.value(),
                                            _ => return Err(format!("guard branch `{}` is not Err(\"..\")", short(&tb))),
                                        }
                                    }
                                    _ => return Err(format!("guard branch `{}` is not Err(\"..\")", short(&tb))),
                                };
                                msgs.push(lit);
                                match &cur.else_branch {
                                    Some((_, e)) => match &**e {
                                        syn::Expr::If(n) => cur = n,
                                        syn::Expr::Block(_) => break,
                                        _ => return Err("guard chain: unexpected else".into()),
                                    },
                                    None => return Err("guard chain: missing final else".into()),
                                }
                            }
                            let mut body = String::from("    ");
                            for (i, c) in conds.iter().enumerate() {
                                let kw = if i == 0 { "if" } else { " else if" };
                                body.push_str(&format!(
                                    "{} {} {{ ({}u8, {}) }}",
                                    kw,
                                    c,
                                    i + 1,
                                    !msgs[i].trim().is_empty()
                                ));
                            }
                            body.push_str(" else { (0u8, true) }\n");
                            let text = format!(
                                "/// R8 (guards) from `{}::{}`\n#[allow(unused_variables)]\npub fn {}({}) -> (r: (u8, bool))\n{}{{\n{}{}}}\n",
                                self_ty, func, name, params, ens, prefix, body
                            );
                            let text = apply_subst(text, log)?;
                            log.rewrites.push(Rewrite {
                                rule: "R8-expr-extraction".into(),
                                item: format!("{}::{}/{}", self_ty, func, what),
                                orig: "<prefix>; if <c1> { Err(m1) } else if <c2> { Err(m2) } .. else { Ok({..}) }".into(),
                                repl: "prefix and conditions verbatim; bodies -> (ordinal, !message.is_empty()); the accepting body is dropped".into(),
                            });
                            return Ok((text, fs, fe));
                        }
                        "field_inits" => {
                            struct Finder<'s> {
                                src: &'s str,
                                want: Vec<String>,
                                got: HashMap<String, String>,
                            }
                            impl<'ast, 's> Visit<'ast> for Finder<'s> {
                                fn visit_expr_struct(&mut self, st: &'ast syn::ExprStruct) {
                                    if st.path.is_ident("Self") {
                                        for fv in &st.fields {
                                            if let syn::Member::Named(n) = &fv.member {
                                                if self.want.iter().any(|w| n == w) {
                                                    let (s, e) = br(fv.expr.span());
                                                    self.got.insert(n.to_string(), self.src[s..e].to_string());
                                                }
                                            }
                                        }
                                    }
                                    syn::visit::visit_expr_struct(self, st);
                                }
                            }
                            let mut fd = Finder {
                                src: &src.text,
                                want: fields.iter().map(|f| f.name.clone()).collect(),
                                got: HashMap::new(),
                            };
                            fd.visit_block(&f.block);
                            let mut text = String::new();
                            for fsx in fields {
                                let init = fd
                                    .got
                                    .get(&fsx.name)
                                    .ok_or(format!("{}::{}: initialiser of `{}` not found", self_ty, func, fsx.name))?;
                                let ens = if fsx.ensures.is_empty() {
                                    String::new()
                                } else {
                                    format!("    ensures\n        {},\n", fsx.ensures.join(",\n        "))
                                };
                                text.push_str(&format!(
                                    "/// R8 (field initialiser `{}`) from `{}::{}`\n#[allow(unused_variables)]\npub fn {}_{}({}) -> (r: {})\n{}{{\n{}    {}\n}}\n",
                                    fsx.name, self_ty, func, name, fsx.name, params, fsx.ty, ens, prefix, init
                                ));
                            }
                            let text = apply_subst(text, log)?;
                            log.rewrites.push(Rewrite {
                                rule: "R8-expr-extraction".into(),
                                item: format!("{}::{}/{}", self_ty, func, what),
                                orig: "<prefix>; .. Self { F: <e>, .. }".into(),
                                repl: "prefix verbatim; fn(..) { <prefix>; <e> } per requested field; rest of the function dropped".into(),
                            });
                            return Ok((text, fs, fe));
                        }
                        other => return Err(format!("unknown exprs kind `{}`", other)),
                    }
                }
            }
        }
    }
    Err(format!("{}::{} not found", self_ty, func))
}

// ---------------------------------------------------------------- main

fn main() {
    let args: Vec<String> = std::env::args().collect();
    if args.len() != 4 {
        eprintln!("usage: extract <plan.json> <out.rs> <log.json>");
        std::process::exit(2);
    }
    let log_path = args[3].clone();
    let mut log = Log::default();
    let plan: Plan = match std::fs::read_to_string(&args[1])
        .map_err(|e| e.to_string())
        .and_then(|s| serde_json::from_str(&s).map_err(|e| e.to_string()))
    {
        Ok(p) => p,
        Err(e) => die(&mut log, &log_path, format!("cannot read plan: {}", e)),
    };

    let mut cache: HashMap<String, Src> = HashMap::new();
    let mut out = String::new();
    let mut cur_line = 1usize;

    macro_rules! load {
        ($file:expr) => {{
            let file: &String = $file;
            if !cache.contains_key(file) {
                let path = format!("{}/{}", plan.repo, file);
                let text = match std::fs::read_to_string(&path) {
                    Ok(t) => t,
                    Err(e) => die(&mut log, &log_path, format!("lost anchor: {}: {}", path, e)),
                };
                let parsed = match syn::parse_file(&text) {
                    Ok(f) => f,
                    Err(e) => die(&mut log, &log_path, format!("{} does not parse: {}", path, e)),
                };
                cache.insert(
                    file.clone(),
                    Src {
                        path: file.clone(),
                        text,
                        file: parsed,
                    },
                );
            }
            cache.get(file).unwrap()
        }};
    }

    macro_rules! emit {
        ($text:expr, $item:expr, $kind:expr, $file:expr, $s:expr, $e:expr) => {{
            let text: String = $text;
            let n = text.matches('\n').count();
            log.line_map.push(LineMap {
                gen_start: cur_line,
                gen_end: if text.ends_with('\n') && n > 0 { cur_line + n - 1 } else { cur_line + n },
                item: $item,
                kind: $kind.to_string(),
                src_file: $file,
                src_line_start: $s,
                src_line_end: $e,
            });
            out.push_str(&text);
            if !text.ends_with('\n') {
                out.push('\n');
                cur_line += 1;
            }
            cur_line += n;
        }};
    }

    for unit in plan.units.iter() {
        match unit {
            Unit::Raw { label, text } => {
                emit!(text.clone(), label.clone(), "raw", String::new(), 0, 0);
            }
            Unit::Type {
                file,
                name,
                attrs,
                subst,
                ctor_enum,
            } => {
                let src = load!(file);
                let mut items = Vec::new();
                collect_items(&src.file.items, &mut items);
                let mut found = None;
                for it in items {
                    let (id, at, sp) = match it {
                        syn::Item::Enum(e) => (e.ident.to_string(), &e.attrs, e.span()),
                        syn::Item::Struct(s) => (s.ident.to_string(), &s.attrs, s.span()),
                        _ => continue,
                    };
                    if &id == name && !skip_by_cfg(at) {
                        found = Some((it, sp));
                        break;
                    }
                }
                let (it, sp) = match found {
                    Some(x) => x,
                    None => die(&mut log, &log_path, format!("lost anchor: type {} in {}", name, file)),
                };
                // R1: strip all attributes (outer and on fields / variants)
                struct AttrStrip {
                    edits: Vec<Edit>,
                    n: i64,
                }
                impl<'ast> Visit<'ast> for AttrStrip {
                    fn visit_attribute(&mut self, a: &'ast syn::Attribute) {
                        let (s, e) = br(a.span());
                        self.n += 1;
                        self.edits.push(Edit {
                            start: s,
                            end: e,
                            text: String::new(),
                            order: self.n,
                        });
                    }
                }
                let mut st = AttrStrip {
                    edits: Vec::new(),
                    n: 0,
                };
                st.visit_item(it);
                // R1: private fields are made `pub` (Verus treats a datatype with a private field as
                // opaque in contracts of public functions); visibility has no run-time meaning
                // R1: a private type is made `pub` (contracts of public functions must be able to name it)
                {
                    let (vis, kw_pos) = match it {
                        syn::Item::Struct(sd) => (&sd.vis, br(sd.struct_token.span()).0),
                        syn::Item::Enum(ed) => (&ed.vis, br(ed.enum_token.span()).0),
                        _ => unreachable!(),
                    };
                    if matches!(vis, syn::Visibility::Inherited) {
                        st.n += 1;
                        st.edits.push(Edit { start: kw_pos, end: kw_pos, text: "pub ".to_string(), order: st.n });
                        log.rewrites.push(Rewrite { rule: "R1-pub-type".into(), item: format!("type {}", name), orig: "private type".into(), repl: "pub".into() });
                    }
                }
                if let syn::Item::Struct(sd) = it {
                    let mut widened = 0;
                    for f in sd.fields.iter() {
                        if matches!(f.vis, syn::Visibility::Inherited) {
                            let pos = match &f.ident {
                                Some(id) => br(id.span()).0,
                                None => br(f.ty.span()).0,
                            };
                            st.n += 1;
                            st.edits.push(Edit { start: pos, end: pos, text: "pub ".to_string(), order: st.n });
                            widened += 1;
                        }
                    }
                    if widened > 0 {
                        log.rewrites.push(Rewrite {
                            rule: "R1-pub-fields".into(),
                            item: format!("type {}", name),
                            orig: format!("{} private field(s)", widened),
                            repl: "pub".into(),
                        });
                    }
                }
                let (s, e) = br(sp);
                let mut text = match apply_edits(&src.text, s, e, st.edits) {
                    Ok(t) => t,
                    Err(e) => die(&mut log, &log_path, e),
                };
                // squeeze blank lines left by attribute removal
                text = text
                    .lines()
                    .filter(|l| !l.trim().is_empty())
                    .collect::<Vec<_>>()
                    .join("\n");
                for sb in subst {
                    let n = text.matches(&sb.find).count();
                    if n != 1 {
                        die(&mut log, &log_path, format!("R12: pattern `{}` matches {} times in type {}", sb.find, n, name));
                    }
                    text = text.replacen(&sb.find, &sb.replace, 1);
                    log.rewrites.push(Rewrite {
                        rule: format!("R12-subst ({})", sb.why),
                        item: format!("type {}", name),
                        orig: sb.find.clone(),
                        repl: sb.replace.clone(),
                    });
                }
                log.rewrites.push(Rewrite {
                    rule: "R1-attrs".into(),
                    item: format!("type {}", name),
                    orig: "doc comments, #[derive], #[cfg]".into(),
                    repl: short(attrs),
                });
                log.items.push(format!("type {}::{}", file, name));
                let mut full = format!("{}{}\n", attrs, text);
                if *ctor_enum {
                    if let syn::Item::Enum(en) = it {
                        let vs: Vec<String> = en.variants.iter().map(|v| v.ident.to_string()).collect();
                        full.push_str(&format!("pub enum {}Ctor {{ {} }}\n", name, vs.join(", ")));
                        full.push_str(&format!("impl {} {{\n    pub open spec fn ctor(&self) -> {}Ctor {{\n        match self {{\n", name, name));
                        for v in en.variants.iter() {
                            let pat = match &v.fields {
                                syn::Fields::Unit => String::new(),
                                syn::Fields::Unnamed(_) => "(..)".to_string(),
                                syn::Fields::Named(_) => "{ .. }".to_string(),
                            };
                            full.push_str(&format!("            {}::{}{} => {}Ctor::{},\n", name, v.ident, pat, name, v.ident));
                        }
                        full.push_str("        }\n    }\n}\n");
                        log.rewrites.push(Rewrite {
                            rule: "R9-ctor-enum".into(),
                            item: format!("type {}", name),
                            orig: format!("variants of enum {}", name),
                            repl: format!("enum {}Ctor + spec fn ctor (variant identity)", name),
                        });
                    } else {
                        die(&mut log, &log_path, format!("ctor_enum on non-enum {}", name));
                    }
                }
                emit!(
                    full,
                    format!("type {}", name),
                    "type",
                    file.clone(),
                    line_of(&src.text, s),
                    line_of(&src.text, e)
                );
            }
            Unit::Fns {
                file,
                self_ty,
                trait_,
                extra,
                header,
                fns,
            } => {
                let src = load!(file);
                let mut items = Vec::new();
                collect_items(&src.file.items, &mut items);
                if self_ty.is_empty() {
                    for spec in fns {
                        let mut done = false;
                        for it in &items {
                            if let syn::Item::Fn(f) = it {
                                if f.sig.ident == spec.name && !skip_by_cfg(&f.attrs) {
                                    let label = format!("{}", spec.name);
                                    let vis_start = br(f.vis.span()).0.min(br(f.sig.span()).0);
                                    let vis_start = if matches!(f.vis, syn::Visibility::Inherited) {
                                        br(f.sig.span()).0
                                    } else {
                                        vis_start
                                    };
                                    match extract_fn(
                                        src, &f.attrs, vis_start, &f.sig, &f.block, f.span(), spec,
                                        &label, false, &plan.optargs, &mut log,
                                    ) {
                                        Ok(fo) => {
                                            log.items.push(format!("fn {}::{}", file, spec.name));
                                            emit!(
                                                fo.text,
                                                label,
                                                if spec.mode == "assumed" { "assumed" } else { "fn" },
                                                file.clone(),
                                                line_of(&src.text, fo.src_start),
                                                line_of(&src.text, fo.src_end)
                                            );
                                        }
                                        Err(es) => die(&mut log, &log_path, format!("{}: {}", spec.name, es.join("; "))),
                                    }
                                    done = true;
                                    break;
                                }
                            }
                        }
                        if !done {
                            die(&mut log, &log_path, format!("lost anchor: fn {} in {}", spec.name, file));
                        }
                    }
                    continue;
                }
                // impl blocks: there may be several impl blocks for the same type; look in all
                let mut impl_header: Option<String> = None;
                let mut impl_pre_items = String::new();
                let mut bodies: Vec<(String, String, &'static str, usize, usize)> = Vec::new();
                for spec in fns {
                    let mut done = false;
                    for it in &items {
                        if let syn::Item::Impl(im) = it {
                            if skip_by_cfg(&im.attrs) || last_seg(&im.self_ty) != *self_ty {
                                continue;
                            }
                            let tr = im
                                .trait_
                                .as_ref()
                                .map(|(_, p, _)| p.segments.last().unwrap().ident.to_string())
                                .unwrap_or_default();
                            if &tr != trait_ {
                                continue;
                            }
                            for ii in &im.items {
                                if let syn::ImplItem::Fn(f) = ii {
                                    if f.sig.ident != spec.name || skip_by_cfg(&f.attrs) {
                                        continue;
                                    }
                                    if impl_header.is_none() {
                                        let s = br(im.impl_token.span()).0;
                                        let e = br(im.brace_token.span.open()).0;
                                        impl_header = Some(src.text[s..e].trim().to_string());
                                    }
                                    let label = if !spec.label.is_empty() {
                                        spec.label.clone()
                                    } else if trait_.is_empty() {
                                        format!("{}::{}", self_ty, spec.name)
                                    } else {
                                        format!("<{} as {}>::{}", self_ty, trait_, spec.name)
                                    };
                                    let vis_start = if matches!(f.vis, syn::Visibility::Inherited) {
                                        br(f.sig.span()).0
                                    } else {
                                        br(f.vis.span()).0
                                    };
                                    match extract_fn(
                                        src, &f.attrs, vis_start, &f.sig, &f.block, f.span(), spec,
                                        // a trait method emitted under an inherent header (plan `header` without
                                        // ` for `) is an ordinary method as far as Verus is concerned
                                        &label, !trait_.is_empty() && (header.is_empty() || header.contains(" for ")), &plan.optargs, &mut log,
                                    ) {
                                        Ok(fo) => {
                                            log.items.push(format!("fn {}::{}", file, label));
                                            impl_pre_items.push_str(&fo.pre_items);
                                            bodies.push((
                                                label,
                                                fo.text,
                                                if spec.mode == "assumed" { "assumed" } else { "fn" },
                                                line_of(&src.text, fo.src_start),
                                                line_of(&src.text, fo.src_end),
                                            ));
                                        }
                                        Err(es) => die(&mut log, &log_path, format!("{}: {}", label, es.join("; "))),
                                    }
                                    done = true;
                                }
                            }
                        }
                        if done {
                            break;
                        }
                    }
                    if !done {
                        die(
                            &mut log,
                            &log_path,
                            format!("lost anchor: fn {} of impl {} {} in {}", spec.name, trait_, self_ty, file),
                        );
                    }
                }
                let hdr = if !header.is_empty() {
                    header.clone()
                } else {
                    impl_header.unwrap_or_else(|| format!("impl {}", self_ty))
                };
                if !impl_pre_items.is_empty() {
                    emit!(impl_pre_items.clone(), format!("R16 items for {}", hdr), "raw", String::new(), 0, 0);
                }
                emit!(format!("{} {{\n", hdr), format!("impl header {}", hdr), "raw", String::new(), 0, 0);
                if !extra.is_empty() {
                    emit!(extra.clone(), format!("spec items of {}", hdr), "raw", String::new(), 0, 0);
                }
                for (label, text, kind, s, e) in bodies {
                    emit!(text, label, kind, file.clone(), s, e);
                }
                emit!("}\n".to_string(), "impl end".to_string(), "raw", String::new(), 0, 0);
            }
            Unit::Trait {
                file,
                name,
                extra,
                header,
                fns,
            } => {
                let src = load!(file);
                let mut items = Vec::new();
                collect_items(&src.file.items, &mut items);
                let tr = items.iter().find_map(|it| match it {
                    syn::Item::Trait(t) if t.ident == name.as_str() && !skip_by_cfg(&t.attrs) => Some(t),
                    _ => None,
                });
                let tr = match tr {
                    Some(t) => t,
                    None => die(&mut log, &log_path, format!("lost anchor: trait {} in {}", name, file)),
                };
                let hdr = if header.is_empty() {
                    let s = br(tr.trait_token.span()).0;
                    let e = br(tr.brace_token.span.open()).0;
                    format!("pub {}", src.text[s..e].trim())
                } else {
                    header.clone()
                };
                emit!(format!("{} {{\n{}", hdr, extra), format!("trait {}", name), "raw", String::new(), 0, 0);
                for ti in &tr.items {
                    if let syn::TraitItem::Fn(f) = ti {
                        let fname = f.sig.ident.to_string();
                        let spec = match fns.iter().find(|x| x.name == fname) {
                            Some(s) => s.clone(),
                            None => FnSpec { name: fname.clone(), ..Default::default() },
                        };
                        let label = format!("trait {}::{}", name, fname);
                        let vis_start = br(f.sig.span()).0;
                        match &f.default {
                            Some(block) => {
                                match extract_fn(src, &f.attrs, vis_start, &f.sig, block, f.span(), &spec, &label, false, &plan.optargs, &mut log) {
                                    Ok(fo) => {
                                        log.items.push(format!("fn {}::{}", file, label));
                                        emit!(fo.text, label, "fn", file.clone(), line_of(&src.text, fo.src_start), line_of(&src.text, fo.src_end));
                                    }
                                    Err(es) => die(&mut log, &log_path, format!("{}: {}", label, es.join("; "))),
                                }
                            }
                            None => {
                                // declaration only: signature + contract + `;`
                                let fake: syn::Block = syn::parse_quote!({});
                                let mut sp2 = spec.clone();
                                sp2.mode = "decl".to_string();
                                let _ = fake;
                                let (ss, se) = br(f.sig.span());
                                let mut sig_text = src.text[ss..se].to_string();
                                if !sp2.ret.is_empty() {
                                    if let syn::ReturnType::Type(_, ty) = &f.sig.output {
                                        let (ts, te) = br(ty.span());
                                        let t = src.text[ts..te].to_string();
                                        sig_text = format!("{}({}: {}){}", &src.text[ss..ts], sp2.ret, t, &src.text[te..se]);
                                    }
                                }
                                let mut clauses = String::new();
                                if !sp2.requires.is_empty() {
                                    clauses.push_str(&format!("\n    requires\n        {},", sp2.requires.join(",\n        ")));
                                }
                                if !sp2.ensures.is_empty() {
                                    clauses.push_str(&format!("\n    ensures\n        {},", sp2.ensures.join(",\n        ")));
                                }
                                log.items.push(format!("decl {}::{}", file, label));
                                emit!(format!("{}{}\n;\n", sig_text, clauses), label, "decl", file.clone(), line_of(&src.text, ss), line_of(&src.text, se));
                            }
                        }
                    }
                }
                emit!("}\n".to_string(), "trait end".to_string(), "raw", String::new(), 0, 0);
            }
            Unit::Lifted {
                file,
                self_ty,
                func,
                closure,
                stmts_from,
                block_from,
                stmt_at,
                of_trait,
                ret_wrap,
                header,
                sig,
                spec,
            } => {
                let (body_text, s_line, e_line) = {
                    let src = load!(file);
                    let mut items = Vec::new();
                    collect_items(&src.file.items, &mut items);
                    let mut found: Option<(usize, usize)> = None;
                    for it in &items {
                        if let syn::Item::Fn(f) = it {
                            if self_ty.is_empty() && f.sig.ident == func.as_str() && !skip_by_cfg(&f.attrs) {
                                found = find_lift_range(&src.text, &f.block, block_from, stmts_from, stmt_at, *closure);
                            }
                        }
                        if let syn::Item::Impl(im) = it {
                            let tr = im.trait_.as_ref().map(|(_, p, _)| p.segments.last().unwrap().ident.to_string()).unwrap_or_default();
                            if tr != *of_trait || last_seg(&im.self_ty) != *self_ty || skip_by_cfg(&im.attrs) {
                                continue;
                            }
                            for ii in &im.items {
                                if let syn::ImplItem::Fn(f) = ii {
                                    if f.sig.ident != func.as_str() || skip_by_cfg(&f.attrs) {
                                        continue;
                                    }
                                    found = find_lift_range(&src.text, &f.block, block_from, stmts_from, stmt_at, *closure);
                                }
                            }
                        }
                    }
                    match found {
                        Some((bs, be)) => (src.text[bs..be].to_string(), line_of(&src.text, bs), line_of(&src.text, be)),
                        None => die(&mut log, &log_path, format!("lost anchor: closure {} of {}::{} in {}", closure, self_ty, func, file)),
                    }
                };
                let body_text = if ret_wrap.is_empty() { body_text } else {
                    // the lifted text is an expression block that also assigns captured locals: its value and those
                    // locals are handed back together (`ret_wrap` is the tail expression, `{}` stands for the block's value)
                    format!("let __blk = {{\n{}\n}};\n{}", body_text, ret_wrap.replace("{}", "__blk"))
                };
                let synth_text = format!("{} {{\nfn {} {{\n{}\n}}\n}}\n", header, sig, body_text);
                let parsed = match syn::parse_file(&synth_text) {
                    Ok(f) => f,
                    Err(e) => die(&mut log, &log_path, format!("R15: lifted closure {} of {}::{} does not parse as a function: {}", closure, self_ty, func, e)),
                };
                let synth = Src { path: file.clone(), text: synth_text, file: parsed };
                let mut text_out = None;
                if let Some(syn::Item::Impl(im)) = synth.file.items.first() {
                    if let Some(syn::ImplItem::Fn(f)) = im.items.first() {
                        let label = if spec.label.is_empty() { format!("{}::{}", self_ty, spec.name) } else { spec.label.clone() };
                        match extract_fn(&synth, &f.attrs, br(f.sig.span()).0, &f.sig, &f.block, f.span(), spec, &label, false, &plan.optargs, &mut log) {
                            Ok(fo) => text_out = Some((label, fo.text)),
                            Err(es) => die(&mut log, &log_path, format!("{}: {}", label, es.join("; "))),
                        }
                    }
                }
                let (label, ftext) = match text_out {
                    Some(x) => x,
                    None => die(&mut log, &log_path, "R15: synthetic function not found".to_string()),
                };
                log.rewrites.push(Rewrite {
                    rule: "R15-lifted-closure".into(),
                    item: label.clone(),
                    orig: format!("body of closure #{} of {}::{} ({}:{}-{})", closure, self_ty, func, file, s_line, e_line),
                    repl: format!("fn {} {{ <that body, verbatim> }}; the rest of {} is dropped (not verified)", short(sig), func),
                });
                log.items.push(format!("fn {}::{} (closure #{} of {}::{})", file, label, closure, self_ty, func));
                emit!(format!("{} {{\n", header), format!("impl header {}", header), "raw", String::new(), 0, 0);
                emit!(ftext, label, if spec.mode == "assumed" { "assumed" } else { "fn" }, file.clone(), s_line, e_line);
                emit!("}\n".to_string(), "impl end".to_string(), "raw", String::new(), 0, 0);
            }
            Unit::Resolved {
                trait_file,
                trait_,
                method,
                impl_file,
                self_ty,
                name,
                ret_ty,
                ret,
                ensures,
                mode,
            } => {
                // which body runs?
                let (body_text, sig_out, from, file_used, s_line, e_line) = {
                    let isrc = load!(impl_file);
                    let mut items = Vec::new();
                    collect_items(&isrc.file.items, &mut items);
                    let mut found: Option<(String, String, usize, usize)> = None;
                    let mut impl_seen = false;
                    for it in &items {
                        if let syn::Item::Impl(im) = it {
                            if skip_by_cfg(&im.attrs) || last_seg(&im.self_ty) != *self_ty {
                                continue;
                            }
                            let tr = im.trait_.as_ref().map(|(_, p, _)| p.segments.last().unwrap().ident.to_string()).unwrap_or_default();
                            if &tr != trait_ {
                                continue;
                            }
                            impl_seen = true;
                            for ii in &im.items {
                                if let syn::ImplItem::Fn(f) = ii {
                                    if f.sig.ident == method.as_str() && !skip_by_cfg(&f.attrs) {
                                        let (bs, be) = br(f.block.span());
                                        let out = match &f.sig.output {
                                            syn::ReturnType::Type(_, ty) => { let (a, b) = br(ty.span()); isrc.text[a..b].to_string() }
                                            _ => "()".to_string(),
                                        };
                                        if f.sig.inputs.len() != 1 {
                                            die(&mut log, &log_path, format!("R14: {}::{} takes parameters", self_ty, method));
                                        }
                                        found = Some((isrc.text[bs..be].to_string(), out, line_of(&isrc.text, bs), line_of(&isrc.text, be)));
                                    }
                                }
                            }
                        }
                    }
                    if !impl_seen {
                        die(&mut log, &log_path, format!("lost anchor: impl {} for {} in {}", trait_, self_ty, impl_file));
                    }
                    match found {
                        Some((b, o, s, e)) => (b, o, "impl", impl_file.clone(), s, e),
                        None => {
                            let tsrc = load!(trait_file);
                            let mut items = Vec::new();
                            collect_items(&tsrc.file.items, &mut items);
                            let tr = items.iter().find_map(|it| match it {
                                syn::Item::Trait(t) if t.ident == trait_.as_str() && !skip_by_cfg(&t.attrs) => Some(t),
                                _ => None,
                            });
                            let tr = match tr {
                                Some(t) => t,
                                None => die(&mut log, &log_path, format!("lost anchor: trait {} in {}", trait_, trait_file)),
                            };
                            let mut r = None;
                            for ti in &tr.items {
                                if let syn::TraitItem::Fn(f) = ti {
                                    if f.sig.ident == method.as_str() {
                                        if let Some(block) = &f.default {
                                            let (bs, be) = br(block.span());
                                            let out = match &f.sig.output {
                                                syn::ReturnType::Type(_, ty) => { let (a, b) = br(ty.span()); tsrc.text[a..b].to_string() }
                                                _ => "()".to_string(),
                                            };
                                            if f.sig.inputs.len() != 1 {
                                                die(&mut log, &log_path, format!("R14: {}::{} takes parameters", trait_, method));
                                            }
                                            r = Some((tsrc.text[bs..be].to_string(), out, line_of(&tsrc.text, bs), line_of(&tsrc.text, be)));
                                        }
                                    }
                                }
                            }
                            match r {
                                Some((b, o, s, e)) => (b, o, "trait default", trait_file.clone(), s, e),
                                None => die(&mut log, &log_path, format!("lost anchor: no body for {}::{} (impl for {})", trait_, method, self_ty)),
                            }
                        }
                    }
                };
                // `self` -> `this` on identifier boundaries
                let mut body = String::new();
                let bytes: Vec<char> = body_text.chars().collect();
                let mut i = 0;
                while i < bytes.len() {
                    let is_id = |c: char| c.is_alphanumeric() || c == '_';
                    if bytes[i..].starts_with(&['s', 'e', 'l', 'f'])
                        && (i == 0 || !is_id(bytes[i - 1]))
                        && (i + 4 >= bytes.len() || !is_id(bytes[i + 4]))
                    {
                        body.push_str("this");
                        i += 4;
                    } else {
                        body.push(bytes[i]);
                        i += 1;
                    }
                }
                let mut clauses = String::new();
                if !ensures.is_empty() {
                    clauses.push_str(&format!("\n    ensures\n        {},\n", ensures.join(",\n        ")));
                }
                let rname = if ret.is_empty() { "r".to_string() } else { ret.clone() };
                let sig_out = if ret_ty.is_empty() { sig_out } else { ret_ty.clone() };
                let text = if mode == "assumed" {
                    log.assumed.push(name.clone());
                    format!("#[verifier::external_body]\npub fn {}(this: &{}) -> ({}: {}){}{{ unimplemented!() }}\n", name, self_ty, rname, sig_out, clauses)
                } else {
                    format!("pub fn {}(this: &{}) -> ({}: {}){}{}\n", name, self_ty, rname, sig_out, clauses, body)
                };
                log.rewrites.push(Rewrite {
                    rule: "R14-resolved-method".into(),
                    item: name.clone(),
                    orig: format!("<{} as {}>::{} ({} body, {}:{})", self_ty, trait_, method, from, file_used, s_line),
                    repl: format!("free fn {}(this: &{}) with the same body", name, self_ty),
                });
                log.items.push(format!("fn {}::<{} as {}>::{} ({} body)", file_used, self_ty, trait_, method, from));
                emit!(text, name.clone(), if mode == "assumed" { "assumed" } else { "fn" }, file_used.clone(), s_line, e_line);
            }
            Unit::Table { what, file, name } => {
                let src = load!(file);
                let r = match what.as_str() {
                    "parse_action_expr" => table_parse_action_expr(src, name),
                    "names" => table_names(src, name),
                    "unit_parsers" => table_unit_parsers(src, name),
                    "quote_idents" => table_quote_idents(src, name),
                    "determiners" => table_determiners(src, &plan.repo, name),
                    "configs" => table_configs(src, name),
                    other => Err(format!("unknown table `{}`", other)),
                };
                match r {
                    Ok((text, s, e)) => {
                        log.rewrites.push(Rewrite {
                            rule: "R9-table".into(),
                            item: format!("table {}", what),
                            orig: format!("{} ({} bytes of source)", file, e - s),
                            repl: format!("spec fn {}", name),
                        });
                        log.items.push(format!("table {}::{}", file, what));
                        emit!(
                            text,
                            format!("table {}", what),
                            "table",
                            file.clone(),
                            line_of(&src.text, s),
                            line_of(&src.text, e)
                        );
                    }
                    Err(e) => die(&mut log, &log_path, format!("table {}: {}", what, e)),
                }
            }
            Unit::Exprs {
                file,
                self_ty,
                func,
                what,
                name,
                params,
                ensures,
                subst,
                fields,
            } => {
                let src = load!(file);
                match extract_exprs(src, self_ty, func, what, name, params, ensures, subst, fields, &mut log) {
                    Ok((text, s, e)) => {
                        log.items.push(format!("exprs {}::{}::{}/{}", file, self_ty, func, what));
                        emit!(
                            text,
                            format!("exprs {}::{}/{}", self_ty, func, what),
                            "exprs",
                            file.clone(),
                            line_of(&src.text, s),
                            line_of(&src.text, e)
                        );
                    }
                    Err(e) => die(&mut log, &log_path, format!("exprs {}: {}", what, e)),
                }
            }
        }
    }
    let _ = cache.values().map(|s| &s.path).count();
    if let Err(e) = std::fs::write(&args[2], &out) {
        die(&mut log, &log_path, format!("cannot write {}: {}", args[2], e));
    }
    std::fs::write(&log_path, serde_json::to_string_pretty(&log).unwrap()).unwrap();
}
