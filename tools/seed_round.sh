#!/bin/bash
# usage: seed_round.sh <worktree> <property-id> <seed-name> [extra pids..]
# confirm a sub-agent's change (tools/seed_confirm.sh), run the property's check against it on a scratch clone
# (tools/seed_try.sh), then remove the worktree.  Log: .cache/round_<seed-name>.log
WT=$1; ID=$2; NAME=$3; shift 3
L=/verif/.cache/round_$NAME.log
/verif/tools/seed_confirm.sh $WT $ID $NAME > $L 2>&1 || { echo "CONFIRM FAILED" >> $L; exit 1; }
SEED_TRY_WORK=/tmp/seedtry-work-$NAME /verif/tools/seed_try.sh $NAME $ID "$@" >> $L 2>&1
rm -rf /tmp/seedtry-work-$NAME
git -C /repo worktree remove --force $WT >> $L 2>&1
echo "ROUND DONE" >> $L
