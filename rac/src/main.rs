//! Engine R (DESIGN.md 3.3): executable contracts on the REAL join_impl code through its public API,
//! run over exhaustive finite domains.  Bounded stand-in + replay; never counted as proved.
//! usage: rac <family> [tier]   -> one JSON object on stdout
use join_impl::chain::expr::{ActionExpr, ErrExpr, InitialExpr, InnerExpr, ProcessExpr};
use join_impl::chain::group::{ApplicationType, MoveType};
use join_impl::chain::Chain;
use join_impl::{generate_join, Config, JoinInputDefault};
use quote::ToTokens;
use std::panic::{catch_unwind, AssertUnwindSafe};

#[derive(Debug, Clone, PartialEq)]
enum Outcome {
    Ok(String),
    SynErr(String),
    ConfigReject(String),
    OtherPanic(String),
}

const KINDS: [(&str, bool, bool, bool); 8] = [
    ("join", false, false, false),
    ("try_join", false, true, false),
    ("join_spawn", false, false, true),
    ("try_join_spawn", false, true, true),
    ("join_async", true, false, false),
    ("try_join_async", true, true, false),
    ("join_async_spawn", true, false, true),
    ("try_join_async_spawn", true, true, true),
];

fn cfg(k: usize) -> Config {
    let (_, a, t, s) = KINDS[k];
    Config { is_async: a, is_try: t, is_spawn: s }
}

fn panic_msg(e: Box<dyn std::any::Any + Send>) -> String {
    if let Some(s) = e.downcast_ref::<String>() { s.clone() } else if let Some(s) = e.downcast_ref::<&str>() { s.to_string() } else { "<non-string panic>".into() }
}

/// library-level parse + generate, classified
fn expand(input: &str, kind: usize) -> Outcome {
    let ts: proc_macro2::TokenStream = match input.parse() {
        Ok(t) => t,
        Err(e) => return Outcome::SynErr(format!("lex: {}", e)),
    };
    let r = catch_unwind(AssertUnwindSafe(|| syn::parse2::<JoinInputDefault>(ts)));
    let parsed = match r {
        Err(e) => return Outcome::OtherPanic(format!("parser panicked: {}", panic_msg(e))),
        Ok(Err(e)) => return Outcome::SynErr(e.to_string()),
        Ok(Ok(p)) => p,
    };
    match catch_unwind(AssertUnwindSafe(|| generate_join(&parsed, cfg(kind)).to_string())) {
        Ok(s) => Outcome::Ok(s),
        Err(e) => {
            let m = panic_msg(e);
            // JoinOutput::new(..) -> Err(&'static str) is reported through `.unwrap()` in generate_join:
            // that is the documented configuration rejection (a compile error with this message)
            if m.starts_with("called `Result::unwrap()` on an `Err` value: \"") && !m.contains("This's a bug") {
                Outcome::ConfigReject(m)
            } else {
                Outcome::OtherPanic(m)
            }
        }
    }
}

fn jstr(s: &str) -> String {
    let mut o = String::from("\"");
    for c in s.chars() {
        match c {
            '"' => o.push_str("\\\""),
            '\\' => o.push_str("\\\\"),
            '\n' => o.push_str("\\n"),
            '\t' => o.push_str("\\t"),
            c if (c as u32) < 0x20 => o.push_str(&format!("\\u{:04x}", c as u32)),
            c => o.push(c),
        }
    }
    o.push('"');
    o
}

struct Report {
    family: String,
    cases: u64,
    passed: u64,
    failures: Vec<(String, String)>,
    samples: Vec<String>,
    notes: Vec<String>,
    exhaustive: bool,
    /// cases that are non-trivial by the family's rule (None = every case)
    nontrivial: Option<u64>,
}

impl Report {
    fn new(f: &str) -> Self { Report { family: f.into(), cases: 0, passed: 0, failures: vec![], samples: vec![], notes: vec![], exhaustive: true, nontrivial: None } }
    fn check(&mut self, ok: bool, input: &str, what: &str) {
        self.cases += 1;
        if ok { self.passed += 1; if self.samples.len() < 6 { self.samples.push(input.to_string()); } }
        else if self.failures.len() < 40 { self.failures.push((input.to_string(), what.to_string())); }
    }
    fn print(&self) {
        let f: Vec<String> = self.failures.iter().map(|(i, w)| format!("{{\"input\":{},\"what\":{}}}", jstr(i), jstr(w))).collect();
        let s: Vec<String> = self.samples.iter().map(|x| jstr(x)).collect();
        let n: Vec<String> = self.notes.iter().map(|x| jstr(x)).collect();
        println!("{{\"family\":{},\"cases\":{},\"passed\":{},\"nontrivial\":{},\"exhaustive\":{},\"failures\":[{}],\"samples\":[{}],\"notes\":[{}]}}",
            jstr(&self.family), self.cases, self.passed, self.nontrivial.unwrap_or(self.cases), self.exhaustive, f.join(","), s.join(","), n.join(","));
    }
}

fn norm(s: &str) -> String { s.split_whitespace().collect::<Vec<_>>().join(" ") }
fn squeeze(s: &str) -> String { s.chars().filter(|c| !c.is_whitespace()).collect() }

// ------------------------------------------------------------------ C16: option arrangements
fn fam_options() -> Report {
    let mut r = Report::new("options");
    let opts = [
        ("futures_crate_path(::my_futures)", 0),
        ("custom_joiner(my_joiner)", 1),
        ("transpose_results(false)", 2),
        ("lazy_branches(true)", 3),
    ];
    // all ordered arrangements of all subsets (1 + 4 + 12 + 24 + 24 = 65)
    fn rec(cur: &mut Vec<usize>, used: u8, out: &mut Vec<Vec<usize>>) {
        out.push(cur.clone());
        for i in 0..4 { if used >> i & 1 == 0 { cur.push(i); rec(cur, used | 1 << i, out); cur.pop(); } }
    }
    let mut arr = Vec::new();
    rec(&mut Vec::new(), 0, &mut arr);
    for a in &arr {
        let txt: Vec<&str> = a.iter().map(|i| opts[*i].0).collect();
        let input = format!("{} Some(1) |> f, Some(2)", txt.join(" "));
        let parsed = input.parse::<proc_macro2::TokenStream>().ok().and_then(|t| syn::parse2::<JoinInputDefault>(t).ok());
        let ok = match &parsed {
            None => false,
            Some(p) => {
                let has = |i: usize| a.contains(&i);
                p.futures_crate_path.is_some() == has(0)
                    && p.futures_crate_path.as_ref().map(|x| norm(&x.to_token_stream().to_string()) == ":: my_futures").unwrap_or(true)
                    && p.custom_joiner.is_some() == has(1)
                    && p.custom_joiner.as_ref().map(|x| norm(&x.to_string()) == "my_joiner").unwrap_or(true)
                    && p.transpose_results == if has(2) { Some(false) } else { None }
                    && p.lazy_branches == if has(3) { Some(true) } else { None }
                    && p.branches.len() == 2 && p.handler.is_none()
            }
        };
        r.check(ok, &input, "options given in this order/subset are not all recognised (each at most once, any order)");
    }
    // each option twice (adjacent and separated) is rejected with a message
    for i in 0..4 {
        for j in 0..4 {
            let input = if i == j { format!("{} {} Some(1)", opts[i].0, opts[i].0) } else { format!("{} {} {} Some(1)", opts[i].0, opts[j].0, opts[i].0) };
            let o = expand(&input, 5);
            r.check(matches!(&o, Outcome::SynErr(m) if !m.is_empty()), &input, &format!("duplicated option must be rejected with a message, got {:?}", o));
        }
    }
    r.notes.push("65 ordered arrangements of option subsets + 16 duplicate placements".into());
    r
}

// ------------------------------------------------------------------ C13 / C15: rejection matrix
fn fam_reject() -> Report {
    let mut r = Report::new("reject");
    // (kind x handler): legal iff (then & !try) | (map/and_then & try)
    for k in 0..8 {
        let (_, _, is_try, _) = KINDS[k];
        for (h, needs_try) in [("then", false), ("map", true), ("and_then", true)] {
            for n in 1..=3 {
                for pos in 0..=n {
                    let mut parts: Vec<String> = (0..n).map(|i| format!("Ok::<u8,u8>({}) |> f{}", i, i)).collect();
                    parts.insert(pos, format!("{} => |a| a", h));
                    let input = parts.join(", ");
                    let o = expand(&input, k);
                    let legal = is_try == needs_try;
                    let ok = if legal { matches!(o, Outcome::Ok(_)) } else { matches!(&o, Outcome::ConfigReject(m) if m.len() > 50) };
                    r.check(ok, &format!("[{}] {}", KINDS[k].0, input), &format!("handler `{}` on {} must be {}, got {:?}", h, KINDS[k].0, if legal { "accepted" } else { "rejected with a message" }, trunc(&o)));
                }
            }
            // a second handler is rejected
            for h2 in ["then", "map", "and_then"] {
                let input = format!("Ok::<u8,u8>(1), {} => |a| a, {} => |a| a", h, h2);
                let o = expand(&input, k);
                r.check(matches!(&o, Outcome::SynErr(m) if !m.is_empty()), &format!("[{}] {}", KINDS[k].0, input), &format!("second handler must be rejected, got {:?}", trunc(&o)));
            }
        }
        // futures_crate_path on a non-async macro, no branch, empty branch, structural errors
        let (_, is_async, _, _) = KINDS[k];
        let o = expand("futures_crate_path(::f) Some(1)", k);
        r.check(if is_async { matches!(o, Outcome::Ok(_)) } else { matches!(&o, Outcome::ConfigReject(m) if !m.is_empty()) }, &format!("[{}] futures_crate_path(::f) Some(1)", KINDS[k].0), &format!("got {:?}", trunc(&o)));
        for (input, why) in [
            ("", "no branch"),
            ("then => |a| a", "no branch, only a handler"),
            ("map => |a| a", "no branch, only a handler"),
            ("and_then => |a| Some(a),", "no branch, only a handler"),
            ("transpose_results(false) map => |a| a,", "no branch, options and a handler"),
            ("custom_joiner(j)", "only options"),
            (", Some(1)", "empty first branch"),
            ("Some(1), , Some(2)", "empty branch"),
            ("Some(1) |>", "operator without operand at the end"),
            ("Some(1) |> , Some(2)", "operator without operand"),
            ("|> f", "branch starts with an operator"),
            ("Some(1) <<<", "`<<<` without `>>>`"),
            ("Some(1) |> >>> |> f <<< <<<", "one `<<<` too many"),
            ("Some(1) |> >>> ~|> f <<<", "`<<<` whose `>>>` was closed at the step end"),
            ("Some(1) |> >>> |> f ~<<<", "deferred `<<<` opening a step"),
            ("Some(1) => >>> |> f ~=> >>> |> g <<< <<<", "extra `<<<` in a step opened by a wrapper"),
            ("Some(1) .. >>> f", "`>>>` after a non-wrapper operator (..)"),
            ("Some(1) -> >>> f", "`>>>` after a non-wrapper operator (->)"),
            ("Some(1) ^@ >>> f", "`>>>` after a non-wrapper operator (^@)"),
            ("Some(1) <| >>> f", "`>>>` after a non-wrapper operator (<|)"),
            ("Some(1) |> >>> <<< >>> f", "`>>>` combined with `<<<`"),
            // multi-operand operators: an operator (with its `~` / `>>>` / `<<<`) where the `,` between operands belongs
            ("v ^@ 0 <<< , f", "`<<<` between the operands of ^@"),
            ("v ^@ 0 ~=> , f", "`~=>` between the operands of ^@"),
            ("v ^@ 0 |> >>> , f", "`|> >>>` between the operands of ^@"),
            ("v ^@ 0 |> , f", "`|>` between the operands of ^@"),
            ("v ?^@ 0 -> , f", "`->` between the operands of ?^@"),
            ("v ?^@ 0 ~?? , f", "`~??` between the operands of ?^@"),
            ("v <-> u8, u16 -> , Vec<u8>, Vec<u16>", "`->` between the operands of <->"),
            ("v <-> u8 <<< , u16, Vec<u8>, Vec<u16>", "`<<<` between the operands of <->"),
            ("v <-> u8, u16, Vec<u8> ~|> , Vec<u16>", "`~|>` between the operands of <->"),
            ("v ^@ 0", "one operand of two"),
            ("v ^@ 0 |> f", "one operand of two, then an operator"),
            ("v <-> u8, u16", "two operands of four"),
            ("v <-> u8, u16, Vec<u8> |> f", "three operands of four, then an operator"),
            // tokens directly after a `>>>` (the wrapper has no operand of its own)
            ("Some(Some(1)) => >>> (oops) |> f <<<, Some(2) |> g", "an operand directly after `>>>`"),
            ("Some(1) |> >>> oops |> f", "an operand directly after `>>>`"),
            ("Some(1) |> >>> { x } <<<", "a block directly after `>>>`"),
            ("Some(Some(1)) => >>> (oops) |> f <<<, Some(2) |> g, map => |a, b| a", "an operand directly after `>>>`, more branches and a handler behind it"),
            ("Some(1) |> >>> |> f ~", "`~` with nothing behind it inside a wrapper"),
            // tokens directly after an operator that takes NO operand (a forgotten `,` / a stray operand)
            ("it ^^> |v| v", "an operand directly after `^^>`"),
            ("it |n> |(i, v)| v", "an operand directly after `|n>`"),
            ("Some(Some(1)) => >>> |> f <<< Some(2)", "an operand directly after `<<<`"),
            ("a ^^> Some(1) |> g", "a second branch without `,` after `^^>`"),
            ("a ^^> b, Some(1) |> g", "an operand directly after `^^>`, another branch behind it"),
            ("a |> f ~^^> b", "an operand directly after `~^^>`"),
            ("let (a, b) = Some(1) |> f", "non-identifier `let` pattern (tuple)"),
            ("let Some(a) = Some(1) |> f", "non-identifier `let` pattern (tuple struct)"),
            ("let _ = Some(1) |> f", "non-identifier `let` pattern (wildcard)"),
        ] {
            let o = expand(input, k);
            // a diagnostic (syn::Error -> compile_error!), not a panic of the proc macro
            let ok = matches!(&o, Outcome::SynErr(m) if !m.is_empty());
            r.check(ok, &format!("[{}] {}", KINDS[k].0, input), &format!("structurally invalid input ({}) must be rejected with a diagnostic message (not a proc-macro panic), got {:?}", why, trunc(&o)));
        }
    }
    r
}

fn trunc(o: &Outcome) -> Outcome {
    let t = |s: &String| if s.len() > 200 { format!("{}…", &s[..200]) } else { s.clone() };
    match o { Outcome::Ok(s) => Outcome::Ok(t(s)), Outcome::SynErr(s) => Outcome::SynErr(t(s)), Outcome::ConfigReject(s) => Outcome::ConfigReject(t(s)), Outcome::OtherPanic(s) => Outcome::OtherPanic(t(s)) }
}

// ------------------------------------------------------------------ C15: all token sequences up to length L
fn fam_enum(tier: &str) -> Report {
    let mut r = Report::new("enum");
    let vocab: Vec<&'static str> = vec![
        "a", "f", "{ b }", "( c )", ",", "~", ">>>", "<<<", "|>", "=>", "->", "..", "<|", "?>", "??", "^@", "=>[]", "|n>", "^^>", "<->",
        "let", "x =", "map =>", "then =>", "custom_joiner ( j )", "Vec < u8 >", "member ( 1 )",
    ];
    // wrapper / step structure needs longer inputs (e.g. `a => >>> |> f ~ <<<`): a second, smaller vocabulary, enumerated deeper
    let vocab2: Vec<&'static str> = vec!["a", "|>", "=>", ">>>", "<<<", "~", ",", "{ b }"];
    let (l1, l2) = if tier == "thorough" { (5, 8) } else { (4, 7) };
    let kinds1: Vec<usize> = if tier == "thorough" { vec![0, 1, 4, 3] } else { vec![0, 1] };
    let mut classes = [0u64; 4];
    for (vi, (voc, maxlen, kinds)) in [(vocab.clone(), l1, kinds1.clone()), (vocab2.clone(), l2, vec![0usize, 5])].into_iter().enumerate() {
        // split by first word across threads
        let nthreads = voc.len();
        let hs: Vec<_> = (0..nthreads).map(|first| {
            let voc = voc.clone();
            let kinds = kinds.clone();
            std::thread::spawn(move || {
                let mut rep = Report::new("enum");
                let mut cl = [0u64; 4];
                for len in 1..=maxlen {
                    let mut idx = vec![0usize; len];
                    idx[0] = first;
                    loop {
                        let words: Vec<&str> = idx.iter().map(|i| voc[*i]).collect();
                        let input: String = words.join(" ");
                        for &kd in &kinds {
                            let o = expand(&input, kd);
                            match &o {
                                Outcome::Ok(s) => {
                                    cl[0] += 1;
                                    let bad_member = member_access_operand_is_not_member(&words);
                                    let valid = s.parse::<proc_macro2::TokenStream>().ok().map(|t| syn::parse2::<syn::Expr>(t).is_ok()).unwrap_or(false);
                                    rep.check(valid || bad_member, &format!("[{}] {}", KINDS[kd].0, input), "accepted input expands to something that is not a Rust expression");
                                }
                                Outcome::SynErr(m) => { cl[1] += 1; rep.check(!m.is_empty(), &input, "syn error without a message"); }
                                Outcome::ConfigReject(m) => { cl[2] += 1; rep.check(!m.is_empty(), &input, "rejection without a message"); }
                                Outcome::OtherPanic(m) => {
                                    cl[3] += 1;
                                    // outside C15's quantifier: a `..` operand that is not a member access (e.g. `.. ( c )` inside a wrapper
                                    // reaches parse_quote! with `__v . ( c )`)
                                    let outside = member_access_operand_is_not_member(&words);
                                    rep.check(outside, &format!("[{}] {}", KINDS[kd].0, input), &format!("internal panic instead of a diagnostic: {}", m));
                                }
                            }
                        }
                        // next (keep idx[0] fixed)
                        let mut k = len;
                        let mut done = true;
                        while k > 1 {
                            k -= 1;
                            if idx[k] + 1 < voc.len() { idx[k] += 1; for j in k + 1..len { idx[j] = 0; } done = false; break; }
                        }
                        if done { break; }
                    }
                }
                (rep, cl)
            })
        }).collect();
        for h in hs {
            let (rep, cl) = h.join().unwrap();
            r.cases += rep.cases; r.passed += rep.passed;
            for f in rep.failures { if r.failures.len() < 40 { r.failures.push(f); } }
            for s_ in rep.samples { if r.samples.len() < 6 { r.samples.push(s_); } }
            for i in 0..4 { classes[i] += cl[i]; }
        }
        r.notes.push(format!("vocabulary {}: all sequences of length <= {} over {} words, kinds {:?}", vi + 1, maxlen, voc.len(), kinds));
    }
    r.notes.push(format!("outcome classes ok/syn/config/internal-panic = {:?}", classes));
    // non-trivial = the input got past the parser (accepted, or rejected by the configuration check, or panicked);
    // plain syn errors are the trivial bulk
    r.nontrivial = Some(classes[0] + classes[2] + classes[3]);
    r
}

/// C15's quantifier: "member-access operands are syntactically member accesses".  The operand of `..` is the
/// run of vocabulary words up to the next operator / comma / flag; it is a member access iff it is a single
/// identifier or the call `member ( 1 )`.
fn member_access_operand_is_not_member(words: &[&str]) -> bool {
    let is_sep = |w: &str| [",", "~", ">>>", "<<<", "|>", "=>", "->", "..", "<|", "?>", "??", "^@", "=>[]", "|n>", "^^>", "<->", "map =>", "then =>"].contains(&w);
    for (i, t) in words.iter().enumerate() {
        if *t == ".." {
            let mut j = i + 1;
            let mut opnd: Vec<&str> = Vec::new();
            while j < words.len() && !is_sep(words[j]) { opnd.push(words[j]); j += 1; }
            let ok = opnd == ["a"] || opnd == ["f"] || opnd == ["member ( 1 )"];
            if !ok { return true; }
        }
    }
    false
}

// ------------------------------------------------------------------ C20: purity
fn fam_purity(tier: &str) -> Report {
    let mut r = Report::new("purity");
    let inputs = [
        "Some(1) |> { let a = 1; move |v| v + a } ~=> { |v| Some(v) }, Some(2) |> { |v| v } ~|> { |v| v }, Some(3) ^@ { 0 }, { |a, b| a + b }",
        "let a = Ok::<u8,u8>(1) |> >>> |> { f } <<< ~=> g, let b = Ok::<u8,u8>(2) ~<| { Ok(3) }, Ok(3) -> { h }, map => |a, b, c| a + b + c",
        "x, y ~|> f, z ~|> g ~|> h, w ?? { i } ~?? { j } ~?? { k }, v => { a } => { b } => { c } => { d }",
        "xs.into_iter() =>[] Vec<u8>",
        "a ?|>@ f",
        "Some(1) => f",
        "it ?|> g",
        "custom_joiner(j) lazy_branches(true) a |> { b }, c |> { d }, e |> { f }, g |> { h }, i |> { j }, k |> { l }, m |> { n }, o |> { p }, q |> { r }, s |> { t }, u |> { v }, w |> { x }",
    ];
    let reps = if tier == "thorough" { 50 } else { 12 };
    for (ii, input) in inputs.iter().enumerate() {
        for k in 0..8 {
            if ii == 1 && !KINDS[k].2 { continue; }
            if ii == 0 && KINDS[k].2 { continue; }
            let first = expand(input, k);
            let mut same = true;
            // sequentially, interleaved with other expansions
            for rep in 0..reps {
                let _ = expand(inputs[(ii + rep + 1) % inputs.len()], (k + rep) % 8);
                if expand(input, k) != first { same = false; }
            }
            // concurrently from several threads
            let hs: Vec<_> = (0..4).map(|t| { let inp = input.to_string(); std::thread::spawn(move || { let mut v = Vec::new(); for q in 0..4 { let _ = expand("a |> { b }, c |> { d }", (t + q) % 8); v.push(expand(&inp, k)); } v }) }).collect();
            for h in hs { for o in h.join().unwrap() { if o != first { same = false; } } }
            r.check(same && matches!(first, Outcome::Ok(_)), &format!("[{}] {}", KINDS[k].0, input), "repeated / concurrent expansion of the same input is not token-for-token identical");
        }
    }
    // history independence: the expansion of an input in a long-lived thread, after (and before) every other input of a
    // corpus was expanded there, equals its expansion in a FRESH PROCESS (no thread-local or process-global state can
    // have been left behind by anything).  The corpus contains texts that are valid in one syntactic category and a
    // prefix of a valid text of another (`a < b` as an expression / `a<b, c>` as a type), operands that are
    // repeated verbatim across inputs, and all earlier inputs.
    let mut corpus: Vec<String> = inputs.iter().map(|s| s.to_string()).collect();
    for (x, y, z) in [("index", "low", "high"), ("a", "b", "c"), ("Vec", "u8", "A")] {
        corpus.push(format!("{x} < {y}, other |> f"));
        corpus.push(format!("xs.into_iter() =>[] {x} < {y}, {z} >"));
        corpus.push(format!("{x} < {y} |> f ~|> g"));
        corpus.push(format!("ps.into_iter() <-> {x} < {y}, {z} >, {z}, {x}, {y}"));
        corpus.push(format!("{x} > {y}, {x} >> {y} |> f, {x} >= {y}"));
        corpus.push(format!("{x} |> {y} ~=> {z}"));
        corpus.push(format!("{x} => {y} ~|> {z}"));
        corpus.push(format!("{x} |> >>> |> {y} <<< ~|> {z}"));
    }
    let exe = std::env::current_exe().unwrap();
    let fresh = |input: &str, k: usize| -> String {
        let o = std::process::Command::new(&exe).args(["expand", &k.to_string(), input]).output().unwrap();
        String::from_utf8_lossy(&o.stdout).trim().to_string()
    };
    // (input, macro kind): every corpus input under join / try_join, and inputs that carry options under the kinds the
    // options are meant for, so that a sync expansion is followed by an async one with async-only options and vice versa
    let mut items: Vec<(String, usize)> = Vec::new();
    for c in &corpus { for k in [0usize, 1] { items.push((c.clone(), k)); } }
    let async_kinds: Vec<usize> = (0..8).filter(|&k| KINDS[k].1).collect();
    for &k in &async_kinds {
        items.push(("futures_crate_path(::futures) a |> f, b ~|> g".to_string(), k));
        items.push(("custom_joiner(j) futures_crate_path(::my::futures) transpose_results(false) lazy_branches(true) a, b".to_string(), k));
    }
    for k in 0..8 {
        items.push(("custom_joiner(j) a |> f, b ~|> g".to_string(), k));
        items.push(("lazy_branches(true) transpose_results(true) a, b".to_string(), k));
    }
    // sync and async kinds alternate in the history
    let mut order0: Vec<usize> = (0..items.len()).collect();
    order0.sort_by_key(|&i| (i % 7, i));
    let base: Vec<String> = items.iter().map(|(c, k)| fresh(c, *k)).collect();
    let hist: Vec<Vec<String>> = std::thread::spawn({
        let items = items.clone();
        let order0 = order0.clone();
        move || {
            let mut passes = Vec::new();
            for pass in 0..3 {
                let mut v = vec![String::new(); items.len()];
                let order: Vec<usize> = match pass { 0 => (0..items.len()).collect(), 1 => (0..items.len()).rev().collect(), _ => order0.clone() };
                for i in order { v[i] = format!("{:?}", expand(&items[i].0, items[i].1)); }
                passes.push(v);
            }
            passes
        }
    }).join().unwrap();
    for (i, (c, k)) in items.iter().enumerate() {
        let same = hist.iter().all(|p| p[i] == base[i]);
        r.check(same, &format!("[{}] {}", KINDS[*k].0, c), "the expansion depends on which other inputs were expanded before it in the same thread (differs from a fresh process)");
    }
    r.exhaustive = false;
    r.notes.push(format!("{} repetitions interleaved with other inputs + 4 threads x 4 expansions per (input, kind); history independence: {} (input, macro kind) pairs incl. option-carrying inputs under all kinds, 3 orders vs a fresh process each", reps, items.len()));
    r
}

// ------------------------------------------------------------------ C10: operand linearity of the expansion
fn fam_linear() -> Report {
    let mut r = Report::new("linear");
    let ops1 = ["|>", "=>", "?>", "->", "<|", "<=", "!>", "??", ">@>", "?|>@", "?|>", "?&!>", "?@", ">^>"];
    let mut progs: Vec<String> = Vec::new();
    for (i, op) in ops1.iter().enumerate() {
        progs.push(format!("init0 {} m{}a", op, i));
        progs.push(format!("init0 ~{} {{ m{}a }}", op, i));
        progs.push(format!("init0 {} >>> {} m{}a <<< |> m{}b", if ["|>", "=>", "?>", "??", "?|>", "?@", "?|>@", "?&!>", "<=", "!>"].contains(op) { *op } else { "|>" }, op, i, i));
    }
    progs.push("init0 ^@ m0a, m0b ?^@ { m0c }, { m0d } .. m0e(m0f) =>[] m0g <-> m0h, m0i, m0j, m0k |n> ^^>".into());
    progs.push("let n0 = init0 |> m0a ~=> m0b, let n1 = init1 ~|> { m1a } ~<| { m1b }, init2 -> m2a, map => m3a".into());
    progs.push("init0 |> m0a, init1 |> m1a, then => m2a".into());
    for p in &progs {
        for k in 0..8 {
            let is_try = KINDS[k].2;
            if p.contains("map =>") && !is_try { continue; }
            if p.contains("then =>") && is_try { continue; }
            if let Outcome::Ok(s) = expand(p, k) {
                let toks: Vec<&str> = s.split(|c: char| !(c.is_alphanumeric() || c == '_')).filter(|t| !t.is_empty()).collect();
                let mut ok = true;
                let mut why = String::new();
                for w in p.split(|c: char| !(c.is_alphanumeric() || c == '_')).filter(|t| t.starts_with('m') && t.len() >= 3 && t.as_bytes()[1].is_ascii_digit() || t.starts_with("init")) {
                    let c = toks.iter().filter(|t| **t == w).count();
                    if c != 1 { ok = false; why = format!("operand `{}` occurs {} times in the expansion", w, c); }
                }
                r.check(ok, &format!("[{}] {}", KINDS[k].0, p), &why);
            } else {
                r.check(false, &format!("[{}] {}", KINDS[k].0, p), "program did not expand");
            }
        }
    }
    r
}

// ------------------------------------------------------------------ C14: parsed structure == structure the input was rendered from
#[derive(Clone, Debug, PartialEq)]
struct Act { op: &'static str, deferred: bool, wrap: bool, operands: Vec<String> }

fn variant_name(e: &ActionExpr) -> String {
    let d = format!("{:?}", e);
    // "Process(Map([..." -> "Map"
    let inner = d.splitn(2, '(').nth(1).unwrap_or("");
    inner.chars().take_while(|c| c.is_alphanumeric() || *c == '_').collect()
}

const OPS: [(&str, &str, usize); 23] = [
    ("|>", "Map", 1), ("=>", "AndThen", 1), ("?>", "Filter", 1), ("..", "Dot", 1), (">.", "Dot", 1), ("->", "Then", 1),
    ("<|", "Or", 1), ("<=", "OrElse", 1), ("!>", "MapErr", 1), ("=>[]", "Collect", 9), (">@>", "Chain", 1), ("?|>@", "FindMap", 1),
    ("?|>", "FilterMap", 1), ("|n>", "Enumerate", 0), ("?&!>", "Partition", 1), ("^^>", "Flatten", 0), ("^@", "Fold", 2),
    ("?^@", "TryFold", 2), ("?@", "Find", 1), (">^>", "Zip", 1), ("<->", "Unzip", 8), ("??", "Inspect", 1), ("<<<", "UNWRAP", 0),
];
const WRAPPERS: [&str; 10] = ["|>", "=>", "?>", "??", "?|>", "?@", "?|>@", "?&!>", "<=", "!>"];

fn fam_structure(tier: &str) -> Report {
    let mut r = Report::new("structure");
    // operands without a top-level split point (look-alikes inside groups / incomplete operands)
    let operands: Vec<&str> = vec![
        "f", "|v| v + 1", "|x| -> u8 { x + 1 }", "|v| v << 2", "a >> b", "then", "a + map", "!and_then", "fill::<{ W + 1 }, u8>(7)", "|Acc { n }, v| n + v",
        "|v: u8| -> Buf<{ W }, u8> { v }", "|x: Vec<Vec<u8>>| x", "g::<u8, u16>", "(|x| -> u8 { x }, b..c)", "[a <= b, c >> 1]",
        "{ match a { 1 => b, _ => c } }", "m!(a |> b, c <<< d ~ e)", "\"|> => ~ , <<<\"", "h(|a| -> u8 { a }, b..c)", "a >> 2", "a < b", "a == b", "(a..b)",
        "if a > b { c } else { d }", "match a { 1 => b, _ => c }", "&mut a", "a as u8", "-a",
        // operands ending with an index, a field, a macro call, a turbofish call (the try operator: section 7)
        "a[0]", "a.b.0", "m![a, b]", "c::<u8>()",
    ];
    let opn = if tier == "thorough" { operands.len() } else { 19 };
    let _ = opn;
    let opn = operands.len().min(if tier == "thorough" { operands.len() } else { 34 });
    let mut render_hx = |acts: &[Act], init: &str, handler: Option<(&str, bool)>, hexpr: &str, r: &mut Report| {
        let mut s = String::from(init);
        let mut exp: Vec<(String, bool, &str, Vec<String>)> = vec![("Single".into(), false, "None", vec![squeeze(init)])];
        let mut depth = 0i32;
        for a in acts {
            s.push(' ');
            if a.deferred { s.push('~'); depth = 0; }
            s.push_str(a.op);
            let (_, vname, _) = OPS.iter().find(|o| o.0 == a.op).unwrap();
            if a.wrap {
                s.push_str(" >>>");
                depth += 1;
                exp.push((vname.to_string(), a.deferred, "Wrap", vec!["|__v|__v".into()]));
            } else {
                s.push(' ');
                s.push_str(&a.operands.join(", "));
                if a.op == "<<<" { depth -= 1; }
                exp.push((vname.to_string(), a.deferred, if a.op == "<<<" { "Unwrap" } else { "None" }, a.operands.iter().map(|o| squeeze(o)).collect()));
            }
        }
        let _ = depth;
        // two branches so that the separating comma is exercised too
        // optionally a handler right behind the branch (with or without the separating comma: after a branch that ends
        // with a `{..}` operand the comma is optional, the handler keyword itself ends the operand)
        let input = match handler {
            Some((kw, comma)) => format!("{}{} {} => {}, tail0 |> tail1", s, if comma { "," } else { "" }, kw, hexpr),
            None => format!("{}, tail0 |> tail1", s),
        };
        let parsed = input.parse::<proc_macro2::TokenStream>().ok().and_then(|t| syn::parse2::<JoinInputDefault>(t).ok());
        match parsed {
            None => r.check(false, &input, "well-formed chain rejected by the parser"),
            Some(p) => {
                let mut ok = p.branches.len() == 2 && p.branches[0].members().len() == exp.len();
                let mut why = format!("parsed into {} branches / {} members, expected 2 / {}", p.branches.len(), p.branches.get(0).map(|b| b.members().len()).unwrap_or(0), exp.len());
                let hk = match &p.handler { None => "none", Some(h) if h.is_map() => "map", Some(h) if h.is_then() => "then", Some(_) => "and_then" };
                if ok && hk != handler.map(|h| h.0).unwrap_or("none") {
                    ok = false;
                    why = format!("handler parsed as `{}`, written as `{}`", hk, handler.map(|h| h.0).unwrap_or("none"));
                }
                if let (true, Some(h)) = (ok && handler.is_some(), &p.handler) {
                    let got = squeeze(&h.extract_expr().to_token_stream().to_string());
                    if got != squeeze(hexpr) {
                        ok = false;
                        why = format!("handler expression parsed as `{}`, written as `{}`", got, squeeze(hexpr));
                    }
                }
                if ok {
                    for (m, e) in p.branches[0].members().iter().zip(exp.iter()) {
                        let vn = variant_name(m.expr());
                        let df = *m.application_type() == ApplicationType::Deferred;
                        let mv = match m.move_type() { MoveType::Wrap => "Wrap", MoveType::Unwrap => "Unwrap", MoveType::None => "None" };
                        let ops: Vec<String> = match m.expr() {
                            ActionExpr::Process(ProcessExpr::Collect(t)) => t.iter().flat_map(|a| a.iter()).map(|t| squeeze(&t.to_token_stream().to_string())).collect(),
                            ActionExpr::Process(ProcessExpr::Unzip(t)) => t.iter().flat_map(|a| a.iter()).map(|t| squeeze(&t.to_token_stream().to_string())).collect(),
                            other => other.inner_exprs().map(|es| es.iter().map(|e| squeeze(&e.to_token_stream().to_string())).collect()).unwrap_or_default(),
                        };
                        if vn != e.0 || df != e.1 || mv != e.2 || ops != e.3 {
                            ok = false;
                            why = format!("member parsed as ({}, deferred={}, {}, {:?}), rendered from ({}, deferred={}, {}, {:?})", vn, df, mv, ops, e.0, e.1, e.2, e.3);
                            break;
                        }
                    }
                }
                r.check(ok, &input, &why);
            }
        }
    };
    let mut render_h = |acts: &[Act], init: &str, handler: Option<(&str, bool)>, r: &mut Report| render_hx(acts, init, handler, "|a, b| h(a, b)", r);
    let mut render = |acts: &[Act], init: &str, r: &mut Report| render_h(acts, init, None, r);
    let operand_for = |op: &str, k: usize| -> Vec<String> {
        let (_, _, ar) = OPS.iter().find(|o| o.0 == op).unwrap();
        match *ar {
            0 => vec![],
            1 if op == "=>" && operands[k % opn].starts_with('[') => vec!["f".to_string()], // `=> [..]` IS the documented `=>[]`
            1 => vec![if op == ".." || op == ">." { ["len()", "field", "0", "map(|x| -> u8 { x })", "iter().map(|a| -> u8 { a })"][k % 5].to_string() } else { operands[k % opn].to_string() }],
            2 => vec![operands[k % opn].to_string(), operands[(k * 7 + 3) % opn].to_string()],
            9 => if k % 2 == 0 { vec!["Vec<Vec<u8>>".to_string()] } else { vec![] },
            8 => if k % 2 == 0 { vec!["u8".into(), "Vec<u8>".into(), "Vec<u8>".into(), "std::collections::HashMap<u8, Vec<u8>>".into()] } else { vec![] },
            _ => vec![],
        }
    };
    // 1. every operator x deferred x every operand shape
    for (op, _, _) in OPS.iter() {
        if *op == "<<<" { continue; }
        for k in 0..opn.max(5) {
            for deferred in [false, true] {
                render(&[Act { op, deferred, wrap: false, operands: operand_for(op, k) }], "Some(1)", &mut r);
            }
        }
    }
    // 2. all adjacent operator pairs x deferred flags (operand-less operators followed by any other included)
    for (i, (op1, _, _)) in OPS.iter().enumerate() {
        for (j, (op2, _, _)) in OPS.iter().enumerate() {
            if *op1 == "<<<" || *op2 == "<<<" { continue; }
            for d in 0..4 {
                render(&[Act { op: op1, deferred: d & 1 == 1, wrap: false, operands: operand_for(op1, i + j) }, Act { op: op2, deferred: d & 2 == 2, wrap: false, operands: operand_for(op2, i * 3 + j) }], "init()", &mut r);
            }
        }
    }
    // 3. wrappers: `X >>> Y .. <<< Z`, nested, implicit closing
    for w in WRAPPERS.iter() {
        for (j, (op2, _, _)) in OPS.iter().enumerate() {
            if *op2 == "<<<" { continue; }
            for d in 0..2 {
                let inner = Act { op: op2, deferred: false, wrap: false, operands: operand_for(op2, j) };
                let close = Act { op: "<<<", deferred: false, wrap: false, operands: vec![] };
                let after = Act { op: "|>", deferred: d == 1, wrap: false, operands: vec!["after".into()] };
                render(&[Act { op: w, deferred: d == 1, wrap: true, operands: vec![] }, inner.clone(), close.clone(), after.clone()], "x", &mut r);
                render(&[Act { op: w, deferred: false, wrap: true, operands: vec![] }, Act { op: w, deferred: false, wrap: true, operands: vec![] }, inner.clone(), close.clone(), close.clone()], "x", &mut r);
                render(&[Act { op: w, deferred: false, wrap: true, operands: vec![] }, inner.clone()], "x", &mut r);
            }
        }
    }
    // 4. initial values of every operand shape, with `let`
    for k in 0..opn {
        render(&[Act { op: "|>", deferred: false, wrap: false, operands: vec!["f".into()] }], &format!("({})", operands[k]), &mut r);
    }
    // 5. operands that are spelled like a handler keyword (a function or closure named `then` / `map` / `and_then`) directly
    //    followed by the `=>` operator: an operand, not a handler (a handler only ever starts a comma-separated item)
    for (op1, _, _) in OPS.iter() {
        if ["<<<", "..", ">.", "^@", "?^@", "<->", "=>[]", "?&!>"].contains(op1) { continue; }
        if operand_for(op1, 0).len() != 1 { continue; }
        for kw in ["then", "map", "and_then"] {
            for d in 0..4 {
                render(&[Act { op: op1, deferred: d & 1 == 1, wrap: false, operands: vec![kw.to_string()] }, Act { op: "=>", deferred: d & 2 == 2, wrap: false, operands: vec!["|v| Some(v)".to_string()] }], "init()", &mut r);
            }
        }
    }
    // 6. a handler directly behind a branch: after every one-operand operator, the last operand plain or a `{..}` block,
    //    with the separating comma and (block operands only: there the comma is optional) without it
    drop(render);
    for (op1, _, _) in OPS.iter() {
        if ["<<<", "..", ">.", "^@", "?^@", "<->", "=>[]", "?&!>"].contains(op1) { continue; }
        if operand_for(op1, 0).len() != 1 { continue; }
        for kw in ["then", "map", "and_then"] {
            for d in [false, true] {
                for (operand, comma) in [("f", true), ("{ let k = 2; move |v| v * k }", true), ("{ let k = 2; move |v| v * k }", false), ("{ match a { 1 => map, _ => then } }", false)] {
                    render_h(&[Act { op: op1, deferred: d, wrap: false, operands: vec![operand.to_string()] }], "init()", Some((kw, comma)), &mut r);
                }
            }
        }
        // a block INITIAL value directly followed by a handler
        for kw in ["then", "map", "and_then"] {
            render_h(&[], "{ init() }", Some((kw, false)), &mut r);
        }
    }
    // 9. handler EXPRESSIONS of every shape (the handler is any expression): closures whose body is a bare struct literal,
    //    a path, a call, a block, a method chain on a struct literal - first, in the middle (before `tail0`), after a block
    drop(render_h);
    for kw in ["then", "map", "and_then"] {
        for hx in ["|a, b| Pair { a, b }", "|a, b| Shape::Rect { w: a, h: b }.area()", "Pair::new", "mk_handler(1)", "{ let k = 1; move |a, b| a + b + k }",
                   "|a: u8, b: u8| -> Pair { Pair { a, b } }", "move |a, b| if a > b { a } else { b }", "|a, b| match a { 0 => b, _ => a }"] {
            render_hx(&[Act { op: "|>", deferred: false, wrap: false, operands: vec!["f".to_string()] }], "init()", Some((kw, true)), hx, &mut r);
            render_hx(&[Act { op: "|>", deferred: true, wrap: false, operands: vec!["{ g }".to_string()] }], "init()", Some((kw, false)), hx, &mut r);
        }
    }
    // 7. operands ENDING with the try operator `?` are complete operands: followed by the end of the branch, by a deferred
    //    operator, or by an operator whose first character does not form another documented operator with that `?`
    //    (`a? >^> b` IS `a ?> ^> b`: the spelling is ambiguous by design, so those are left out)
    for (op1, _, _) in OPS.iter() {
        if ["<<<", "..", ">.", "^@", "?^@", "<->", "=>[]", "?&!>"].contains(op1) { continue; }
        if operand_for(op1, 0).len() != 1 { continue; }
        for q in ["a?", "g(x)?.h()?"] {
            let amb1 = [">", "|", "@", "?", "^", "&"].iter().any(|c| op1.starts_with(c));
            render_h(&[Act { op: op1, deferred: false, wrap: false, operands: vec![q.to_string()] }], if amb1 { "init()" } else { "init()?" }, None, &mut r);
            render_h(&[Act { op: op1, deferred: true, wrap: false, operands: vec![q.to_string()] }], "init()?", None, &mut r);
            for (op2, _, _) in OPS.iter() {
                if *op2 == "<<<" { continue; }
                for d in [false, true] {
                    if !d && [">", "|", "@", "?", "^", "&"].iter().any(|c| op2.starts_with(c)) { continue; }
                    render_h(&[Act { op: op1, deferred: false, wrap: false, operands: vec![q.to_string()] }, Act { op: op2, deferred: d, wrap: false, operands: operand_for(op2, 0) }], "init()", None, &mut r);
                }
            }
        }
    }
    // 8a. an EMPTY wrapper (opened, nothing inside) directly followed by a deferred operator: closed at the end of its step,
    //     it stays a member, and a `~` on the wrapper still starts a step
    for w in WRAPPERS.iter() {
        for d in [false, true] {
            render_h(&[Act { op: w, deferred: d, wrap: true, operands: vec![] }, Act { op: "|>", deferred: true, wrap: false, operands: vec!["after".into()] }], "x", None, &mut r);
            render_h(&[Act { op: "|>", deferred: false, wrap: false, operands: vec!["f".into()] }, Act { op: w, deferred: d, wrap: true, operands: vec![] }, Act { op: w, deferred: true, wrap: true, operands: vec![] },
                       Act { op: "=>", deferred: true, wrap: false, operands: vec!["g".into()] }], "x", None, &mut r);
        }
    }
    // 8. several wrappers in one branch, each closed explicitly right before a deferred operator (`X >>> i <<< ~Y >>> j <<< ~Z k`):
    //    every member survives, in order
    for w in WRAPPERS.iter() {
        for n in 2..=3usize {
            let mut acts: Vec<Act> = Vec::new();
            for k in 0..n {
                acts.push(Act { op: w, deferred: k > 0, wrap: true, operands: vec![] });
                acts.push(Act { op: "|>", deferred: false, wrap: false, operands: vec![format!("inner{}", k)] });
                acts.push(Act { op: "<<<", deferred: false, wrap: false, operands: vec![] });
            }
            acts.push(Act { op: "|>", deferred: true, wrap: false, operands: vec!["last".into()] });
            acts.push(Act { op: "=>", deferred: false, wrap: false, operands: vec!["after_last".into()] });
            render_h(&acts, "x", None, &mut r);
        }
    }
    r.exhaustive = true;
    r.notes.push(format!("22 operators x deferred x {} operand shapes; all adjacent pairs x 4 deferred patterns; 10 wrappers x 22 inner operators x 3 closing shapes; handler-keyword operands followed by `=>`; a handler directly behind a branch (with / without comma after a block operand)", opn));
    r
}

// ------------------------------------------------------------------ replay for engine V: real emitters vs documented calls
fn fam_emit() -> Report {
    let mut r = Report::new("emit");
    let e = |s: &str| -> syn::Expr { syn::parse_str(s).unwrap() };
    let t = |s: &str| -> syn::Type { syn::parse_str(s).unwrap() };
    let ops = ["|v| v + 1", "f", "{ a }", "g(h)"];
    for o in ops.iter() {
        let x = e(o);
        let xs = norm(&x.to_token_stream().to_string());
        let cases: Vec<(&str, ProcessExpr, String)> = vec![
            ("|>", ProcessExpr::Map([x.clone()]), format!(". map ({})", xs)),
            ("=>", ProcessExpr::AndThen([x.clone()]), format!(". and_then ({})", xs)),
            ("?>", ProcessExpr::Filter([x.clone()]), format!(". filter ({})", xs)),
            ("..", ProcessExpr::Dot([x.clone()]), format!(". {}", xs)),
            (">@>", ProcessExpr::Chain([x.clone()]), format!(". chain ({})", xs)),
            ("?|>@", ProcessExpr::FindMap([x.clone()]), format!(". find_map ({})", xs)),
            ("?|>", ProcessExpr::FilterMap([x.clone()]), format!(". filter_map ({})", xs)),
            ("?&!>", ProcessExpr::Partition([x.clone()]), format!(". partition ({})", xs)),
            ("?@", ProcessExpr::Find([x.clone()]), format!(". find ({})", xs)),
            (">^>", ProcessExpr::Zip([x.clone()]), format!(". zip ({})", xs)),
            ("^@", ProcessExpr::Fold([x.clone(), e("k")]), format!(". fold ({} , k)", xs)),
            ("?^@", ProcessExpr::TryFold([x.clone(), e("k")]), format!(". try_fold ({} , k)", xs)),
            ("|n>", ProcessExpr::Enumerate, ". enumerate ()".into()),
            ("^^>", ProcessExpr::Flatten, ". flatten ()".into()),
            ("=>[]", ProcessExpr::Collect(None), ". collect ()".into()),
            ("=>[] T", ProcessExpr::Collect(Some([t("Vec<u8>")])), ". collect :: < Vec < u8 > > ()".into()),
            ("<->", ProcessExpr::Unzip(None), ". unzip ()".into()),
            ("<-> A,B,C,D", ProcessExpr::Unzip(Some([t("A"), t("B"), t("C"), t("D")])), ". unzip :: < A , B , C , D > ()".into()),
        ];
        for (op, pe, want) in cases {
            let got = norm(&pe.to_token_stream().to_string());
            r.check(got == norm(&want), &format!("ProcessExpr for `{}` with operand `{}`", op, o), &format!("to_tokens printed `{}`, documented call is `{}`", got, want));
            // replace_inner_exprs keeps the operator
            if let Some(es) = pe.inner_exprs() {
                let es: Vec<syn::Expr> = es.to_vec();
                if !matches!(pe, ProcessExpr::Dot(_)) {
                    let rep = pe.clone().replace_inner_exprs(&es);
                    r.check(rep.as_ref() == Some(&pe), &format!("ProcessExpr for `{}`: replace_inner_exprs(inner_exprs())", op), &format!("got {:?}", rep.map(|x| norm(&x.to_token_stream().to_string()))));
                }
            }
        }
        let ecases: Vec<(&str, ErrExpr, String)> = vec![
            ("<|", ErrExpr::Or([x.clone()]), format!(". or ({})", xs)),
            ("<=", ErrExpr::OrElse([x.clone()]), format!(". or_else ({})", xs)),
            ("!>", ErrExpr::MapErr([x.clone()]), format!(". map_err ({})", xs)),
        ];
        for (op, ee, want) in ecases {
            let got = norm(&ee.to_token_stream().to_string());
            r.check(got == norm(&want), &format!("ErrExpr for `{}` with operand `{}`", op, o), &format!("to_tokens printed `{}`, documented call is `{}`", got, want));
            let rep = ee.clone().replace_inner_exprs(&[x.clone()]);
            r.check(rep.as_ref() == Some(&ee), &format!("ErrExpr for `{}`: replace_inner_exprs", op), &format!("got {:?}", rep.map(|x| norm(&x.to_token_stream().to_string()))));
        }
        let ie = InitialExpr::Single([x.clone()]);
        r.check(norm(&ie.to_token_stream().to_string()) == xs, &format!("InitialExpr `{}`", o), "initial value not printed verbatim");
    }
    // finite-domain predicates (exhaustive, hence complete; also the replay inputs for the corresponding Verus obligations)
    {
        use join_impl::chain::group::Combinator as C;
        let all = [C::Map, C::Dot, C::Filter, C::Inspect, C::Then, C::AndThen, C::Or, C::OrElse, C::MapErr, C::Initial, C::Chain, C::Flatten,
            C::Collect, C::Enumerate, C::Find, C::Fold, C::TryFold, C::Unzip, C::Zip, C::Partition, C::FilterMap, C::FindMap, C::UNWRAP];
        let ten = [C::Map, C::AndThen, C::Filter, C::Inspect, C::FilterMap, C::Find, C::FindMap, C::Partition, C::OrElse, C::MapErr];
        for c in all.iter() {
            r.check(c.can_be_wrapper() == ten.contains(c), &format!("Combinator::{:?}.can_be_wrapper()", c), &format!("got {}, documented wrapper-capable: {}", c.can_be_wrapper(), ten.contains(c)));
        }
        let x = e("f");
        let pes: Vec<(ProcessExpr, bool)> = vec![
            (ProcessExpr::Map([x.clone()]), true), (ProcessExpr::Then([x.clone()]), true), (ProcessExpr::AndThen([x.clone()]), true), (ProcessExpr::Filter([x.clone()]), true),
            (ProcessExpr::FindMap([x.clone()]), true), (ProcessExpr::Inspect([x.clone()]), true), (ProcessExpr::Chain([x.clone()]), true), (ProcessExpr::FilterMap([x.clone()]), true),
            (ProcessExpr::Find([x.clone()]), true), (ProcessExpr::Fold([x.clone(), x.clone()]), true), (ProcessExpr::Partition([x.clone()]), true),
            (ProcessExpr::TryFold([x.clone(), x.clone()]), true), (ProcessExpr::Zip([x.clone()]), true), (ProcessExpr::Dot([x.clone()]), false),
        ];
        for (pe, want) in pes {
            r.check(pe.is_replaceable() == want, &format!("{:?}.is_replaceable()", norm(&format!("{:?}", pe)).chars().take(40).collect::<String>()),
                &format!("got {}, but operators with expression operands hoist block operands and member access never does (want {})", pe.is_replaceable(), want));
            let n = pe.inner_exprs().map(|v| v.len()).unwrap_or(0);
            r.check(n == if matches!(pe, ProcessExpr::Fold(_) | ProcessExpr::TryFold(_)) { 2 } else { 1 }, "inner_exprs exposes all operands", "wrong operand count");
        }
    }
    // end to end: spelling -> parser -> generator: the expansion contains the documented call
    let e2e = [
        ("|> f", ". map (f)"), ("=> f", ". and_then (f)"), ("?> f", ". filter (f)"), (".. f()", ". f ()"), (">. f()", ". f ()"), ("<| f", ". or (f)"),
        ("<= f", ". or_else (f)"), ("!> f", ". map_err (f)"), ("=>[] T", ". collect :: < T > ()"), (">@> f", ". chain (f)"), ("?|>@ f", ". find_map (f)"),
        ("?|> f", ". filter_map (f)"), ("|n>", ". enumerate ()"), ("?&!> f", ". partition (f)"), ("^^>", ". flatten ()"), ("^@ i, f", ". fold (i , f)"),
        ("?^@ i, f", ". try_fold (i , f)"), ("?@ f", ". find (f)"), (">^> f", ". zip (f)"), ("<-> A, B, C, D", ". unzip :: < A , B , C , D > ()"),
        ("?? f", "__inspect (f ,"), ("-> f", "{ let __handler = f ; __handler }"),
    ];
    for (src, want) in e2e.iter() {
        let input = format!("x {}", src);
        let o = expand(&input, 0);
        let ok = matches!(&o, Outcome::Ok(s) if norm(s).contains(&norm(want)));
        r.check(ok, &input, &format!("expansion does not contain the documented call `{}`: {:?}", want, trunc(&o)));
    }
    r
}

fn main() {
    std::panic::set_hook(Box::new(|_| {}));
    let a: Vec<String> = std::env::args().collect();
    let tier = a.get(2).map(|s| s.as_str()).unwrap_or("quick");
    let rep = match a.get(1).map(|s| s.as_str()) {
        Some("options") => fam_options(),
        Some("reject") => fam_reject(),
        Some("enum") => fam_enum(tier),
        Some("purity") => fam_purity(tier),
        Some("linear") => fam_linear(),
        Some("structure") => fam_structure(tier),
        Some("emit") => fam_emit(),
        Some("expand") => { println!("{:?}", expand(&a[3], a[2].parse().unwrap())); return; }
        _ => { eprintln!("usage: rac <options|reject|enum|purity|linear|structure|emit> [tier]"); std::process::exit(2); }
    };
    rep.print();
}
