//! Engine R, family `futures_path` (C16, bounded stand-in): in this crate the `futures` crate is only reachable under
//! the name `fut`, so an expansion that still mentions `::futures` anywhere does not compile.
#![allow(unused)]
use join::*;

fn jstr(s: &str) -> String { format!("\"{}\"", s.replace('\\', "\\\\").replace('"', "\\\"")) }

async fn progs(a: u8) -> Vec<(String, String, String)> {
    let mut v = Vec::new();
    v.push(("join_async".to_string(),
        format!("{:?}", join_async! { futures_crate_path(::fut) fut::future::ready(a) |> |x| x.wrapping_add(1) ~|> |x| x, fut::future::ready(2u8) ?? |_x| {}, fut::future::ready(3u8) ~|> |x| x + 1 }.await),
        format!("{:?}", (a.wrapping_add(1), 2u8, 4u8))));
    v.push(("try_join_async".to_string(),
        format!("{:?}", try_join_async! { futures_crate_path(::fut) fut::future::ok::<u8, u8>(a) => |x| fut::future::ok::<u8, u8>(x) ~|> |r: Result<u8, u8>| r, fut::future::ok::<u8, u8>(2), map => |x: u8, y: u8| x.wrapping_add(y) }.await),
        format!("{:?}", Ok::<u8, u8>(a.wrapping_add(2)))));
    v.push(("join_async_spawn".to_string(),
        format!("{:?}", join_async_spawn! { futures_crate_path(::fut) fut::future::ready(a) |> |x| x.wrapping_add(1), fut::future::ready(2u8) ~|> |x| x + 1 }.await),
        format!("{:?}", (a.wrapping_add(1), 3u8))));
    v.push(("try_join_async_spawn".to_string(),
        format!("{:?}", try_join_async_spawn! { futures_crate_path(::fut) fut::future::ok::<u8, u8>(a), fut::future::ok::<u8, u8>(2) ~|> |r: Result<u8, u8>| r, and_then => |x: u8, y: u8| fut::future::ok::<u8, u8>(x.wrapping_add(y)) }.await),
        format!("{:?}", Ok::<u8, u8>(a.wrapping_add(2)))));
    v.push(("async_spawn (alias)".to_string(),
        format!("{:?}", async_spawn! { futures_crate_path(::fut) fut::future::ready(a), fut::future::ready(1u8) }.await),
        format!("{:?}", (a, 1u8))));
    v
}

fn main() {
    let rt = tokio::runtime::Builder::new_multi_thread().worker_threads(2).enable_all().build().unwrap();
    let mut cases = 0u64; let mut passed = 0u64;
    let mut failures: Vec<(String, String)> = Vec::new();
    let mut samples: Vec<String> = Vec::new();
    for a in [0u8, 9, 255] {
        for (name, got, want) in rt.block_on(progs(a)) {
            cases += 1;
            if got == want { passed += 1; if samples.len() < 4 { samples.push(format!("{} with futures_crate_path(::fut), a={}: {}", name, a, got)); } }
            else { failures.push((format!("{} with futures_crate_path(::fut), a={}", name, a), format!("got {}, expected {}", got, want))); }
        }
    }
    let f: Vec<String> = failures.iter().map(|(i, w)| format!("{{\"input\":{},\"what\":{}}}", jstr(i), jstr(w))).collect();
    let s: Vec<String> = samples.iter().map(|x| jstr(x)).collect();
    println!("{{\"family\":\"futures_path\",\"cases\":{},\"passed\":{},\"nontrivial\":{},\"exhaustive\":false,\"failures\":[{}],\"samples\":[{}],\"notes\":[{}]}}",
        cases, passed, cases, f.join(","), s.join(","), jstr("5 async programs (4 kinds + alias) compiled in a crate where `::futures` does not exist; the build itself is the check that every futures item comes from the given path"));
}
