//! Engine R, family `spawn_agree` (C07, bounded stand-in): the same program instantiated under every macro of an
//! agreement class must produce the same result, from named and unnamed calling threads.
//! One OS-thread / task schedule per run (repeated REPS times): NOT a proof over schedules.
#![allow(unused)]
use join::*;

// block captures run on the CALLING thread, before the step, in every variant: the caller's value of this thread-local is
// 100, a spawned thread / task would see 0
thread_local! { static OFF: std::cell::Cell<u8> = std::cell::Cell::new(0); }
fn off() -> u8 { OFF.with(|c| c.get()) }

macro_rules! sync_try_progs {
    ($m:ident, $a:expr) => {{
        let a: u8 = $a;
        let mut out: Vec<String> = Vec::new();
        out.push(format!("{:?}", $m! { Ok::<u8, u8>(a) |> |v| v.wrapping_add(1) ~=> |v| Ok::<u8, u8>(v.wrapping_mul(2)), Ok::<u8, u8>(2) ~|> |v| v + 3, Ok::<u8, u8>(5) }));
        out.push(format!("{:?}", $m! { Ok::<u8, u8>(a), Err::<u8, u8>(7) ~|> |v| v + 1, Ok::<u8, u8>(1) ~=> |_v| Err::<u8, u8>(9) }));
        out.push(format!("{:?}", $m! { Ok::<u8, u8>(1), Ok::<u8, u8>(a) ~=> |v| if v > 100 { Err(v) } else { Ok(v) } ~|> |v| v + 1, Ok::<u8, u8>(3) ~|> |v| v ~=> |v| if v > 2 { Err::<u8, u8>(42) } else { Ok(v) } }));
        out.push(format!("{:?}", $m! { Some(a) |> |v| v.wrapping_add(1), Some(2u8) ~?> |v| *v > 1, Some(3u8), map => |x: u8, y: u8, z: u8| x.wrapping_add(y).wrapping_add(z) }));
        out.push(format!("{:?}", $m! { Some(a) ~|> { let k = 2u8; move |v: u8| v.wrapping_add(k) } ~|> |v| v, let n = Some(4u8) ~|> |v| v + 1 }));
        out.push(format!("{:?}", $m! { Some(Some(a)) |> >>> |> |v: u8| v.wrapping_add(1) <<< ~|> |v| v, Some(Some(1u8)) }));
        // block operands of every operator family read the caller's thread-local
        out.push(format!("{:?}", $m! { Some(a) |> { let o = off(); move |v: u8| v.wrapping_add(o) } => { let o = off(); move |v: u8| Some(v.wrapping_add(o)) }, { let o = off(); Some(o) } -> { let o = off(); move |v: Option<u8>| v.map(|x| x.wrapping_add(o)) } ~-> { let o = off(); move |v: Option<u8>| v.map(|x| x.wrapping_add(o)) } }));
        out.push(format!("{:?}", $m! { Ok::<u8, u8>(a) ~=> { let o = off(); move |v: u8| if v > 250 { Err(o) } else { Ok(v.wrapping_add(o)) } } ~<= { let o = off(); move |e: u8| Ok::<u8, u8>(e.wrapping_add(o)) }, Err::<u8, u8>(1) <| { let o = off(); Ok::<u8, u8>(o) } ~!> { let o = off(); move |e: u8| e.wrapping_add(o) } ~?? { let o = off(); move |r: &Result<u8, u8>| { let _ = (r, o); } } }));
        out
    }};
}

macro_rules! sync_progs {
    ($m:ident, $a:expr) => {{
        let a: u8 = $a;
        let mut out: Vec<String> = Vec::new();
        out.push(format!("{:?}", $m! { Some(a) |> |v| v.wrapping_add(1) ~=> |v| Some(v.wrapping_mul(2)), Err::<u8, u8>(2) ~<| Ok::<u8, u8>(3), vec![a, 2, 3].into_iter() ?> |v: &u8| *v > 1 =>[] Vec<u8> }));
        out.push(format!("{:?}", $m! { Some(a), Some(2u8) ~|> |v| v + 1, Some(3u8) ~|> |v| v ~|> |v| v * 2, then => |x: Option<u8>, y: Option<u8>, z: Option<u8>| (z, y, x) }));
        out.push(format!("{:?}", $m! { Some(a) ~|> |v| v }));
        out.push(format!("{:?}", $m! { a -> |v: u8| v.wrapping_add(3), Some(1u8) ?? |_v| {}, Some(2u8) ~<= || Some(9) }));
        out.push(format!("{:?}", $m! { a -> { let o = off(); move |v: u8| v.wrapping_add(o) } ~-> { let o = off(); move |v: u8| v.wrapping_add(o) }, vec![a, 2, 3].into_iter() ?> { let o = off(); move |v: &u8| *v < o } |> { let o = off(); move |v: u8| v.wrapping_add(o) } ^@ { off() }, { let o = off(); move |acc: u8, v: u8| acc.wrapping_add(v).wrapping_add(o) }, { let o = off(); Some(o) } |> >>> -> { let o = off(); move |v: u8| v.wrapping_add(o) } <<< }));
        out
    }};
}

macro_rules! async_progs {
    ($m:ident, $a:expr) => {{
        let a: u8 = $a;
        let mut out: Vec<String> = Vec::new();
        out.push(format!("{:?}", $m! { futures::future::ready(a) |> |v| v.wrapping_add(1), futures::future::ready(2u8) ~|> |v| v + 3, async { 5u8 } }.await));
        out.push(format!("{:?}", $m! { futures::future::ready(a) ~|> |v| v, futures::future::ready(2u8), futures::future::ready(3u8) ~|> |v| v ~|> |v| v + 1, then => |x: u8, y: u8, z: u8| futures::future::ready(x.wrapping_add(y + z)) }.await));
        out
    }};
}

macro_rules! async_try_progs {
    ($m:ident, $a:expr) => {{
        let a: u8 = $a;
        let mut out: Vec<String> = Vec::new();
        out.push(format!("{:?}", $m! { futures::future::ok::<u8, u8>(a) => |v| futures::future::ok::<u8, u8>(v.wrapping_add(1)), futures::future::ok::<u8, u8>(2) ~|> |r: Result<u8, u8>| r.map(|v| v + 3), futures::future::ok::<u8, u8>(5) }.await));
        out.push(format!("{:?}", $m! { futures::future::ok::<u8, u8>(a), futures::future::ok::<u8, u8>(2) ~=> |_v| futures::future::err::<u8, u8>(9), map => |x: u8, y: u8| x.wrapping_add(y) }.await));
        out
    }};
}

fn sync_all(a: u8) -> Vec<(String, Vec<String>)> {
    vec![
        ("try_join".into(), sync_try_progs!(try_join, a)),
        ("try_join_spawn".into(), sync_try_progs!(try_join_spawn, a)),
        ("try_spawn".into(), sync_try_progs!(try_spawn, a)),
        ("join".into(), sync_progs!(join, a)),
        ("join_spawn".into(), sync_progs!(join_spawn, a)),
        ("spawn".into(), sync_progs!(spawn, a)),
    ]
}

async fn async_all(a: u8) -> Vec<(String, Vec<String>)> {
    vec![
        ("join_async".into(), async_progs!(join_async, a)),
        ("join_async_spawn".into(), async_progs!(join_async_spawn, a)),
        ("async_spawn".into(), async_progs!(async_spawn, a)),
        ("try_join_async".into(), async_try_progs!(try_join_async, a)),
        ("try_join_async_spawn".into(), async_try_progs!(try_join_async_spawn, a)),
        ("try_async_spawn".into(), async_try_progs!(try_async_spawn, a)),
    ]
}

/// a branch that needs roughly 1 MiB of stack (well within the 2 MiB a std thread gets by default)
#[inline(never)]
fn deep(n: u32, salt: u8) -> u64 {
    let mut buf = [salt; 1024];
    std::hint::black_box(&mut buf);
    if n == 0 { buf[0] as u64 } else { deep(n - 1, salt.wrapping_add(1)) + buf[(n % 1024) as usize] as u64 }
}
const DEEP: u32 = 700;

/// child mode: `rac2 deep <macro>` runs ONE program with stack-hungry branches under the named macro, from a thread with
/// a 4 MiB stack, and prints its value; a stack overflow aborts this child only
fn deep_child(mac: &str) {
    let mac = mac.to_string();
    let v = std::thread::Builder::new().stack_size(4 << 20).spawn(move || -> String {
        match mac.as_str() {
            "join" => format!("{:?}", join::join! { deep(DEEP, 1) -> |v: u64| v ~-> |v: u64| v + deep(DEEP, 2), deep(DEEP, 3) -> |v: u64| v ~-> |v: u64| v + 1 }),
            "join_spawn" => format!("{:?}", join::join_spawn! { deep(DEEP, 1) -> |v: u64| v ~-> |v: u64| v + deep(DEEP, 2), deep(DEEP, 3) -> |v: u64| v ~-> |v: u64| v + 1 }),
            "spawn" => format!("{:?}", join::spawn! { deep(DEEP, 1) -> |v: u64| v ~-> |v: u64| v + deep(DEEP, 2), deep(DEEP, 3) -> |v: u64| v ~-> |v: u64| v + 1 }),
            "try_join" => format!("{:?}", join::try_join! { Some(deep(DEEP, 1)) ~|> |v: u64| v + deep(DEEP, 2), Some(deep(DEEP, 3)) ~|> |v: u64| v + 1 }),
            "try_join_spawn" => format!("{:?}", join::try_join_spawn! { Some(deep(DEEP, 1)) ~|> |v: u64| v + deep(DEEP, 2), Some(deep(DEEP, 3)) ~|> |v: u64| v + 1 }),
            "try_spawn" => format!("{:?}", join::try_spawn! { Some(deep(DEEP, 1)) ~|> |v: u64| v + deep(DEEP, 2), Some(deep(DEEP, 3)) ~|> |v: u64| v + 1 }),
            _ => "unknown".to_string(),
        }
    }).unwrap().join().unwrap();
    println!("{}", v);
}

fn jstr(s: &str) -> String { format!("\"{}\"", s.replace('\\', "\\\\").replace('"', "\\\"")) }

fn main() {
    if std::env::args().nth(1).as_deref() == Some("deep") {
        deep_child(&std::env::args().nth(2).unwrap_or_default());
        return;
    }
    let reps: usize = std::env::args().nth(1).and_then(|s| s.parse().ok()).unwrap_or(3);
    let mut cases = 0u64;
    let mut passed = 0u64;
    let mut failures: Vec<(String, String)> = Vec::new();
    let mut samples: Vec<String> = Vec::new();
    // stack-hungry branches (each in a child process: an overflow aborts the process it happens in)
    for cl in [["join", "join_spawn", "spawn"], ["try_join", "try_join_spawn", "try_spawn"]] {
        let run = |m: &str| -> Result<String, String> {
            let o = std::process::Command::new(std::env::current_exe().unwrap()).args(["deep", m]).output().map_err(|e| e.to_string())?;
            if o.status.success() { Ok(String::from_utf8_lossy(&o.stdout).trim().to_string()) } else { Err(format!("the process died ({}): {}", o.status, String::from_utf8_lossy(&o.stderr).lines().last().unwrap_or(""))) }
        };
        let base = run(cl[0]);
        for other in &cl[1..] {
            cases += 1;
            let o = run(other);
            match (&base, &o) {
                (Ok(x), Ok(y)) if x == y => passed += 1,
                (Err(_), _) => passed += 1, // the plain macro itself cannot run this program here: nothing to compare
                _ => failures.push((format!("branches that need about 1 MiB of stack, under {}", other), format!("{} gives {:?} but {} gives {:?}", cl[0], base, other, o))),
            }
        }
    }
    let classes: [&[&str]; 4] = [&["try_join", "try_join_spawn", "try_spawn"], &["join", "join_spawn", "spawn"],
        &["join_async", "join_async_spawn", "async_spawn"], &["try_join_async", "try_join_async_spawn", "try_async_spawn"]];
    for rep in 0..reps {
        for a in [0u8, 7, 200] {
            for ctx in ["main", "named", "unnamed"] {
                let run = move || -> Result<Vec<(String, Vec<String>)>, String> {
                    let r = std::panic::catch_unwind(|| {
                        OFF.with(|c| c.set(100));
                        let mut v = sync_all(a);
                        let rt = tokio::runtime::Builder::new_multi_thread().worker_threads(2).enable_all().build().unwrap();
                        v.extend(rt.block_on(async_all(a)));
                        v
                    });
                    r.map_err(|e| e.downcast_ref::<String>().cloned().or_else(|| e.downcast_ref::<&str>().map(|s| s.to_string())).unwrap_or_default())
                };
                let res = match ctx {
                    "main" => run(),
                    "named" => std::thread::Builder::new().name("caller".into()).spawn(run).unwrap().join().unwrap(),
                    _ => std::thread::spawn(run).join().unwrap(),
                };
                match res {
                    Err(p) => { cases += 1; failures.push((format!("a={} caller thread {}", a, ctx), format!("a macro of the spawn family panicked: {}", p))); }
                    Ok(v) => {
                        for cl in classes.iter() {
                            let base = &v.iter().find(|x| x.0 == cl[0]).unwrap().1;
                            for other in &cl[1..] {
                                let o = &v.iter().find(|x| x.0 == *other).unwrap().1;
                                for (k, (x, y)) in base.iter().zip(o.iter()).enumerate() {
                                    cases += 1;
                                    if x == y { passed += 1; if samples.len() < 5 && rep == 0 { samples.push(format!("{} == {} on program {} (a={}, {} thread): {}", cl[0], other, k, a, ctx, x)); } }
                                    else if failures.len() < 20 { failures.push((format!("program {} of class {} with a={} from the {} thread", k, cl[0], a, ctx), format!("{} gives {} but {} gives {}", cl[0], x, other, y))); }
                                }
                            }
                        }
                    }
                }
            }
        }
    }
    let f: Vec<String> = failures.iter().map(|(i, w)| format!("{{\"input\":{},\"what\":{}}}", jstr(i), jstr(w))).collect();
    let s: Vec<String> = samples.iter().map(|x| jstr(x)).collect();
    println!("{{\"family\":\"spawn_agree\",\"cases\":{},\"passed\":{},\"nontrivial\":{},\"exhaustive\":false,\"failures\":[{}],\"samples\":[{}],\"notes\":[{}]}}",
        cases, passed, cases, f.join(","), s.join(","), jstr(&format!("1 program with branches that need about 1 MiB of stack (child processes) + 17 programs (3 of them with block operands on every operator family reading a thread-local of the calling thread) x 3 inputs x 3 calling-thread contexts (main / named / unnamed) x {} repetitions; one schedule per run", reps)));
}
