"""Engine R, family `spawn_sweep` (bounded stand-in): the Hoare triples of engine K instantiated with the
THREAD-SPAWNING macros (join_spawn!/try_join_spawn!/spawn!/try_spawn!), compiled natively against /repo and run on
sampled input vectors through the `kani::any()` shim.  Kani has no threads, so nothing here is a proof: one OS
schedule per run, `vectors` inputs per program.  A failing assertion is a violation with the vector as replay."""
import json
import os
import shutil
import subprocess
import sys
import time

ROOT = os.path.dirname(os.path.dirname(os.path.abspath(__file__)))
sys.path.insert(0, os.path.join(ROOT, "kani"))
CACHE = os.path.join(os.environ.get("VERIF_WORK", ROOT), ".cache", "native")
REPO = os.environ.get("VERIF_REPO", "/repo")
ENV = dict(os.environ, CARGO_NET_OFFLINE="true")

CARGO_TOML = """[package]
name = "kh"
version = "0.1.0"
edition = "2021"

[lib]
path = "src/lib.rs"

[[bin]]
name = "sweep"
path = "src/sweep.rs"

[dependencies]
join = { path = "%s/join" }
futures = "0.3.0"
tokio = { version = "1.0.1", features = ["rt", "rt-multi-thread", "time", "macros"] }

[features]
default = ["tokio_rt"]
tokio_rt = []

[workspace]

[profile.dev]
debug = 0
opt-level = 1

[lints.rust]
unexpected_cfgs = { level = "allow", check-cfg = ['cfg(kani)', 'cfg(feature, values("tokio_rt"))'] }
"""

SWEEP_RS = r"""// native sweep: every harness x `nvec` sampled kani::any() vectors; prints one JSON line per harness
use std::panic;
use std::sync::Mutex;
static LAST: Mutex<String> = Mutex::new(String::new());
fn next(s: &mut u64) -> u64 { *s ^= *s << 13; *s ^= *s >> 7; *s ^= *s << 17; *s }
fn vector(seed: u64, k: u64) -> Vec<Vec<u8>> {
    let mut s = seed ^ (k.wrapping_mul(0x9E3779B97F4A7C15)) | 1;
    let mut v = Vec::new();
    for _ in 0..64 {
        let r = next(&mut s);
        let b0 = match k { 0 => 0u8, 1 => 1u8, 2 => 255u8, _ => match r % 10 { 0..=3 => 0, 4..=5 => 1, _ => (r >> 8) as u8 } };
        v.push(vec![b0, (r >> 16) as u8, (r >> 24) as u8, (r >> 32) as u8]);
    }
    v
}
fn main() {
    let a: Vec<String> = std::env::args().collect();
    let names: Vec<String> = std::fs::read_to_string(&a[1]).unwrap().lines().map(|s| s.to_string()).filter(|s| !s.is_empty()).collect();
    let nvec: u64 = a[2].parse().unwrap();
    let seed: u64 = a[3].parse().unwrap();
    panic::set_hook(Box::new(|info| {
        let msg = if let Some(s) = info.payload().downcast_ref::<&str>() { s.to_string() } else if let Some(s) = info.payload().downcast_ref::<String>() { s.clone() } else { "panic".to_string() };
        let loc = info.location().map(|l| format!("{}:{}", l.file(), l.line())).unwrap_or_default();
        let mut g = LAST.lock().unwrap_or_else(|e| e.into_inner());
        if g.is_empty() || msg.starts_with("C") { *g = format!("{} @ {}", msg, loc); }
    }));
    for name in names {
        let mut ran = 0u64; let mut discarded = 0u64; let mut failed: Option<(u64, String)> = None;
        let h = name.bytes().fold(0u64, |a, b| a.wrapping_mul(131).wrapping_add(b as u64));
        for k in 0..nvec {
            let v = vector(seed ^ h, k);
            kh::support::kani::feed(v);
            LAST.lock().unwrap_or_else(|e| e.into_inner()).clear();
            let nm = name.clone();
            let r = panic::catch_unwind(move || kh::run_harness(&nm));
            match r {
                Ok(true) => ran += 1,
                Ok(false) => { failed = Some((k, "unknown harness".into())); break; }
                Err(_) => {
                    let m = LAST.lock().unwrap_or_else(|e| e.into_inner()).clone();
                    if m.contains("REPLAY: assumption violated") { discarded += 1; } else { failed = Some((k, m)); break; }
                }
            }
        }
        let (fk, fm) = match &failed { Some((k, m)) => (*k as i64, m.replace('\\', "/").replace('"', "'")), None => (-1, String::new()) };
        println!("{{\"name\": \"{}\", \"ran\": {}, \"discarded\": {}, \"fail_vector\": {}, \"seed\": {}, \"msg\": \"{}\"}}", name, ran, discarded, fk, seed ^ h, fm.replace('\n', " "));
    }
}
"""


def run(pid, tier, rdir, seed):
    import gen
    hs = gen.native_families(pid, tier)
    res = {"cases": 0, "passed": 0, "nontrivial": 0, "violations": [], "undecided": [], "assumptions": [
        "[R] spawn_sweep: thread-spawning macros run natively, ONE OS schedule per input vector; sampled inputs, not all inputs"],
        "coverage": {}}
    if not hs:
        return res
    d = os.path.join(CACHE, "%s-%s" % (pid, tier))
    os.makedirs(os.path.join(d, "src"), exist_ok=True)
    open(os.path.join(d, "Cargo.toml"), "w").write(CARGO_TOML % REPO)
    shutil.copy(os.path.join(ROOT, "kani", "support.rs"), os.path.join(d, "src", "support.rs"))
    open(os.path.join(d, "src", "lib.rs"), "w").write(gen.render(hs))
    open(os.path.join(d, "src", "sweep.rs"), "w").write(SWEEP_RS)
    lock = os.path.join(d, "Cargo.lock")
    if not os.path.exists(lock):
        shutil.copy(os.path.join(REPO, "Cargo.lock"), lock)
    t0 = time.time()
    bp = subprocess.run(["cargo", "build", "--offline", "--bin", "sweep"], cwd=d, env=ENV, capture_output=True, text=True)
    build_s = round(time.time() - t0, 1)
    if bp.returncode != 0:
        # a rustc error inside a generated harness whose macro invocation is the documented use = the expansion does
        # not compile (violation of the property's compile clause); anything else is a machinery problem
        err = bp.stderr
        import re
        m = re.search(r"error(\[E\d+\])?: (.*)\n\s*--> src/lib\.rs:(\d+)", err)
        lib = open(os.path.join(d, "src", "lib.rs")).read().split("\n")
        # an error AT an item header (duplicate definition etc.) is a defect of the generator, not of the expansion
        if m and re.match(r"\s*pub fn ", lib[int(m.group(3)) - 1]):
            res["undecided"].append("R spawn_sweep: the harness generator produced an ill-formed crate: %s" % m.group(2)[:200])
            return res
        if m:
            line = int(m.group(3))
            hn = ""
            for k in range(line - 1, -1, -1):
                mm = re.match(r"pub fn (\w+)\(\)", lib[k])
                if mm:
                    hn = mm.group(1)
                    break
            path = os.path.join(rdir, "R-spawn_sweep-compile-%s.txt" % hn)
            with open(path, "w") as fh:
                fh.write("property: %s\nfailed obligation: native harness `%s` (thread-spawning macro) does not compile\n\n%s\n\nreplay: cd %s && cargo build --offline --bin sweep\n" % (pid, hn, err[-6000:], d))
            res["violations"].append({"engine": "R", "obligation": "spawn_sweep:%s (compile)" % hn, "key": "R:spawn_sweep:%s" % hn, "replay": path,
                                      "found_input": True, "summary": "error: " + m.group(2)[:160]})
            res["cases"] = len(hs)
        else:
            res["undecided"].append("R spawn_sweep: native build failed: %s" % err[-400:])
        return res
    nvec = int(os.environ.get("VERIF_SWEEP_VECTORS", "48" if tier == "quick" else "400"))
    names = os.path.join(d, "names.txt")
    open(names, "w").write("\n".join(h.name for h in hs) + "\n")
    t0 = time.time()
    try:
        rp = subprocess.run([os.path.join(d, "target", "debug", "sweep"), names, str(nvec), str(seed or 1)], capture_output=True, text=True,
                            timeout=int(os.environ.get("VERIF_SWEEP_TIMEOUT", "1500")))
    except subprocess.TimeoutExpired:
        res["undecided"].append("R spawn_sweep: native run timed out (a hang under the thread-spawning macros?)")
        return res
    run_s = round(time.time() - t0, 1)
    prog = {h.name: h.program for h in hs}
    got = {}
    for l in rp.stdout.split("\n"):
        if l.startswith("{"):
            try:
                j = json.loads(l)
                got[j["name"]] = j
            except Exception:
                pass
    vectors = 0
    for h in hs:
        j = got.get(h.name)
        res["cases"] += 1
        if j is None:
            res["undecided"].append("R spawn_sweep: no result for %s (process died: %s)" % (h.name, rp.stderr[-300:]))
            continue
        vectors += j["ran"]
        if j["fail_vector"] >= 0:
            path = os.path.join(rdir, "R-spawn_sweep-%s.txt" % h.name)
            with open(path, "w") as fh:
                fh.write("property: %s\nfailed obligation: native harness `%s` (Hoare triple around the real expansion of a thread-spawning macro)\n" % (pid, h.name))
                fh.write("program: %s\nfailed check: %s\nfailing input: sampled vector #%d of stream seed %d\n" % (h.program, j["msg"], j["fail_vector"], j["seed"]))
                fh.write("replay: cd %s && cargo build --offline --bin sweep && echo %s > one.txt && target/debug/sweep one.txt %d %s\n" % (d, h.name, j["fail_vector"] + 1, seed or 1))
                fh.write("source of the harness: %s/src/lib.rs (fn %s)\n" % (d, h.name))
            res["violations"].append({"engine": "R", "obligation": "spawn_sweep:%s" % h.name, "key": "R:spawn_sweep:%s" % h.name, "replay": path,
                                      "found_input": True, "summary": j["msg"][:200]})
        else:
            res["passed"] += 1
            if j["ran"] > 0:
                res["nontrivial"] += 1
    res["coverage"] = {"family": "spawn_sweep", "programs": len(hs), "vectors_per_program": nvec, "vectors_run": vectors,
                       "build_s": build_s, "run_s": run_s,
                       "bound": "thread-spawning macros, programs enumerated by kani/gen.py native_families(%s); %d sampled input vectors each; one OS schedule per vector" % (tier, nvec),
                       "samples": ["R:spawn_sweep:" + h.name for h in hs[:4]]}
    return res
