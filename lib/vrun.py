#!/usr/bin/env python3
"""extract + verus runner (engine V).  usage: vrun.py [--keep] -> prints summary"""
import json, os, subprocess, sys, time
ROOT = os.path.dirname(os.path.dirname(os.path.abspath(__file__)))
sys.path.insert(0, os.path.join(ROOT, "verus"))
CACHE = os.path.join(os.environ.get("VERIF_WORK", ROOT), ".cache", "verus")
EXTRACT = os.path.join(ROOT, "tools", "extract", "target", "release", "extract")

def run_verus(repo="/repo", rlimit=30):
    import importlib, plan
    importlib.reload(plan)
    os.makedirs(CACHE, exist_ok=True)
    p = plan.build_plan(repo)
    pj = os.path.join(CACHE, "plan.json"); gen = os.path.join(CACHE, "gen.rs"); lg = os.path.join(CACHE, "extract_log.json")
    json.dump(p, open(pj, "w"))
    t0 = time.time()
    r = subprocess.run([EXTRACT, pj, gen, lg], capture_output=True, text=True)
    res = {"extract_exit": r.returncode, "extract_stderr": r.stderr, "extract_s": time.time() - t0}
    if r.returncode != 0:
        return res
    t0 = time.time()
    v = subprocess.run(["verus", gen, "--output-json", "--time", "--rlimit", str(rlimit), "--multiple-errors", "5"],
                       capture_output=True, text=True, cwd=CACHE)
    res["verus_s"] = time.time() - t0
    res["verus_exit"] = v.returncode
    res["verus_stderr"] = v.stderr
    try:
        res["json"] = json.loads(v.stdout)
    except Exception:
        res["json"] = None
        res["verus_stdout"] = v.stdout
    res["log"] = json.load(open(lg))
    return res

if __name__ == "__main__":
    r = run_verus()
    if r["extract_exit"] != 0:
        print("EXTRACT FAILED", r["extract_stderr"]); sys.exit(2)
    j = r["json"]
    print("verus exit", r["verus_exit"], "time %.1fs" % r["verus_s"])
    if j:
        print(json.dumps(j.get("verification-results")))
        for m in j.get("times-ms", {}).get("smt", {}).get("smt-run-module-times", []):
            for f in m["function-breakdown"]:
                if not f["success"] or "-v" in sys.argv: print("  ", f["function"], f["success"], f["time"])
    err = r["verus_stderr"]
    print(err[:int(os.environ.get("ERRLEN", "6000"))])
