"""Per-property configuration of ./check: which obligations of which engine decide it."""
import os, sys
sys.path.insert(0, os.path.join(os.path.dirname(os.path.dirname(os.path.abspath(__file__))), "verus"))
import plan

TRUSTED_BASE = [
    "A1 rustc, Verus 0.2026.09.13 / Z3, Kani 0.68 / CBMC 6.11",
    "A2 verus/prelude.rs: abstract token algebra is a faithful image of quote!'s definition (R2) and of ToTokens for syn types (operands opaque, arbitrary)",
    "A3 usize Display = canonical decimal (dec)",
    "A5 #[derive(Clone)] is structural",
    "A6 std Option/slice specs shipped in vstd",
]

STANDING_ASSUMPTIONS = list(TRUSTED_BASE) + [
    "extraction is mechanical (tools/extract, rules R1-R16 logged per run in coverage.verus.rewrite_samples); spans and token spacing are dropped",
    "R13: iter().enumerate().map(F).fold(I,G), iter().filter(P).count() and a filter adaptor consumed once by a quote! repetition mean the index loops they are rewritten to (closures verbatim); laziness of filter is dropped",
    "R16: the bodies of three helper-function quotes of <JoinOutput as ToTokens>::to_tokens (tokio spawn helper, inspect helper, thread-builder helper) are left unspecified (uninterpreted functions of the names they interpolate); only WHETHER and WHERE each is emitted is under contract",
    "to_tokens / generate_steps / generate_step are verified under jo_wf (field lengths agree, every branch has >= 1 step, chains[b] has depths[b] non-empty steps the parser can produce). JoinOutput::new is PROVED as a whole to establish it (guard chain + R15 block call-out to new_fields) from branch_steps_ok of every parsed branch, and branch_steps_ok is PROVED from the postcondition of build_from_parse_stream (balanced + members_ok) by lemma_accepted_branch. Still not machine-checked between those contracts: (i) JoinInputDefault::parse / generate_join hand exactly the builder's chains to JoinOutput::new (unless listed as verified below); (ii) the `next` group of ActionGroup::parse_action_expr's result is the one the unit parser (parse_until, suffix verified) produced - the macro-generated unit parsers in between are an ASSUMED contract",
    "machine integers: usize arithmetic in contracted functions is checked for overflow by Verus where it occurs",
]

PROPS = {}


def P(pid, level, **kw):
    d = {"level": level, "verus": plan.OBLIGATIONS.get(pid, [])}
    d.update(kw)
    PROPS[pid] = d


P("C01", "proof", native=True, kani={"timeout": "600s", "compile_clause": True}, rac=["emit", "structure"],
  unbounded="native family rand_diff: 48 (thorough 240) RANDOM programs under join! / try_join! / join_spawn! / try_join_spawn! (1-3 branches x 1-3 steps, operators from the Option pool, plain or block operands, captures reading or reassigning names, let / let mut, failing initial values, optional handler) x 48 (400) sampled inputs against the staged reference, value and evaluation trace; all operands, all 22 operators: spelling -> Combinator -> constructor -> emitted tokens == documented call",
  bounded="operator adjacency / chain length (Kani programs)",
  not_decided="left-to-right composition for chains outside the enumerated family; that parse_until applies the table (C14)")
P("C02", "proof", kani={"timeout": "600s", "compile_clause": True}, rac=["emit", "structure"],
  unbounded="the ten wrapper operators; placeholder builder; replace preserves operator and restores all operands; the closure spliced at <<< is exactly |v| inner (wrap_last_step_stream); one branch of one step of generate_step (R15 lifted closure): for every action list the parser can produce the stack discipline holds, wrappers still open at the end of a step are closed by the loop (terminates with one frame); lemma_split_balance: the builder's per-step balance is the stack depth in every step",
  bounded="nesting programs (Kani)")
P("C07", "proof", rac=["spawn_agree"],
  unbounded="alias part: the 12 Config literals equal the documented triples, so every alias has its target's Config for every input",
  bounded="spawn/plain agreement: 14 programs x 3 inputs x 3 calling-thread contexts (main / named / unnamed) executed natively under all 12 macros, results compared within each agreement class (one schedule per run, repeated)",
  not_decided="runtime agreement of spawn variants under ALL thread/task schedules (no verifier here models std::thread / tokio)")

P("C08", "exploration", native=True,
  explanation="no verifier here models std::thread, so the run-time clauses are an exploration only: native runs of the four thread-spawning macros where every callback records the thread it runs on and then waits for all siblings of its step (they can only all arrive if they are alive at the same time), from main / named / unnamed calling threads. The deductive part is the code that decides WHICH threads exist: one builder per active branch numbered by branch index, threads only for a step with at least two active branches, every handle joined in branch order after all were spawned (generate_thread_builders_and_spawn_joiners, generate_step_tail)",
  unbounded="generate_thread_builders_and_spawn_joiners: None iff async / not spawn / fewer than two active branches; one `let __j{b} = __tb(b);` per ACTIVE branch numbered by BRANCH index; one `.join().unwrap()` per active branch in branch order; generate_step_tail: builders, then the step tuple that spawns, then the joins",
  bounded="8 (thorough 12) depth profiles x 4 macros x 3 calling-thread contexts, one OS schedule per run, 10 s gate timeout",
  not_decided="all schedules; the thread-name helper exists only inside a quote! string and is exercised, not proved; nesting deeper than one spawn macro inside a spawned branch (3 programs)")
P("C18", "fault_enumeration", native=True,
  explanation="Kani models panic as abort and no verifier here executes thread / task join errors, so this is fault enumeration: a panic is injected natively at every (branch, step) callback position of 7 (thorough 11) depth profiles under 8 macro kinds (sync, thread-spawning, async, tokio-spawning), inside catch_unwind and a 25 s watchdog. Deductive part: every spawned thread's handle is joined and unwrapped (`.join().unwrap()` per active branch, generate_thread_builders_and_spawn_joiners), which is what re-raises the panic on the caller",
  unbounded="one `.join().unwrap()` per active branch of a spawned step (token level)",
  bounded="panic positions: every callback (quick tier: every other one), every block capture and the final handler of 2 (thorough 4) profiles, and branch 0 panicking while its later-numbered siblings are blocked until the caller has returned; one schedule per run",
  not_decided="the tokio JoinError path is exercised, not proved; panics inside nested macros")

NOT_APPLICABLE = {
}
for _p in ["C%02d" % i for i in range(1, 21)]:
    if _p not in PROPS and _p not in NOT_APPLICABLE:
        NOT_APPLICABLE[_p] = "check under construction (see DESIGN.md section 4); not claimed until its obligations run"

P("C05", "model_checking", native=True, kani={"timeout": "900s"},
  bounded="native family rand_diff (48 / 240 random programs x sampled inputs against the staged reference, see C01); programs: depth profiles n<=3 (quick: d<=2 plus selected d=3; thorough: d<=3 plus n=4 samples), Option/Result sync and Result async; every (branch, step) failure flag and payload symbolic",
  unbounded="the transposer that turns the per-branch results into one Option/Result is r0.and_then(|r0| r1.and_then(|r1| .. rn.map(|rn| (all values)))) for ANY number of branches (generate_results_transposer, R13 desugaring of iter().rev().fold()): branch k is examined before every later one and the tuple is reached only when all succeeded; join_steps (module steps): in a transposing try macro the failure test of a step looks at exactly the ACTIVE branches in branch order, arm k hands back the failure of the k-th active branch with its payload untouched (r.map(|_| unreachable!())), and the next step sits ONLY in the else branch",
  not_decided="thread / tokio schedules beyond the native sweeps; the run-time meaning of the emitted tokens is rustc's")

P("C06", "model_checking", native=True, kani={"timeout": "900s"},
  unbounded="native family rand_diff (48 / 240 random programs x sampled inputs against the staged reference, see C01); the step structure the abort acts on: split_steps (see C03) and the transport of the `~` mark; join_steps: the next step sits ONLY in the success continuation of the failure test; generate_steps: step k+1 is nested in that continuation of step k for any number of steps, so a failed step skips all later ones",
  bounded="same programs as C05; trace contract: exact event sequence of the staged reference (sync), no event of a step after the failing one (async)",
  not_decided="spawn kinds (threads / tokio tasks)")
P("C04", "model_checking", native=True, kani={"timeout": "900s"},
  bounded="native family rand_diff (48 / 240 random programs x sampled inputs against the staged reference, see C01); depth profiles n<=3 (+n=4 samples), d<=3; join!/try_join!/join_async!/try_join_async!, with then/map/and_then handlers and let patterns; values symbolic",
  unbounded="join_steps verified against a token-level spec (module steps): which branches a step checks / re-wraps / hands on, in which order, where the next step goes, the final tuple over ALL branches in branch order; the three index functions and the step destructuring: active_step_branch_count == #{i: depth_i > step} (R13 desugaring of iter/filter/count), step_results.k is indexed over active branches only, extract_results_tuple names exactly the active branches in branch order (R13 desugaring of the lazy filter with its counting closure) and hands ALL result names to the handler in branch order",
  not_decided="tokio-spawn kinds beyond the native sweeps; the glue of generate_step between its verified pieces")

P("C09", "model_checking", native=True, kani={"timeout": "1200s"},
  unbounded="the tail of generate_step (R15 statement suffix): ALL step streams of a step go, in branch order, into ONE joiner invocation (futures_crate_path::join! / try_join! or the custom joiner) - the concurrency of a step rests on that macro; a step with one active branch is awaited directly",
  bounded="join_async!/try_join_async!, profiles n<=3 d<=2 (thorough: d<=3, n=4 sample), one harness-controlled gate per (branch, step) with symbolic pending count <= 1: every readiness pattern incl. batches; polls <= 1 + sum_s max_i p_is",
  not_decided="tokio-task variants beyond the 6 native programs of spawn_sweep (one schedule each, 20 s timeout); unbounded liveness")
P("C03", "model_checking", native=True, kani={"timeout": "1200s"}, rac=["structure"],
  unbounded="native family rand_diff (48 / 240 random programs x sampled inputs against the staged reference, see C01); where a step begins: the fold of JoinOutput::new that splits a branch (R15 lifted closure + R13) computes split_steps(members) - a new step at every member carrying the `~` mark and nowhere else, order kept; the mark reaches it unchanged (parse_until suffix, ActionGroup::parse_stream, to_wrapper_action_expr: action == self, ExprGroup::application_type)",
  bounded="sync: profiles n<=3 d<=3 with 7 operator kinds rotating over positions (incl. deferred error operators), exact staged trace; async: same gate programs as C09, monotone step numbers in the trace",
  not_decided="OS-thread interleavings and tokio task schedules (Kani has no thread support)")

P("C10", "model_checking", native=True, kani={"timeout": "600s", "compile_clause": True}, rac=["linear"],
  bounded="native family rand_diff: 48 (thorough 240) RANDOM programs under join! / try_join! / join_spawn! / try_join_spawn! (1-3 branches x 1-3 steps, operators from the Option pool, plain or block operands, captures reading or reassigning names, let / let mut, failing initial values, optional handler) x 48 (400) sampled inputs against the staged reference, value and evaluation trace; every operator with logging callbacks: exact callback trace == documented chain's trace; move-only Tok programs: live()==0 after the result is dropped; block operands inside wrappers evaluated once",
  not_decided="programs outside the enumerated family")
P("C11", "proof", native=True, kani={"timeout": "600s", "compile_clause": True}, rac=["emit"],
  unbounded="native family rand_diff: 48 (thorough 240) RANDOM programs under join! / try_join! / join_spawn! / try_join_spawn! (1-3 branches x 1-3 steps, operators from the Option pool, plain or block operands, captures reading or reassigning names, let / let mut, failing initial values, optional handler) x 48 (400) sampled inputs against the staged reference, value and evaluation trace; which operators hoist (is_replaceable, incl. the provided method used by ErrExpr/InitialExpr, R14), operands exposed and restored in order (inner_exprs / replace_inner_exprs); separate_block_expr itself for its three instantiations (R13 desugaring of enumerate/map/fold into a while loop with an inductive invariant): ALL block operands of one action are defined, once, in operand order, each under the name of (branch, action, operand index), and the operator is handed back over the replaced operands; generate_def_and_step_streams appends them after the earlier definitions",
  bounded="placement of the definition stream relative to the steps: exact capture/callback trace for all hoisting operators rotating over positions, n<=3, d<=3, nested wrappers, both operands of fold/try_fold")

P("C12", "model_checking", native=True, kani={"timeout": "600s", "compile_clause": True},
  bounded="native family rand_diff: 48 (thorough 240) RANDOM programs under join! / try_join! / join_spawn! / try_join_spawn! (1-3 branches x 1-3 steps, operators from the Option pool, plain or block operands, captures reading or reassigning names, let / let mut, failing initial values, optional handler) x 48 (400) sampled inputs against the staged reference, value and evaluation trace; n<=3, d<=3, subsets of named branches (quick: 6 masks per profile), every later step has a capture reading a name; 4 executable macro kinds",
  not_decided="spawn kinds")
P("C13", "model_checking", native=True, kani={"timeout": "600s"}, rac=["reject", "structure"],
  unbounded="Handler::try_from builds the variant whose keyword stands in the input (module handler); JoinOutput::new rejects exactly the wrong kind / handler combinations (doc_guard) and hands the handler on unchanged, generate_join / join_impl pass it through; generate_handle emits the documented call for any number of branches; to_tokens binds the handler once, before the steps",
  bounded="every legal (kind x handler) for the 4 executable kinds, n<=3, handler at end / between branches, failure flags symbolic; handler call count, argument order, wrapping, awaited value",
  not_decided="spawn kinds")
P("C16", "model_checking",
  unbounded="each option block of the parser writes ITS field only and rejects a second occurrence (parse_option_<kw>); parse / join_impl / generate_join hand every option to the field it belongs to (R14-resolved accessors); defaults of lazy_branches / transpose_results (JoinOutput::new as a whole); which joiner a step gets (generate_step_tail): the custom joiner iff more than one branch is active, else futures_crate_path::join!/try_join! (async) or a plain tuple (sync)",
  kani={"timeout": "600s"}, rac=["options", "futures_path"],
  bounded="logging joiner (macro form) on 8 depth profiles eager/lazy; transposing joiner with transpose_results(false) on 6 profiles; futures_crate_path via a re-export; all four options together",
  not_decided="spawn kinds")

P("C15", "model_checking", rac=["reject", "enum"],
  unbounded="the contract chain <JoinInputDefault as Parse>::parse (at least one branch, only chains the builder accepted) -> build_from_parse_stream (per-step balance + per-member facts) -> lemma_accepted_branch -> join_impl -> generate_join -> JoinOutput::new (jo_wf) -> to_tokens ...: no expect / unwrap / unreachable of the generator is reachable for anything the parser accepted (generate_join's unwrap under doc_guard == 0: a rejected kind / handler combination panics there, which IS the compile error); parse_until as a whole, its scan step and suffix",
  bounded="rejection matrix (464 cases, exhaustive over its finite domain); all token sequences of length <= 4 (thorough 5) over a 27-word DSL vocabulary and of length <= 7 (thorough 8) over an 8-word wrapper/step vocabulary: outcome class never `internal panic`, accepted inputs expand to a Rust expression",
  not_decided="totality of syn itself; longer inputs")
P("C20", "other", rac=["purity"], frame_audit=True,
  explanation="repeated, interleaved and concurrent (4 threads) library-level expansions of the same input are compared token for token (bounded stand-in); engine V's functional postconditions (out == spec(args)) prove determinism for the contracted functions only",
  bounded="4 inputs x applicable kinds x 12 (thorough 50) repetitions + 16 concurrent expansions each",
  unbounded="frame audit (syntactic, every run): join_impl / join contain no static mut, thread_local!, lazy_static!, lazily initialised global, static with interior mutability, ambient input or hash collection - so the expansion has nothing but its arguments to depend on (given A4)",
  not_decided="purity of syn / proc_macro2 themselves (A4); if the audit ever finds one of those constructs the check answers UNDECIDED unless sampling finds a violation")
P("C14", "model_checking", rac=["structure"],
  unbounded="determiner table == documented spellings and first match = longest match (lemmas); parse_until's scan step ends an operand at the FIRST matching table row and only after a complete operand; check_parsed: complete iff syn parses the collected tokens as a T (valid_stream), Empty parses exactly the empty stream; parse_until as a whole hands on a well-formed next group",
  bounded="parsed chain structure == structure the input was rendered from: 22 operators x deferred x 34 (thorough: all) operand shapes, all adjacent operator pairs x 4 deferred patterns, 10 wrappers x 22 inner operators x 3 closing shapes, handler-keyword operands, a handler directly behind a branch (comma optional after a block), operands ending with `?`, several explicit closes before deferred operators, handler expressions of every shape",
  not_decided="operands outside the pool; split-point logic inside syn")

P("C17", "proof", kani={"timeout": "1500s", "compile_clause": True}, native=True,
  unbounded="separate_block_expr names the k-th hoisted operand of action i of branch b __ew{b}_{i}_{k} (verified for all operand lists); every name constructor emits prefix ++ dec(i) (++ sep ++ dec(j) ++ sep ++ dec(k)) with the pieces as they stand in the source; injectivity within a family and pairwise distinctness of all families for ALL indices (lemma_names_never_clash)",
  bounded="12 x 12 program with block captures on every action; 11 named branches with handler; nesting of the 4 executable kinds to depth 3 inside operands, captures and handlers; 6 native programs nest the thread- and tokio-spawning kinds inside spawned branches (depth 2-3): they must compile (Send + 'static across the levels) and give the documented values",
  not_decided="identifier literals inside quote! bodies vs user identifiers (macro hygiene); spawn kinds beyond those 6 programs")

P("C19", "other", native=True, kani={"timeout": "600s", "compile_clause": True},
  explanation="bounds claim only: programs over move-only (no Clone, counting Drop), non-Send (Rc) and stack-borrowing (&, &mut, non-'static) values must type-check through the real expansion of the four non-spawning executable kinds (rustc's type system is the checker; a rustc error originating in the macro is the violation) and run to the documented value under Kani with live()==0 at the end",
  unbounded="<JoinOutput as ToTokens>::to_tokens: for every JoinOutput the sync expansion is `{ helpers; [let __handler = h;] let __results = { steps }; handle }` and the async one the same inside ONE `Box::pin(async move { .. })` - the steps are a plain block of the scope the macro is called in (no closure, thread or further box of the macro's own around them), the spawn helpers exist only for the spawning kinds",
  bounded="21 programs (operators, steps, wrappers, handlers, let names, async, results holding fresh &mut reborrows with and without handlers); heap-allocation claim: 6 native programs of the sequential macros (try with 2-3 steps on Result / Option incl. failing branches, handlers, wrapper + capture + inspect, single branch) run under a counting global allocator on 48 (thorough 400) sampled inputs - the calling thread's allocation count must not move across the macro",
  not_decided="the heap-allocation claim beyond those programs (Kani ignores custom allocators; no verifier here decides it; the token-level contracts of join_steps / generate_step_tail / generate_handle fix the glue the sequential expansion consists of, and it contains no allocating call); spawn kinds legitimately need Send + 'static")
