"""Engine K: Kani/CBMC on the real macro expansion (DESIGN.md 3.2)."""
import json
import os
import re
import shutil
import subprocess
import sys
import time

ROOT = os.path.dirname(os.path.dirname(os.path.abspath(__file__)))
sys.path.insert(0, os.path.join(ROOT, "kani"))
REPO = os.environ.get("VERIF_REPO", "/repo")
CACHE = os.path.join(os.environ.get("VERIF_WORK", ROOT), ".cache", "kani")
JOBS = os.environ.get("VERIF_JOBS", "16")
MAX_REPLAYS = int(os.environ.get("VERIF_MAX_REPLAYS", "5"))

CARGO_TOML = """[package]
name = "kh"
version = "0.1.0"
edition = "2021"

[lib]
path = "src/lib.rs"

[[bin]]
name = "replay"
path = "src/replay.rs"

[dependencies]
join = { path = "%s/join" }
futures = "0.3.0"

[workspace]

[profile.dev]
debug = 0

[lints.rust]
unexpected_cfgs = { level = "allow", check-cfg = ['cfg(kani)'] }
"""

REPLAY_RS = """// native replay of a Kani concrete-playback vector against the real expansion
fn main() {
    let a: Vec<String> = std::env::args().collect();
    let name = &a[1];
    let vals: Vec<Vec<u8>> = a[2].split(';').filter(|s| !s.is_empty()).map(|s| s.split(',').filter(|x| !x.is_empty()).map(|x| x.parse().unwrap()).collect()).collect();
    kh::support::kani::feed(vals);
    if !kh::run_harness(name) { eprintln!("unknown harness"); std::process::exit(3); }
    println!("REPLAY: harness {} passes natively on this input", name);
}
"""

ENV = dict(os.environ, CARGO_NET_OFFLINE="true")


def _prepare(pid, tier, hs):
    import gen
    d = os.path.join(CACHE, "%s-%s" % (pid, tier))
    os.makedirs(os.path.join(d, "src"), exist_ok=True)
    open(os.path.join(d, "Cargo.toml"), "w").write(CARGO_TOML % REPO)
    shutil.copy(os.path.join(ROOT, "kani", "support.rs"), os.path.join(d, "src", "support.rs"))
    open(os.path.join(d, "src", "lib.rs"), "w").write(gen.render(hs))
    open(os.path.join(d, "src", "replay.rs"), "w").write(REPLAY_RS)
    lock = os.path.join(d, "Cargo.lock")
    if not os.path.exists(lock):
        shutil.copy(os.path.join(REPO, "Cargo.lock"), lock)
        # A9: proc-macro2 1.0.51 does not build on Kani's nightly; 1.0.95 (same API) does
        subprocess.run(["cargo", "update", "--offline", "-p", "proc-macro2", "--precise", "1.0.95"], cwd=d, env=ENV,
                       capture_output=True, text=True)
    return d


def _parse_playback(stdout):
    """harness -> list of (check kind, description, vector) from `--concrete-playback=print` output"""
    out = {}
    for m in re.finditer(r"Concrete playback unit test for `([^`]+)`:\s*```(.*?)```", stdout, re.S):
        h, body = m.group(1), m.group(2)
        cm = re.search(r"Check for `([^`]+)`: \"(.*?)\"\n", body, re.S)
        kind, desc = (cm.group(1), cm.group(2)) if cm else ("?", "")
        vec = []
        for vm in re.finditer(r"vec!\[([0-9, ]*)\],", body):
            vec.append([int(x) for x in vm.group(1).replace(" ", "").split(",") if x])
        out.setdefault(h, []).append((kind, desc, vec))
    return out


def run(pid, cfg, tier, rdir):
    import gen
    t0 = time.time()
    hs = gen.families(pid, tier)
    flt = os.environ.get("VERIF_KFILTER")
    if flt:
        hs = [h for h in hs if re.search(flt, h.name)]
    res = {"harnesses": len(hs), "passed": 0, "violations": [], "undecided": [], "assumptions": [
        "A9 Kani harness lock file = /repo/Cargo.lock with proc-macro2 moved to 1.0.95 (1.0.51 does not compile on Kani's nightly)",
        "A10 futures::join!/try_join!, FutureExt/TryFutureExt behave as compiled (they are part of the verified program, not stubbed)",
        "[K] programs are enumerated (bounded in the program dimension); each harness is complete over its symbolic inputs; loops bounded by #[kani::unwind] with unwinding assertions on",
        "[K] spawn kinds (threads / tokio tasks) are not executable by Kani",
    ], "coverage": {}}
    if not hs:
        return res
    d = _prepare(pid, tier, hs)
    out_json = os.path.join(d, "out.json")
    if os.path.exists(out_json):
        os.remove(out_json)
    cmd = ["cargo", "kani", "--lib", "-j", JOBS, "--output-format", "terse",
           "-Z", "unstable-options", "--export-json", out_json, "--harness-timeout", cfg.get("timeout", "600s")]
    p = subprocess.run(cmd, cwd=d, env=ENV, capture_output=True, text=True)
    open(os.path.join(d, "kani_stdout.txt"), "w").write(p.stdout)
    open(os.path.join(d, "kani_stderr.txt"), "w").write(p.stderr)
    wall = time.time() - t0
    try:
        j = json.load(open(out_json))
    except Exception:
        j = None
    if j is None:
        # build failure of the harness crate: the expansion of some program does not compile
        allout = p.stdout + "\n" + p.stderr
        errs = re.findall(r"^error(?:\[E\d+\])?: .*$", allout, re.M)
        res["build_errors"] = errs[:20]
        res["coverage"] = {"harnesses": len(hs), "wall_s": round(wall, 1)}
        blocks = re.split(r"\n(?=error)", allout)
        src_lines = open(os.path.join(d, "src", "lib.rs")).read().split("\n")

        def harness_at(line):
            k = min(line, len(src_lines)) - 1
            while k >= 0:
                m = re.match(r"pub fn (\w+)\(\)", src_lines[k])
                if m:
                    return m.group(1)
                k -= 1
            return None
        hit = {}
        for bl in blocks:
            if not bl.startswith("error") or bl.startswith("error: could not compile") or bl.startswith("error: Failed to execute") or bl.startswith("error: aborting"):
                continue
            m = re.search(r"--> src/lib\.rs:(\d+):", bl)
            if not m:
                continue
            hn = harness_at(int(m.group(1)))
            if hn:
                hit.setdefault(hn, []).append(bl.strip()[:1500])
        by = {h.name: h for h in hs}
        if cfg.get("compile_clause", True) and hit:
            # the programs are well-typed by construction (their plain-Rust reference compiles in the same crate and the
            # crate builds on the unchanged tree): an error originating in the macro violates "expands to code that compiles"
            for hn, bls in list(hit.items())[:12]:
                h = by.get(hn)
                path = os.path.join(rdir, "K-%s.txt" % hn)
                with open(path, "w") as fh:
                    fh.write("property: %s\nfailed obligation: the real expansion of a well-typed program must compile (harness `%s`)\n" % (pid, hn))
                    fh.write("failing input (program): %s\n\nrustc:\n%s\n" % (h.program if h else "?", "\n\n".join(bls[:3])))
                    fh.write("\nreplay: cd %s && cargo check --offline --lib\n" % d)
                res["violations"].append({"engine": "K", "obligation": hn + " (compile)", "key": "K:%s" % hn, "replay": path, "found_input": True,
                                          "summary": bls[0].split("\n")[0][:160]})
            return res
        res["undecided"].append("K: harness crate did not build / kani produced no result: %s" % "; ".join(errs[:4]))
        return res
    by = {h.name: h for h in hs}
    results = {r["harness_id"].split("::")[-1]: r for r in j.get("verification_results", {}).get("results", [])}
    props_ = {r["harness_id"].split("::")[-1]: r["property_details"] for r in j.get("property_details", [])}
    stats = {r["harness_id"].split("::")[-1]: r.get("cbmc_stats", {}) for r in j.get("cbmc", [])}
    # playback is incompatible with -j: re-run each failed harness on its own (in parallel processes) for its counterexample
    failed_names = [n_ for n_ in by if n_ in results for r_ in [results[n_]] if r_.get("status") != "Success" and any(
        c.get("status") in ("Failure", "FAILURE") and "unwinding assertion" not in c.get("description", "") for c in r_.get("checks", []))]

    def _pb(nm):
        pp = subprocess.run(["cargo", "kani", "--lib", "--harness", nm, "--exact", "--output-format", "terse", "-Z", "concrete-playback",
                             "--concrete-playback=print"], cwd=d, env=ENV, capture_output=True, text=True)
        return nm, _parse_playback(pp.stdout)
    playbacks = {}
    if failed_names:
        import concurrent.futures as cf
        # sequential on purpose: concurrent cargo-kani runs in one crate contend for the build lock
        for nm in failed_names[:MAX_REPLAYS]:
            playbacks[nm] = _pb(nm)[1]
    checks_total = checks_passed = covers_sat = covers_unsat = 0
    solver_s = 0.0
    samples = []
    replay_built = False
    for name, h in by.items():
        r = results.get(name)
        if r is None:
            res["undecided"].append("K: harness %s was not run" % name)
            continue
        pd = props_.get(name, {})
        checks_total += pd.get("total_properties") or 0
        checks_passed += pd.get("passed") or 0
        covers_sat += pd.get("satisfied") or 0
        covers_unsat += pd.get("unsatisfiable") or 0
        st = stats.get(name, {})
        solver_s += float(st.get("runtime_decision_procedure_s", 0) or 0) + float(st.get("runtime_symex_s", 0) or 0)
        failed_checks = [c for c in r.get("checks", []) if c.get("status") in ("Failure", "FAILURE")]
        unsat_covers = [c for c in r.get("checks", []) if c.get("status") in ("Unsatisfiable", "UNSATISFIABLE")]
        undet = [c for c in r.get("checks", []) if c.get("status") in ("Undetermined", "UNDETERMINED")]
        if r["status"] == "Success" and not unsat_covers:
            res["passed"] += 1
            if (pd.get("total_properties") or 0) > 0:
                res["nontrivial"] = res.get("nontrivial", 0) + 1
            if len(samples) < 8:
                samples.append({"harness": name, "program": h.program[:400], "checks": pd.get("total_properties"), "covers_satisfied": pd.get("satisfied"), "ms": r.get("duration_ms")})
            continue
        if r["status"] == "Success" and unsat_covers:
            res["undecided"].append("K: harness %s: cover goal unsatisfiable (vacuity guard): %s" % (name, unsat_covers[0].get("description", "")[:120]))
            continue
        if not failed_checks:
            res["undecided"].append("K: harness %s: %s (no failed check: timeout / tool limit)" % (name, r["status"]))
            continue
        # unwinding assertion failure = bound too small, not a violation
        real = [c for c in failed_checks if "unwinding assertion" not in c.get("description", "")]
        if not real:
            res["undecided"].append("K: harness %s: unwinding assertion failed (bound too small)" % name)
            continue
        tool = [c for c in real if "Kani does not support" in c.get("description", "") or c.get("category") == "unsupported_construct"
                or "is not currently supported by Kani" in c.get("description", "")]
        if tool:
            res["undecided"].append("K: harness %s: tool limit: %s" % (name, tool[0].get("description", "")[:120]))
            continue
        # a failed check is a violation; replay the counterexample natively against the real expansion
        playback = playbacks.get(name, {})
        vecs = [v for hh, lst in playback.items() if hh.split("::")[-1] == name for (kind, desc, v) in lst if kind != "cover"]
        path = os.path.join(rdir, "K-%s.txt" % name)
        found = False
        with open(path, "w") as fh:
            fh.write("property: %s\nfailed obligation: Kani harness `%s` (Hoare triple around the real expansion)\n" % (pid, name))
            fh.write("program: %s\n%s\n" % (h.program, h.note))
            for c in real[:5]:
                fh.write("failed check: %s @ %s:%s\n" % (c.get("description"), c.get("location", {}).get("file"), c.get("location", {}).get("line")))
            if vecs:
                vec = vecs[0]
                arg = ";".join(",".join(str(x) for x in v) for v in vec)
                fh.write("counterexample (kani::any() values in call order): %s\n" % vec)
                if not replay_built:
                    bp = subprocess.run(["cargo", "build", "--offline", "--bin", "replay"], cwd=d, env=ENV, capture_output=True, text=True)
                    replay_built = bp.returncode == 0
                    if not replay_built:
                        fh.write("native replay build failed:\n%s\n" % bp.stderr[-2000:])
                if replay_built:
                    rp = subprocess.run([os.path.join(d, "target", "debug", "replay"), name, arg], capture_output=True, text=True, timeout=120)
                    fh.write("native replay: exit %d\n%s\n%s\n" % (rp.returncode, rp.stdout[-1500:], rp.stderr[-3000:]))
                    found = rp.returncode != 0 and "REPLAY: assumption violated" not in rp.stderr
                    fh.write("replay command: cd %s && cargo build --offline --bin replay && target/debug/replay %s '%s'\n" % (d, name, arg))
            else:
                fh.write("no concrete playback vector was printed for the failed check\n")
            fh.write("\nsource of the harness: %s/src/lib.rs (fn %s)\n" % (d, name))
        if name in playbacks:
            res["violations"].append({"engine": "K", "obligation": name, "key": "K:%s" % name, "replay": path, "found_input": found,
                                      "summary": real[0].get("description", "")[:160]})
        else:
            res.setdefault("more_failed", []).append(name)
    if res.get("more_failed"):
        print("(+%d more failing Kani harnesses, counterexamples not extracted: %s)" % (len(res["more_failed"]), ", ".join(res["more_failed"][:30])))
    res["coverage"] = {"harnesses": len(hs), "passed": res["passed"], "failed_not_replayed": res.get("more_failed", []), "cbmc_checks": checks_total, "cbmc_checks_passed": checks_passed,
                       "covers_satisfied": covers_sat, "covers_unsatisfiable": covers_unsat,
                       "solver_s": round(solver_s, 2), "wall_s": round(wall, 1), "samples": samples,
                       "kani": (j.get("metadata", {}) or {}).get("kani_version"), "bound": "programs enumerated by kani/gen.py for tier %s" % tier}
    return res
