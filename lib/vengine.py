"""Engine V: mechanical extraction of real functions + Verus (DESIGN.md 3.1).

run_modules(mods) extracts and verifies each module (one Verus file each, in parallel) from the
CURRENT working tree of /repo and returns per-module results:
  status: ok | undecided ; functions: {name: {success, time_ms}} ; errors: [...]
"""
import concurrent.futures as cf
import json
import os
import re
import subprocess
import sys
import time

ROOT = os.path.dirname(os.path.dirname(os.path.abspath(__file__)))
sys.path.insert(0, os.path.join(ROOT, "verus"))
CACHE = os.path.join(os.environ.get("VERIF_WORK", ROOT), ".cache", "verus")
EXTRACT = os.path.join(ROOT, "tools", "extract", "target", "release", "extract")
REPO = os.environ.get("VERIF_REPO", "/repo")
RLIMIT = os.environ.get("VERIF_RLIMIT", "50")


def _strip(fn):
    # "gen::ProcessExpr::to_tokens" -> "ProcessExpr::to_tokens"
    return fn.split("::", 1)[1] if "::" in fn else fn


def scan_assumptions(gen_text):
    """mechanical scan of the generated file for unproved assumptions"""
    out = []
    lines = gen_text.split("\n")
    ctx = ""
    for i, l in enumerate(lines):
        m = re.match(r"\s*(pub\s+)?impl(<[^>]*>)?\s+(.*?)\s*\{", l)
        if m and not l.startswith("    "):
            ctx = m.group(3).strip()
        elif l.startswith("}"):
            ctx = ""
        if "#[verifier::external_body]" in l:
            rest = l.split("#[verifier::external_body]", 1)[1]
            j = i
            if not re.search(r"\b(fn|struct)\s", rest):
                j = i + 1
                while j < len(lines) and (lines[j].strip().startswith("#[") or not lines[j].strip()):
                    j += 1
                rest = lines[j] if j < len(lines) else ""
            m = re.search(r"\b(fn|struct)\s+([A-Za-z_0-9]+)", rest)
            name = m.group(0) if m else rest.strip()[:60]
            out.append("external_body: %s%s" % ((ctx + " :: ") if ctx and m and m.group(1) == "fn" else "", name))
        m = re.search(r"assume_specification\s*(<[^>]*>)?\s*\[\s*([^\]]+)\]", l)
        if m:
            out.append("assume_specification: %s" % m.group(2).strip())
        if re.search(r"\b(assume|admit)\s*\(", l) and not l.strip().startswith("//"):
            out.append("assume/admit at generated line %d: %s" % (i + 1, l.strip()[:80]))
    return sorted(set(out))


def run_module(mod, tag=""):
    import plan
    # one directory per (property, module): checks of different properties may run at the same time
    d = os.path.join(CACHE, tag, mod) if tag else os.path.join(CACHE, mod)
    os.makedirs(d, exist_ok=True)
    pj, gen, lg = os.path.join(d, "plan.json"), os.path.join(d, "gen.rs"), os.path.join(d, "extract_log.json")
    res = {"module": mod, "status": "ok", "functions": {}, "errors": [], "rewrites": [], "assumed_items": [],
           "assumptions": [], "items": [], "gen_path": gen}
    try:
        p = plan.build_plan(REPO, mod)
    except Exception as e:  # plan error = machinery error
        res["status"] = "undecided"
        res["errors"].append({"kind": "plan", "text": repr(e)})
        return res
    json.dump(p, open(pj, "w"))
    for f in (gen, lg):
        if os.path.exists(f):
            os.remove(f)
    t0 = time.time()
    r = subprocess.run([EXTRACT, pj, gen, lg], capture_output=True, text=True)
    res["extract_s"] = round(time.time() - t0, 2)
    if os.path.exists(lg):
        log = json.load(open(lg))
        res["rewrites"] = log.get("rewrites", [])
        res["assumed_items"] = log.get("assumed", [])
        res["items"] = log.get("items", [])
        res["line_map"] = log.get("line_map", [])
    if r.returncode != 0:
        res["status"] = "undecided"
        res["errors"].append({"kind": "extract", "text": r.stderr.strip()})
        return res
    gen_text = open(gen).read()
    res["assumptions"] = scan_assumptions(gen_text)
    unmodelled = re.findall(r"^// R9-UNMODELLED: (.*)$", gen_text, re.M)
    if unmodelled and mod == "names":
        # the lemmas of this module quantify over the complete family of generated names
        res["status"] = "undecided"
        res["errors"].append({"kind": "tool-limit", "first": "names table incomplete", "owner": None, "owners": [],
                              "text": "name constructor(s) outside the shapes rule R9 models: " + "; ".join(unmodelled)})
        return res
    cmd = ["verus", gen, "--output-json", "--time", "--rlimit", RLIMIT, "--multiple-errors", "3"]
    res["checker_cmd"] = "tools/extract/target/release/extract plan.json gen.rs log.json && " + " ".join(
        ["verus", "gen.rs"] + cmd[2:])
    t0 = time.time()
    v = subprocess.run(cmd, capture_output=True, text=True, cwd=d)
    res["verus_s"] = round(time.time() - t0, 2)
    res["verus_exit"] = v.returncode
    stderr = v.stderr
    open(os.path.join(d, "verus_stderr.txt"), "w").write(stderr)
    try:
        j = json.loads(v.stdout)
    except Exception:
        j = None
    res["verus_version"] = (j or {}).get("verus", {}).get("version")
    vr = (j or {}).get("verification-results", {})
    res["verified"] = vr.get("verified")
    res["n_errors"] = vr.get("errors")
    smt = (j or {}).get("times-ms", {}).get("smt", {})
    for m in smt.get("smt-run-module-times", []):
        for f in m.get("function-breakdown", []):
            res["functions"][_strip(f["function"])] = {"success": bool(f["success"]), "time_ms": f["time"],
                                                        "mode": f.get("mode:", "")}
    res["smt_ms"] = sum(f["time_ms"] for f in res["functions"].values())
    # diagnostics: split stderr into error blocks and map each to the generated item
    blocks = re.split(r"\n(?=error)", "\n" + stderr)
    lm = res.get("line_map", [])

    def item_at(line):
        for e in lm:
            if e["gen_start"] <= line <= e["gen_end"]:
                return e
        return None
    for b in blocks:
        b = b.strip()
        if not b.startswith("error") or b.startswith("error: aborting"):
            continue
        first = b.split("\n")[0]
        locs = [int(x) for x in re.findall(r"gen\.rs:(\d+):", b)]
        owners = []
        gl = gen_text.split("\n")
        for ln in locs:
            it = item_at(ln)
            if it is None:
                continue
            if it["kind"] in ("fn", "assumed", "decl", "exprs"):
                lab = it["item"]
                m2 = re.match(r"<(\w+) as \w+>::(\w+)", lab)
                if m2:
                    lab = "%s::%s" % (m2.group(1), m2.group(2))
                owners.append(lab)
            else:
                # raw unit (lemmas, prelude): enclosing fn name
                k = ln - 1
                while k >= 0:
                    m2 = re.match(r"\s*(pub\s+)?(proof\s+|exec\s+|open\s+spec\s+|closed\s+spec\s+|spec\s+)?fn\s+([A-Za-z_0-9]+)", gl[k])
                    if m2:
                        owners.append(m2.group(3))
                        break
                    k -= 1
        its = []
        owner = owners[-1] if owners else None
        kind = "proof-failure"
        is_rustc = re.match(r"error\[E\d+\]", first) is not None
        unsupported = "does not yet support" in b or "not supported" in b or "unsupported" in b.lower()
        rlimit = "Resource limit" in b or "rlimit" in b
        if is_rustc or unsupported:
            kind = "tool-limit"
        elif rlimit:
            kind = "rlimit"
        elif "simplifies to false" in b or "failed to simplify" in b:
            kind = "compute-failure"
        res["errors"].append({"kind": kind, "first": first, "owner": owner,
                              "owners": sorted(set(owners)), "text": b[:4000]})
    hard = [e for e in res["errors"] if e["kind"] in ("tool-limit", "rlimit")]
    if j is None or hard or (vr.get("encountered-vir-error") and not any(e["kind"] == "compute-failure" for e in res["errors"])):
        res["status"] = "undecided"
    return res


def run_modules(mods, tag=""):
    mods = sorted(set(mods))
    with cf.ThreadPoolExecutor(max_workers=min(8, max(1, len(mods)))) as ex:
        return {m: r for m, r in zip(mods, ex.map(lambda m: run_module(m, tag), mods))}
