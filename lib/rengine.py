"""Engine R: native executable contracts on the real join_impl (public API) over exhaustive finite domains.
Bounded stand-in (never counted as proved) + replay of failing inputs (DESIGN.md 3.3)."""
import json
import os
import subprocess
import time

ROOT = os.path.dirname(os.path.dirname(os.path.abspath(__file__)))
REPO = os.environ.get("VERIF_REPO", "/repo")
ENV = dict(os.environ, CARGO_NET_OFFLINE="true")
WORK = os.environ.get("VERIF_WORK", ROOT)   # a private work area (seed matrix runs): sources are copied there


def _crate(name):
    src = os.path.join(ROOT, name)
    if WORK == ROOT:
        return src
    import shutil
    dst = os.path.join(WORK, name)
    os.makedirs(os.path.join(dst, "src"), exist_ok=True)
    for f in os.listdir(os.path.join(src, "src")):
        a, b = os.path.join(src, "src", f), os.path.join(dst, "src", f)
        if not os.path.exists(b) or open(a).read() != open(b).read():
            shutil.copy(a, b)
    return dst


RAC = _crate("rac")


CARGO_TOML = """[package]
name = "rac"
version = "0.1.0"
edition = "2021"

[dependencies]
join_impl = { path = "%s/join_impl" }
syn = { version = "1.0", features = ["full", "extra-traits", "parsing", "printing"] }
quote = "1.0"
proc-macro2 = "1.0"

[workspace]

[profile.dev]
opt-level = 1
debug = 0
"""


def build():
    want = CARGO_TOML % REPO
    ct = os.path.join(RAC, "Cargo.toml")
    if not os.path.exists(ct) or open(ct).read() != want:
        open(ct, "w").write(want)
    lock = os.path.join(RAC, "Cargo.lock")
    if not os.path.exists(lock):
        import shutil
        shutil.copy(os.path.join(REPO, "Cargo.lock"), lock)
    p = subprocess.run(["cargo", "build", "--offline"], cwd=RAC, env=ENV, capture_output=True, text=True)
    return p


RAC2 = _crate("rac2")
CARGO2_TOML = """[package]
name = "rac2"
version = "0.1.0"
edition = "2021"

[dependencies]
join = { path = "%s/join" }
futures = "0.3.0"
tokio = { version = "1.0.1", features = ["rt", "rt-multi-thread", "time", "macros"] }

[workspace]

[profile.dev]
debug = 0
"""


RAC3 = _crate("rac3")
CARGO3_TOML = CARGO2_TOML.replace('name = "rac2"', 'name = "rac3"').replace('futures = "0.3.0"', 'fut = { package = "futures", version = "0.3.0" }')


def build2(which=2):
    global RAC2
    d = RAC2 if which == 2 else RAC3
    want = (CARGO2_TOML if which == 2 else CARGO3_TOML) % REPO
    ct = os.path.join(d, "Cargo.toml")
    if not os.path.exists(ct) or open(ct).read() != want:
        open(ct, "w").write(want)
    lock = os.path.join(d, "Cargo.lock")
    if not os.path.exists(lock):
        import shutil
        shutil.copy(os.path.join(REPO, "Cargo.lock"), lock)
    return subprocess.run(["cargo", "build", "--offline"], cwd=d, env=ENV, capture_output=True, text=True)


def run(pid, fams, tier, rdir, seed):
    t0 = time.time()
    res = {"cases": 0, "passed": 0, "violations": [], "undecided": [], "coverage": {"families": {}, "samples": []},
           "assumptions": ["[R] bounded stand-in: exhaustive over the stated finite domains only; join_impl is driven through its public API (syn::parse2::<JoinInputDefault>, generate_join, public enum/trait methods)"]}
    b = build()
    if b.returncode != 0:
        res["undecided"].append("R: native contract crate did not build against /repo/join_impl: %s" % b.stderr[-600:])
        return res
    exe = os.path.join(RAC, "target", "debug", "rac")
    for fam in fams:
        if fam == "futures_path":
            b3 = build2(3)
            if b3.returncode != 0:
                # the only way these programs fail to build is an expansion that does not take a futures item from the given path
                errs = [l for l in b3.stderr.split("\n") if l.startswith("error")]
                path = os.path.join(rdir, "R-futures_path-build.txt")
                with open(path, "w") as fh:
                    fh.write("property: %s\nfailed obligation: programs with futures_crate_path(::fut) must compile in a crate where `::futures` does not exist\n\n%s\n" % (pid, b3.stderr[-4000:]))
                    fh.write("\nreplay: cd %s && cargo build --offline\n" % RAC3)
                res["cases"] += 1
                res["violations"].append({"engine": "R", "obligation": "futures_path(build)", "key": "R:futures_path:build", "replay": path, "found_input": True,
                                          "summary": "; ".join(errs[:2])[:200]})
                continue
            p = subprocess.run([os.path.join(RAC3, "target", "debug", "rac3")], capture_output=True, text=True, timeout=600)
        elif fam == "spawn_agree":
            b2 = build2()
            if b2.returncode != 0:
                # every program is instantiated under all macros of its agreement class by ONE macro_rules template: if rustc
                # rejects the expansion of some macros of a class and accepts the others, the variants do not agree (C07)
                import re
                blocks = [b_ for b_ in re.split(r"\n(?=error)", "\n" + b2.stderr) if b_.strip().startswith("error") and not b_.strip().startswith("error: could not compile") and not b_.strip().startswith("error: aborting")]
                origins = [set(re.findall(r"originates in the macro `(\w+)`", b_)) for b_ in blocks]
                classes = [("join", "join_spawn", "spawn"), ("try_join", "try_join_spawn", "try_spawn"),
                           ("join_async", "join_async_spawn", "async_spawn"), ("try_join_async", "try_join_async_spawn", "try_async_spawn")]
                all12 = set(m for c in classes for m in c)
                failing = set(m for o in origins for m in o if m in all12)
                split = [c for c in classes if 0 < len(failing & set(c)) < len(c)]
                if blocks and all(o & all12 for o in origins) and split:
                    path = os.path.join(rdir, "R-spawn_agree-build.txt")
                    with open(path, "w") as fh:
                        fh.write("property: %s\nfailed obligation: the same program must compile (and agree) under every macro of its agreement class\n" % pid)
                        for c in split:
                            fh.write("class %s: rejected under %s, accepted under %s\n" % (c, sorted(failing & set(c)), sorted(set(c) - failing)))
                        fh.write("\n%s\n\nreplay: cd %s && cargo build --offline\n" % (b2.stderr[-6000:], RAC2))
                    res["cases"] += 1
                    res["violations"].append({"engine": "R", "obligation": "spawn_agree(build)", "key": "R:spawn_agree:build", "replay": path, "found_input": True,
                                              "summary": ("compiles under %s but not under %s: %s" % (sorted(set(split[0]) - failing), sorted(failing & set(split[0])), blocks[0].split("\n")[0]))[:220]})
                else:
                    res["undecided"].append("R: spawn_agree programs did not build: %s" % b2.stderr[-600:])
                continue
            p = subprocess.run([os.path.join(RAC2, "target", "debug", "rac2"), "3" if tier == "quick" else "25"], capture_output=True, text=True, timeout=3600)
        else:
            p = subprocess.run([exe, fam, tier], capture_output=True, text=True, timeout=3600)
        line = next((l for l in p.stdout.split("\n") if l.startswith("{")), None)
        if p.returncode != 0 or line is None:
            res["undecided"].append("R: family %s did not finish (exit %d): %s" % (fam, p.returncode, p.stderr[-300:]))
            continue
        d = json.loads(line)
        res["cases"] += d["cases"]
        res["passed"] += d["passed"]
        res["nontrivial"] = res.get("nontrivial", 0) + d.get("nontrivial", d["cases"])
        res["coverage"]["families"][fam] = {"cases": d["cases"], "passed": d["passed"], "nontrivial": d.get("nontrivial", d["cases"]), "exhaustive": d["exhaustive"], "notes": d["notes"]}
        res["coverage"]["samples"] += ["R:%s: %s" % (fam, s) for s in d["samples"][:3]]
        for k, f in enumerate(d["failures"][:8]):
            path = os.path.join(rdir, "R-%s-%d.txt" % (fam, k))
            with open(path, "w") as fh:
                fh.write("property: %s\nfailed obligation: executable contract of family `%s` on the real join_impl\n" % (pid, fam))
                fh.write("failing input: %s\nobserved: %s\n" % (f["input"], f["what"]))
                fh.write("replay: cd %s && cargo build --offline && target/debug/rac %s %s   (the first failures are listed with their inputs)\n" % (RAC, fam, tier))
            res["violations"].append({"engine": "R", "obligation": "%s[%d]" % (fam, k), "key": "R:%s:%s" % (fam, f["input"]), "replay": path,
                                      "found_input": True, "summary": ("%s | %s" % (f["input"], f["what"]))[:200]})
    res["coverage"]["wall_s"] = round(time.time() - t0, 1)
    return res
