// ======================================================================================
// What the parser guarantees about ONE action / ONE chain member, in the terms the generator's preconditions use
// (shared by the modules `parse`, `builder`, `gen`, `top`)
// ======================================================================================

/// C02: "`>>>` after a non-wrapper operator or combined with `<<<`" is rejected, so every action the parser
/// produces satisfies: Wrap only on the ten wrapper-capable operators; Unwrap exactly on `<<<`
pub open spec fn group_wf(g: ActionGroup) -> bool {
    &&& (g.move_type == MoveType::Wrap ==> doc_wrapper_meaning(meaning_of_ctor(parse_table(g.combinator).1)) && g.combinator != Combinator::UNWRAP)
    &&& ((g.move_type == MoveType::Unwrap) <==> (g.combinator == Combinator::UNWRAP))
}

/// a Wrap action built by `to_wrapper_action_expr` is a frame the generator's stack accepts
pub proof fn lemma_wrapper_frame(g: ActionGroup, e: ExprGroup<ActionExpr>)
    requires
        group_wf(g), g.move_type == MoveType::Wrap,
        e.expr.ctor_of() == parse_table(g.combinator).1, e.expr.operands().len() == 1,
    ensures e.expr.operands().len() == 1 && !must_not_hoist(e.expr.ctor_of()) && !(e.expr is Initial),
{
}

/// an action the generator can print: everything but a bare `<<<`
pub open spec fn printable(e: ActionExpr) -> bool {
    !(e matches ActionExpr::Process(p) && p is UNWRAP)
}


pub open spec fn opt_group_wf(o: Option<ActionGroup>) -> bool {
    match o { Some(g) => group_wf(g), None => true }
}

/// one member of a chain as the generator needs it: a `>>>` sits on a one-operand non-member operator (the placeholder
/// built by `to_wrapper_action_expr`), a `<<<` is the bare UNWRAP, everything else can be printed
pub open spec fn member_ok(m: ExprGroup<ActionExpr>) -> bool {
    match m.action.move_type {
        MoveType::Wrap => m.expr.operands().len() == 1 && !must_not_hoist(m.expr.ctor_of()) && !(m.expr is Initial),
        MoveType::Unwrap => true,
        MoveType::None => printable(m.expr),
    }
}

/// a whole chain as `build_from_parse_stream` hands it over: at least the initial value, which never carries the `~`
/// mark, and every member is one the generator can process
pub open spec fn members_ok(ms: Seq<ExprGroup<ActionExpr>>) -> bool {
    &&& ms.len() >= 1
    &&& ms[0].action.application_type == ApplicationType::Instant
    &&& forall|i: int| 0 <= i < ms.len() ==> member_ok(#[trigger] ms[i])
}

/// the only operator the table maps to the bare `<<<` expression is UNWRAP itself
pub proof fn lemma_unwrap_only_from_unwrap(c: Combinator)
    ensures parse_table(c).1 == Ctor::ProcessExpr(ProcessExprCtor::UNWRAP) ==> c == Combinator::UNWRAP,
{
}

/// what one successful `parse_stream` call contributes (parser facts -> member_ok)
pub proof fn lemma_member_ok(g: ActionGroup, e: ExprGroup<ActionExpr>)
    requires
        group_wf(g), e.action == g, e.expr.ctor_of() == parse_table(g.combinator).1,
        g.move_type == MoveType::Wrap ==> e.expr.operands().len() == 1,
    ensures member_ok(e),
{
    lemma_unwrap_only_from_unwrap(g.combinator);
    if g.move_type == MoveType::Wrap { lemma_wrapper_frame(g, e); }
}
