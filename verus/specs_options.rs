// ======================================================================================
// <JoinInputDefault as Parse>::parse, the four option blocks (C16): each block is guarded by ITS keyword, writes ITS field
// only, and rejects a second occurrence.  One peek, then consumption: the peek is a pure function of the stream there.
// ======================================================================================

pub mod keywords {
    #[allow(non_camel_case_types)] pub struct futures_crate_path;
    #[allow(non_camel_case_types)] pub struct transpose_results;
    #[allow(non_camel_case_types)] pub struct lazy_branches;
    #[allow(non_camel_case_types)] pub struct custom_joiner;
}
impl Kw for keywords::futures_crate_path { open spec fn id() -> int { 11 } }
impl Kw for keywords::custom_joiner { open spec fn id() -> int { 12 } }
impl Kw for keywords::transpose_results { open spec fn id() -> int { 13 } }
impl Kw for keywords::lazy_branches { open spec fn id() -> int { 14 } }
impl Parse for keywords::futures_crate_path {}
impl Parse for keywords::custom_joiner {}
impl Parse for keywords::transpose_results {}
impl Parse for keywords::lazy_branches {}
impl Parse for Path {}
impl Parse for TokenStream {}

/// `syn::LitBool`
pub struct LitBool { pub value: bool }
impl Parse for LitBool {}

/// `parenthesized!(content in input)` (R11): the parenthesised sub-stream, or the error
#[verifier::external_body]
pub fn parenthesized_in(input: ParseStream<'_>) -> (r: syn::Result<ParseBuffer>) { unimplemented!() }

/// the four options as a tuple (futures path, joiner, transpose, lazy): which ones are set
pub open spec fn opts_frame(a: JoinInputDefault, b: JoinInputDefault, fp: bool, cj: bool, tr: bool, lz: bool) -> bool {
    &&& (fp || b.futures_crate_path == a.futures_crate_path)
    &&& (cj || b.custom_joiner == a.custom_joiner)
    &&& (tr || b.transpose_results == a.transpose_results)
    &&& (lz || b.lazy_branches == a.lazy_branches)
    &&& b.branches == a.branches && b.handler == a.handler
}

// ---- call-out twins for the WHOLE-function proof of `parse`: the verified contracts of `parse_option_<kw>` MINUS their peek
// clauses (weaker, hence sound to assume; the peek clauses are only meaningful within one block, A13)
impl JoinInputDefault {
    #[verifier::external_body]
    fn parse_option_futures_crate_path_w(input: ParseStream<'_>, join: JoinInputDefault) -> (r: syn::Result<JoinInputDefault>)
        ensures r is Ok ==> opts_frame(join, r->Ok_0, true, false, false, false), { unimplemented!() }
    #[verifier::external_body]
    fn parse_option_custom_joiner_w(input: ParseStream<'_>, join: JoinInputDefault) -> (r: syn::Result<JoinInputDefault>)
        ensures r is Ok ==> opts_frame(join, r->Ok_0, false, true, false, false), { unimplemented!() }
    #[verifier::external_body]
    fn parse_option_transpose_results_w(input: ParseStream<'_>, join: JoinInputDefault) -> (r: syn::Result<JoinInputDefault>)
        ensures r is Ok ==> opts_frame(join, r->Ok_0, false, false, true, false), { unimplemented!() }
    #[verifier::external_body]
    fn parse_option_lazy_branches_w(input: ParseStream<'_>, join: JoinInputDefault) -> (r: syn::Result<JoinInputDefault>)
        ensures r is Ok ==> opts_frame(join, r->Ok_0, false, false, false, true), { unimplemented!() }
}

/// the three determiner constants of join/parse.rs (their rows are the R9 table `determiners`; opaque values here)
#[verifier::external_body]
pub fn default_group_determiners() -> (r: &'static [GroupDeterminer]) { unimplemented!() }
#[verifier::external_body]
pub fn deferred_determiner() -> (r: &'static GroupDeterminer) { unimplemented!() }
#[verifier::external_body]
pub fn wrapper_determiner() -> (r: &'static GroupDeterminer) { unimplemented!() }
