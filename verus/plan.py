"""Extraction plan + contracts for engine V (DESIGN.md 3.1).

build_plan(repo) -> dict for tools/extract.  Contracts are keyed by item path; bodies come
from /repo on every run.  OBLIGATIONS maps each property to the Verus functions (as named in
Verus' --output-json function-breakdown, without the crate prefix) that carry it.
"""
import os

HERE = os.path.dirname(os.path.abspath(__file__))


def _read(name):
    return open(os.path.join(HERE, name)).read()


def raw(label, text):
    return {"kind": "raw", "label": label, "text": text}


def ty(file, name, attrs="", ctor_enum=False, subst=None):
    return {"kind": "type", "file": file, "name": name, "attrs": attrs, "ctor_enum": ctor_enum,
            "subst": subst or []}


def fns(file, fl, self_ty="", trait="", extra="", header=""):
    return {"kind": "fns", "file": file, "self_ty": self_ty, "trait_": trait, "extra": extra,
            "header": header, "fns": fl}


def fn(name, ret="", requires=(), ensures=(), mode="verify", closures=None, loops=None, subst=None,
       attrs="", proof_prologue="", proof_epilogue="", iter_loops=None, label="", opaque_quotes=(), tail_from="", tail_call="", method_helpers=None, chain_helpers=None,
       block_call_from="", block_call="", stmt_calls=None):
    return {"name": name, "ret": ret, "requires": list(requires), "ensures": list(ensures),
            "mode": mode, "closures": closures or {}, "loops": loops or {}, "subst": subst or [],
            "attrs": attrs, "proof_prologue": proof_prologue, "proof_epilogue": proof_epilogue,
            "iter_loops": iter_loops or {}, "label": label, "opaque_quotes": list(opaque_quotes),
            "tail_from": tail_from, "tail_call": tail_call, "method_helpers": method_helpers or {}, "chain_helpers": chain_helpers or {},
            "block_call_from": block_call_from, "block_call": block_call, "stmt_calls": stmt_calls or {}}


def table(what, file, name):
    return {"kind": "table", "what": what, "file": file, "name": name}


F_COMB = "join_impl/src/chain/group/combinator.rs"
F_TYPES = "join_impl/src/chain/group/types.rs"
F_AG = "join_impl/src/chain/group/action_group.rs"
F_EG = "join_impl/src/chain/group/expr_group.rs"
F_PE = "join_impl/src/chain/expr/process_expr.rs"
F_EE = "join_impl/src/chain/expr/err_expr.rs"
F_IE = "join_impl/src/chain/expr/initial_expr.rs"
F_AE = "join_impl/src/chain/expr/action_expr.rs"
F_EMOD = "join_impl/src/chain/expr/mod.rs"
F_H = "join_impl/src/handler.rs"
F_NC = "join_impl/src/join/name_constructors.rs"
F_CFG = "join_impl/src/join/config.rs"
F_JO = "join_impl/src/join/join_output.rs"
F_PARSE = "join_impl/src/join/parse.rs"
F_UTILS = "join_impl/src/parse/utils.rs"
F_BUILDER = "join_impl/src/action_expr_chain/builder.rs"
F_LIB = "join/src/lib.rs"
F_UNIT = "join_impl/src/parse/unit.rs"
F_CHAIN = "join_impl/src/action_expr_chain/mod.rs"
F_JMOD = "join_impl/src/join/mod.rs"
F_GD = "join_impl/src/chain/group/group_determiner.rs"

PARSE_STREAM_ENSURES = [
    # the next group comes from the unit parser (parse_until): whatever that one promises about it
    "r is Ok ==> unit_parser.next_wf(r->Ok_0.next)",
    "r is Ok ==> r->Ok_0.parsed.action == *self",
    "r is Ok ==> r->Ok_0.parsed.expr.ctor_of() == parse_table(self.combinator).1",
    "r is Ok && self.combinator == Combinator::Initial ==> r->Ok_0.parsed.expr.operands().len() == 1",
    "r is Ok && self.move_type == MoveType::Wrap ==> r->Ok_0.parsed.expr.operands().len() == 1 && is_identity_closure(r->Ok_0.parsed.expr.operands()[0].toks()) && doc_wrapper_meaning(meaning_of_ctor(parse_table(self.combinator).1))",
]

# the meaning of the combinator through the two extracted tables
M_OF_COMB = "meaning_of_ctor(parse_table({c}).1)"


MODULES = ["core", "optable", "entries", "gen", "guards", "names", "det", "builder", "parse", "sep", "steps", "top", "step", "handler"]


def common_units():
    u = []
    u.append(raw("header", "#![allow(unused_imports, unused_variables, unused_mut, dead_code, unused_parens, unused_braces, non_snake_case)]\nuse vstd::prelude::*;\nverus! {\n"))
    u.append(raw("prelude", _read("prelude.rs")))

    # ------------------------------------------------------------------ data types (R1)
    u.append(ty(F_COMB, "Combinator", "#[derive(Clone, Copy, PartialEq, Eq)]\n"))
    u.append(ty(F_TYPES, "ApplicationType", "#[derive(Clone, Copy, PartialEq, Eq)]\n"))
    u.append(ty(F_TYPES, "MoveType", "#[derive(Clone, Copy, PartialEq, Eq)]\n"))
    u.append(ty(F_AG, "ActionGroup", "#[derive(Clone, Copy)]\n"))
    u.append(ty(F_PE, "ProcessExpr", ctor_enum=True))
    u.append(ty(F_EE, "ErrExpr", ctor_enum=True))
    u.append(ty(F_IE, "InitialExpr", ctor_enum=True))
    u.append(ty(F_AE, "ActionExpr"))
    u.append(ty(F_H, "Handler"))
    u.append(ty(F_CFG, "Config"))
    u.append(raw("specs_tables", _read("specs_tables.rs")))
    u.append(raw("specs_doc", _read("specs_doc.rs")))

    # ------------------------------------------------------------------ tables (R9)
    u.append(table("parse_action_expr", F_AG, "parse_table"))
    u.append(table("unit_parsers", F_EG, "unit_parser_table"))
    u.append(table("determiners", F_PARSE, "det_table"))
    u.append(table("configs", F_LIB, "entry_table"))
    u.append(table("names", F_NC, "names"))
    u.append(table("quote_idents", F_PE, "qi"))
    u.append(raw("specs_bridge", _read("specs_bridge.rs")))
    u.append(raw("specs_lemma_defs", _read("lemma_defs.rs")))
    u.append(raw("specs_guards", _read("specs_guards.rs")))

    # ------------------------------------------------------------------ derived Clone (A5)
    u.append(raw("clone_specs", """
// A5: `#[derive(Clone)]` on the repository's expression types is structural
impl Clone for ProcessExpr { #[verifier::external_body] fn clone(&self) -> (r: Self) ensures r == *self { unimplemented!() } }
impl Clone for ErrExpr { #[verifier::external_body] fn clone(&self) -> (r: Self) ensures r == *self { unimplemented!() } }
impl Clone for InitialExpr { #[verifier::external_body] fn clone(&self) -> (r: Self) ensures r == *self { unimplemented!() } }
impl Clone for ActionExpr { #[verifier::external_body] fn clone(&self) -> (r: Self) ensures r == *self { unimplemented!() } }
pub assume_specification [<Combinator as PartialEq>::eq] (a: &Combinator, b: &Combinator) -> (r: bool) ensures r == (*a == *b);
pub assume_specification [<MoveType as PartialEq>::eq] (a: &MoveType, b: &MoveType) -> (r: bool) ensures r == (*a == *b);
pub assume_specification [<ApplicationType as PartialEq>::eq] (a: &ApplicationType, b: &ApplicationType) -> (r: bool) ensures r == (*a == *b);
"""))

    # ------------------------------------------------------------------ InnerExpr trait (contracts shared by all modules)
    u.append(TRAIT_INNER_EXPR)
    return u


TRAIT_INNER_EXPR = {"kind": "trait", "file": F_EMOD, "name": "InnerExpr", "header": "pub trait InnerExpr: Sized",
              "extra": """    /// ghost: expression operands, in source order
    spec fn operands(&self) -> Seq<Expr>;
    /// ghost: which operator this is
    spec fn ctor_of(&self) -> Ctor;
""",
              "fns": [
                  fn("inner_exprs", "r", ensures=[
                      "match r { Some(s) => s@ =~= self.operands() && s@.len() > 0, None => self.operands().len() == 0 }"]),
                  fn("replace_inner_exprs", "r", ensures=[
                      # C02/C11: the same operator comes back ...
                      "r is Some ==> r->0.ctor_of() == self.ctor_of()",
                      # ... holding exactly the supplied operands, all of them, in order
                      "(expr@.len() == self.operands().len() && expr@.len() > 0 && !must_not_hoist(self.ctor_of())) ==> (r is Some && r->0.operands() =~= expr@)",
                      "self.operands().len() == 0 ==> r is None",
                  ]),
                  fn("is_replaceable", "r"),
              ]}


def _assume(units):
    """module-local copies of functions verified in module `core`: contract only (modular verification)"""
    out = []
    for un in units:
        un = dict(un)
        if un.get("kind") == "fns":
            un["fns"] = [dict(f, mode="assumed", closures={}, proof_prologue="", proof_epilogue="", iter_loops={},
                              subst=[x for x in f.get("subst", []) if x.get("sig")]) for f in un["fns"]]
        if un.get("kind") == "resolved":
            un["mode"] = "assumed"
        out.append(un)
    return out


def core_units():
    u = []
    # ------------------------------------------------------------------ Combinator predicates
    u.append(fns(F_COMB, [
        fn("is_err_expr", "r", ensures=["r == (parse_table(self).1 is ErrExpr)"]),
        fn("is_initial_expr", "r", ensures=["r == (parse_table(self).1 is InitialExpr)"]),
        fn("is_process_expr", "r", ensures=["r == (parse_table(self).1 is ProcessExpr)"]),
        # C02: exactly the ten documented wrapper-capable operators
        fn("can_be_wrapper", "r", ensures=["r == doc_wrapper_meaning(%s)" % M_OF_COMB.format(c="self")]),
    ], self_ty="Combinator"))

    # ------------------------------------------------------------------ InnerExpr impls
    u.append(fns(F_PE, [
        fn("inner_exprs", "r"),
        fn("replace_inner_exprs", "r", closures={
            "0": {"params": ["Expr"], "ret": "(r: Option<Self>)",
                  "requires": ["exprs@.len() > 0", "expr == exprs@.last()"],
                  "ensures": [
                      "r is Some ==> r->0.ctor_of() == self.ctor_of()",
                      "(exprs@.len() == self.operands().len() && !must_not_hoist(self.ctor_of())) ==> (r is Some && r->0.operands() =~= exprs@)",
                      "self.operands().len() == 0 ==> r is None"]},
            "1": {"params": ["Expr"], "ret": "(r: Self)", "ensures": ["r == ProcessExpr::Fold([first_expr, expr])"]},
            "2": {"params": ["Expr"], "ret": "(r: Self)", "ensures": ["r == ProcessExpr::TryFold([first_expr, expr])"]},
        }),
        # C11: every operator with expression operands hoists, member access never does
        fn("is_replaceable", "r", ensures=[
            "must_hoist(self.ctor_of(), self.operands().len() as int) ==> r",
            "must_not_hoist(self.ctor_of()) ==> !r"]),
    ], self_ty="ProcessExpr", trait="InnerExpr", extra="""    open spec fn operands(&self) -> Seq<Expr> { process_operands(*self) }
    open spec fn ctor_of(&self) -> Ctor { Ctor::ProcessExpr(self.ctor()) }
"""))

    u.append(fns(F_EE, [
        fn("inner_exprs", "r"),
        fn("replace_inner_exprs", "r", closures={
            "0": {"params": ["Expr"], "ret": "(r: Self)",
                  "requires": ["exprs@.len() > 0", "expr == exprs@.last()"],
                  "ensures": ["r.ctor_of() == self.ctor_of()", "r.operands() =~= seq![expr]"]},
        }),
    ], self_ty="ErrExpr", trait="InnerExpr", extra="""    open spec fn operands(&self) -> Seq<Expr> { err_operands(*self) }
    open spec fn ctor_of(&self) -> Ctor { Ctor::ErrExpr(self.ctor()) }
"""))

    u.append(fns(F_IE, [
        fn("inner_exprs", "r"),
        fn("replace_inner_exprs", "r", closures={
            "0": {"params": ["Expr"], "ret": "(r: Self)",
                  "requires": ["exprs@.len() > 0", "expr == exprs@.last()"],
                  "ensures": ["r.ctor_of() == self.ctor_of()", "r.operands() =~= seq![expr]"]},
        }),
    ], self_ty="InitialExpr", trait="InnerExpr", extra="""    open spec fn operands(&self) -> Seq<Expr> { initial_operands(*self) }
    open spec fn ctor_of(&self) -> Ctor { Ctor::InitialExpr(self.ctor()) }
"""))

    u.append(fns(F_AE, [
        fn("replace_inner_exprs", "r"),
        fn("inner_exprs", "r"),
    ], self_ty="ActionExpr", trait="InnerExpr", extra="""    open spec fn operands(&self) -> Seq<Expr> { action_operands(*self) }
    open spec fn ctor_of(&self) -> Ctor { action_ctor(*self) }
"""))

    # ------------------------------------------------------------------ ExprGroup
    u.append(ty(F_EG, "ExprGroup"))
    u.append(raw("clone_expr_group", "// A5\nimpl<E: InnerExpr + Clone> Clone for ExprGroup<E> { #[verifier::external_body] fn clone(&self) -> (r: Self) ensures r == *self { unimplemented!() } }\n"))
    u.append(fns(F_EG, [
        fn("new", "r", ensures=["r.expr == expr", "r.action == action"]),
        fn("expr", "r", ensures=["*r == self.expr"]),
        fn("move_type", "r", ensures=["*r == self.action.move_type"]),
        fn("application_type", "r", ensures=["*r == self.action.application_type"]),
    ], self_ty="ExprGroup"))
    u.append(fns(F_EG, [
        fn("replace_inner_exprs", "r", ensures=["r is Some ==> r->0.action == self.action"]),
        fn("inner_exprs", "r"),
        fn("is_replaceable", "r"),
    ], self_ty="ExprGroup", trait="InnerExpr", extra="""    open spec fn operands(&self) -> Seq<Expr> { self.expr.operands() }
    open spec fn ctor_of(&self) -> Ctor { self.expr.ctor_of() }
"""))

    # ------------------------------------------------------------------ ActionGroup
    u.append(fns(F_AG, [
        fn("new", "r", ensures=["r.combinator == combinator", "r.application_type == application_type",
                                "r.move_type == move_type"]),
        # C02: `X >>>` becomes the same operator X around the placeholder `|v| v`
        fn("to_wrapper_action_expr", "r", ensures=[
            "doc_wrapper_meaning(%s) ==> (r is Some && r->0.action == self && r->0.expr.ctor_of() == parse_table(self.combinator).1 && r->0.expr.operands().len() == 1 && is_identity_closure(r->0.expr.operands()[0].toks()))" % M_OF_COMB.format(c="self.combinator"),
            "!doc_wrapper_meaning(%s) ==> r is None" % M_OF_COMB.format(c="self.combinator"),
        ]),
    ], self_ty="ActionGroup"))

    # ------------------------------------------------------------------ emitters (C01)
    unzip_some = "meaning_toks(DocMeaning::MethodTy4(Meth::Unzip), Seq::<Expr>::empty(), Some(__c0p0@))"
    unzip_none = "meaning_toks(DocMeaning::MethodTy4(Meth::Unzip), Seq::<Expr>::empty(), None)"
    u.append(fns(F_PE, [
        fn("to_tokens", closures={
            "0": {"params": ["&[Type; 4]"], "ret": "(r: TokenStream)", "ensures": ["r@ =~= " + unzip_some]},
            "1": {"params": [], "ret": "(r: TokenStream)", "ensures": ["r@ =~= " + unzip_none]},
        }, proof_epilogue="proof { reveal_with_fuel(seq_toks, 3); assert(tokens@ =~= self.toks()); }"),
    ], self_ty="ProcessExpr", trait="ToTokens", extra="""    /// C01: the documented method call of this operator applied to its operands
    open spec fn toks(&self) -> Seq<Tok> {
        match *self {
            ProcessExpr::Then(a) => callee_block(qi_ProcessExpr_to_tokens()[0], a@[0].toks()),
            _ => meaning_toks(meaning_of_ctor(Ctor::ProcessExpr(self.ctor())), process_operands(*self), process_types(*self)),
        }
    }
    /// `??` and `<<<` are not printed by `to_tokens` (the real arms panic)
    open spec fn tokenizable(&self) -> bool { !(self is Inspect) && !(self is UNWRAP) }
"""))
    u.append(fns(F_EE, [
        fn("to_tokens", proof_epilogue="proof { reveal_with_fuel(seq_toks, 3); assert(tokens@ =~= self.toks()); }"),
    ], self_ty="ErrExpr", trait="ToTokens", extra="""    open spec fn toks(&self) -> Seq<Tok> {
        meaning_toks(meaning_of_ctor(Ctor::ErrExpr(self.ctor())), err_operands(*self), None)
    }
    open spec fn tokenizable(&self) -> bool { true }
"""))
    u.append(fns(F_IE, [
        fn("to_tokens", proof_epilogue="proof { reveal_with_fuel(seq_toks, 3); assert(tokens@ =~= self.toks()); }"),
    ], self_ty="InitialExpr", trait="ToTokens", extra="""    open spec fn toks(&self) -> Seq<Tok> {
        meaning_toks(DocMeaning::Initial, initial_operands(*self), None)
    }
    open spec fn tokenizable(&self) -> bool { true }
"""))

    # ------------------------------------------------------------------ Handler
    u.append(fns(F_H, [
        fn("is_map", "r", ensures=["r == (self is Map)"]),
        fn("is_then", "r", ensures=["r == (self is Then)"]),
        fn("is_and_then", "r", ensures=["r == (self is AndThen)"]),
        fn("extract_expr", "r", ensures=["*r == handler_expr(*self)"]),
    ], self_ty="Handler"))

    # ------------------------------------------------------------------ name constructors (C17/C20)
    names = ["construct_var_name", "construct_step_results_name", "construct_result_name",
             "construct_thread_builder_name", "construct_inspect_fn_name", "construct_spawn_tokio_fn_name",
             "construct_results_name", "construct_handler_name", "construct_internal_value_name",
             "construct_thread_builder_fn_name"]
    one = {"construct_var_name", "construct_step_results_name", "construct_result_name",
           "construct_thread_builder_name"}
    fl = []
    for n in names:
        arg = "index" if n in one else ""
        fl.append(fn(n, "r", ensures=["r.name() =~= %s_spec(%s)" % (n, arg)], proof_prologue="proof { lemma_names_strlits(); }"))
    fl.append(fn("construct_expr_wrapper_name", "r", proof_prologue="proof { lemma_names_strlits(); }",
                 ensures=["r.name() =~= construct_expr_wrapper_name_spec(index, expr_index, internal_index)"]))
    u.append(fns(F_NC, fl))

    # ------------------------------------------------------------------ From<..> for ActionExpr (used by the unit parsers' `.into()`)
    for F, T, V in ((F_PE, "ProcessExpr", "Process"), (F_EE, "ErrExpr", "Err"), (F_IE, "InitialExpr", "Initial")):
        u.append(raw("from_spec_%s" % T, "impl vstd::std_specs::convert::FromSpecImpl<%s> for ActionExpr {\n    open spec fn obeys_from_spec() -> bool { true }\n    open spec fn from_spec(v: %s) -> Self { ActionExpr::%s(v) }\n}\n" % (T, T, V)))
        u.append(fns(F, [fn("from", "r", label="<ActionExpr as From<%s>>::from" % T, ensures=["r == ActionExpr::%s(val)" % V])],
                     self_ty="ActionExpr", trait="From", header="impl From<%s> for ActionExpr" % T))
    u.append(raw("specs_members", _read("specs_members.rs")))
    return u


JS_D, JS_ST, JS_V, JS_SRN = "self.depths@", "step_number as int", "result_vars@", "step_results_name.toks()"
JOIN_STEPS = fn("join_steps", "r", attrs="#[verifier::loop_isolation(false)]\n#[verifier::rlimit(600)]\n",
                requires=["result_vars@.len() == self.depths@.len()", "result_pats@.len() == self.depths@.len()", "self.branch_count == self.depths@.len()",
                          "self.max_step_count >= 1", "self.depths@.len() >= 1"],
                ensures=["r@ == join_steps_spec(self.config.is_try, self.transpose, !(step_number < self.max_step_count - 1), self.branch_count as int, "
                         "self.depths@, step_number as int, step_stream@, opt_tv(next_step_stream), "
                         "let_tuple(seq_toks_sep(filter_active(result_pats@, self.depths@, step_number as int, result_pats@.len() as int), ','), step_results_name.toks()), "
                         "result_vars@, step_results_name.toks(), seq![Tok::Ident(construct_internal_value_name_spec())], "
                         # internal temporaries are taken from the source (R9 quote_idents), so renaming them consistently changes nothing
                         "qj_JoinOutput_join_steps()[2], qj_JoinOutput_join_steps()[0])"],
                proof_prologue="proof { lemma_take_full(self.depths@); }",
                subst=[{"find": "<TPat: ToTokens + Clone, TVar: ToTokens + Clone, TName: ToTokens>", "replace": "",
                        "why": "monomorphised at the only instantiation (ToTokens for JoinOutput passes Vec<TokenStream>, Vec<Ident>, Ident)", "sig": True},
                       {"find": "&[TPat]", "replace": "&[TokenStream]", "why": "monomorphisation", "sig": True},
                       {"find": "&[TVar]", "replace": "&[Ident]", "why": "monomorphisation", "sig": True},
                       {"find": "&TName", "replace": "&Ident", "why": "monomorphisation", "sig": True},
                       {"find": "let &Self {\n            transpose,\n            max_step_count,\n            branch_count,\n            ..\n        } = self;",
                        "replace": "let transpose = self.transpose; let max_step_count = self.max_step_count; let branch_count = self.branch_count;",
                        "why": "Verus does not support reference patterns; same bindings"}],
                closures={
                    "|&(index, _)|": {"id": "P", "params": ["&(usize, &Ident)"], "ret": "(r: bool)",
                                      "requires": ["(*__Pp0).0 < %s.len()" % JS_D],
                                      "ensures": ["r == (%s[(*__Pp0).0 as int] > step_number)" % JS_D]},
                    "|(index, (_, result_var))|": {"id": "F", "params": ["(usize, (usize, &Ident))"], "ret": "(r: (TokenStream, TokenStream))",
                                                   "ensures": ["r.0@ =~= js_check(__Fp0.1.1.toks())", "r.1@ =~= js_arm(__Fp0.0, __Fp0.1.1.toks())"]},
                    "|(index, result_var)|": {"id": "C", "params": ["(usize, &Ident)"], "ret": "(r: Option<Ident>)",
                                              "requires": ["__Cp0.0 < %s.len()" % JS_D],
                                              "ensures": ["r == (if %s[__Cp0.0 as int] > step_number { None::<Ident> } else { Some(*__Cp0.1) })" % JS_D]},
                    "||": {"params": [], "ret": "(r: TokenStream)", "ensures": ["r@ == bg(no_toks(), Delim::Paren, bt(no_toks(), seq_toks_sep(result_vars@, ',')))"]},
                },
                iter_loops={
                    "0": {"invariant": [
                        "%s.len() == %s.len()" % (JS_V, JS_D), "__i <= __it.len()", "__it@ == %s" % JS_V, "__j <= __i",
                        "__j as int == active_pos(%s, %s, __i as int)" % (JS_D, JS_ST),
                        "ts_views(__a@) =~= checks_list(%s, %s, %s, __i as int)" % (JS_V, JS_D, JS_ST),
                        "ts_views(__b@) =~= arms_list(%s, %s, %s, __i as int)" % (JS_V, JS_D, JS_ST),
                        "forall|q: &(usize, &Ident)| (*q).0 < %s.len() ==> __p.requires((q,))" % JS_D,
                        "forall|q: &(usize, &Ident), r: bool| __p.ensures((q,), r) ==> r == (%s[(*q).0 as int] > step_number)" % JS_D,
                        "forall|a: (usize, (usize, &Ident))| __f.requires((a,))",
                        "forall|a: (usize, (usize, &Ident)), r: (TokenStream, TokenStream)| __f.ensures((a,), r) ==> (r.0@ == js_check(a.1.1.toks()) && r.1@ == js_arm(a.0, a.1.1.toks()))"],
                        "body_prologue": "proof { lemma_count_take_step(%s, %s, __i as int); }" % (JS_D, JS_ST),
                        "after": "proof { lemma_join_comma(__a@); lemma_join_comma(__b@); }"},
                    "1": {"invariant": [
                        "step_results_name.tokenizable()", "branch_index <= __hi", "__hi == %s.len()" % JS_D, "index <= branch_index",
                        "index as int == active_pos(%s, %s, branch_index as int)" % (JS_D, JS_ST),
                        "ts_views(__v@) =~= oks_list(%s, %s, %s, branch_index as int)" % (JS_SRN, JS_D, JS_ST)],
                        "body_prologue": "proof { lemma_count_take_step(%s, %s, branch_index as int); }" % (JS_D, JS_ST),
                        "after": "proof { lemma_join_comma(__v@); }"},
                    "2": {"invariant": [
                        "%s.len() == %s.len()" % (JS_V, JS_D), "__i <= __it.len()", "__it@ == %s" % JS_V,
                        "__v@ =~= filter_inactive(%s, %s, %s, __i as int)" % (JS_V, JS_D, JS_ST),
                        "forall|a: (usize, &Ident)| a.0 < %s.len() ==> __f.requires((a,))" % JS_D,
                        "forall|a: (usize, &Ident), r: Option<Ident>| __f.ensures((a,), r) ==> r == (if %s[a.0 as int] > step_number { None::<Ident> } else { Some(*a.1) })" % JS_D]},
                })


GENERATE_STEP_ASSUMED = fn("generate_step", "r", mode="assumed",
    # the preconditions it is verified under in module `step`
    requires=["chains_wf(*self)", "result_vars@.len() == self.branch_count"],
    ensures=["r@ == gen_step_toks(*self, step_number, result_vars@, step_results_name.toks())"],
    subst=[{"find": "<TVar: ToTokens, TName: ToTokens>", "replace": "", "why": "monomorphised at the only instantiation", "sig": True},
           {"find": "&[TVar]", "replace": "&[Ident]", "why": "monomorphisation", "sig": True},
           {"find": "&TName", "replace": "&Ident", "why": "monomorphisation", "sig": True}])
GS_FI, GS_EV = "qj_JoinOutput_join_steps()[2]", "qj_JoinOutput_join_steps()[0]"
GENERATE_STEPS = fn("generate_steps", "r", attrs="#[verifier::loop_isolation(false)]\n",
    requires=["result_vars@.len() == self.depths@.len()", "result_pats@.len() == self.depths@.len()", "self.branch_count == self.depths@.len()",
              "self.max_step_count >= 1", "self.depths@.len() >= 1", "chains_wf(*self)"],
    # C03 / C06 / C15: no unwrap of None (at least one step), and the steps are nested in order
    ensures=["r@ == steps_toks(*self, result_pats@, result_vars@, %s, %s, 0)" % (GS_FI, GS_EV)],
    subst=[{"find": "<TPat: ToTokens + Clone, TVar: ToTokens + Clone>", "replace": "", "why": "monomorphised at the only instantiation", "sig": True},
           {"find": "&[TPat]", "replace": "&[TokenStream]", "why": "monomorphisation", "sig": True},
           {"find": "&[TVar]", "replace": "&[Ident]", "why": "monomorphisation", "sig": True},
           {"find": ".into()", "replace": ".into_some()", "why": "Into<Option<TokenStream>> for TokenStream is Some (prelude helper with that contract)"}],
    closures={
        "|step_number|": {"params": ["usize"], "ret": "(r: (usize, TokenStream, Ident))",
                          "ensures": ["r.0 == step_number", "r.1@ == gen_step_toks(*self, step_number, result_vars@, r.2.toks())",
                                      "r.2.name() =~= construct_step_results_name_spec(step_number)"]},
        "|next_step_stream, (step_number, step_stream, step_results_name)|": {
            "id": "G", "params": ["Option<TokenStream>", "(usize, TokenStream, Ident)"], "ret": "(r: Option<TokenStream>)",
            "ensures": ["r is Some", "r->0@ == join_steps_spec(self.config.is_try, self.transpose, !(__Gp1.0 < self.max_step_count - 1), self.branch_count as int, "
                        "self.depths@, __Gp1.0 as int, __Gp1.1@, opt_tv(next_step_stream), "
                        "let_tuple(seq_toks_sep(filter_active(result_pats@, self.depths@, __Gp1.0 as int, result_pats@.len() as int), ','), __Gp1.2.toks()), "
                        "result_vars@, __Gp1.2.toks(), seq![Tok::Ident(construct_internal_value_name_spec())], %s, %s)" % (GS_FI, GS_EV)]},
    },
    iter_loops={"0": {"acc_ty": "Option<TokenStream>", "invariant": [
        "__lo == 0", "__hi == self.max_step_count", "__i <= __hi",
        "opt_tv(__acc) == (if __i < self.max_step_count { Some(steps_toks(*self, result_pats@, result_vars@, %s, %s, __i as int)) } else { None::<Seq<Tok>> })" % (GS_FI, GS_EV),
        "forall|k: usize| __f.requires((k,))",
        "forall|k: usize, r: (usize, TokenStream, Ident)| __f.ensures((k,), r) ==> (r.0 == k && r.1@ == gen_step_toks(*self, k, result_vars@, r.2.toks()) && r.2.name() =~= construct_step_results_name_spec(k))",
        "forall|a: Option<TokenStream>, p: (usize, TokenStream, Ident)| __g.requires((a, p))",
        "forall|a: Option<TokenStream>, p: (usize, TokenStream, Ident), r: Option<TokenStream>| __g.ensures((a, p), r) ==> (r is Some && r->0@ == join_steps_spec(self.config.is_try, self.transpose, !(p.0 < self.max_step_count - 1), self.branch_count as int, "
        "self.depths@, p.0 as int, p.1@, opt_tv(a), let_tuple(seq_toks_sep(filter_active(result_pats@, self.depths@, p.0 as int, result_pats@.len() as int), ','), p.2.toks()), "
        "result_vars@, p.2.toks(), seq![Tok::Ident(construct_internal_value_name_spec())], %s, %s))" % (GS_FI, GS_EV),
    ]}})


THREAD_BUILDERS = fn("generate_thread_builders_and_spawn_joiners", "r", attrs="#[verifier::loop_isolation(false)]\n",
    requires=["self.branch_count == self.depths@.len()"],
    ensures=[
        # C07: threads only for the sync spawning kinds and only for a step with at least two active branches
        "r is None <==> (self.config.is_async || !self.config.is_spawn || count_active(self.depths@, step_number as int) < 2)",
        "r is Some ==> (r->0).0@ == bt(no_toks(), concat_all(tb_list(self.depths@, step_number as int, self.depths@.len() as int)))",
        "r is Some ==> (r->0).1@ == bp(bg(bp(bt(bi(no_toks(), \"let\"@), step_results_name.toks()), '='), Delim::Paren, bt(no_toks(), "
        "join_comma(joins_list(step_results_name.toks(), self.depths@, step_number as int, self.depths@.len() as int)))), ';')",
    ],
    proof_prologue="proof { lemma_take_full(self.depths@); }",
    subst=[{"find": "<TName: ToTokens>", "replace": "", "why": "monomorphised at the only instantiation (TName = Ident)", "sig": True},
           {"find": "&TName", "replace": "&Ident", "why": "monomorphisation", "sig": True}],
    iter_loops={
        "0": {"invariant": ["branch_index <= __hi", "__hi == self.depths@.len()",
                            "ts_views(__v@) =~= tb_list(self.depths@, step_number as int, branch_index as int)"],
              "after": "proof { lemma_concat_all(__v@); }"},
        "1": {"invariant": ["branch_index <= __hi", "__hi == self.depths@.len()", "index <= branch_index",
                            "index as int == active_pos(self.depths@, step_number as int, branch_index as int)",
                            "ts_views(__v@) =~= joins_list(step_results_name.toks(), self.depths@, step_number as int, branch_index as int)"],
              "body_prologue": "proof { lemma_count_take_step(self.depths@, step_number as int, branch_index as int); }",
              "after": "proof { lemma_join_comma(__v@); }"},
    })


def gen_units():
    """join_output.rs: the functions of the generator that are within Verus' reach (P1 + P2)"""
    u = []
    u.append(ty(F_JO, "ActionExprPos"))
    u.append(ty(F_JO, "StepAcc"))
    u.append(ty(F_JO, "JoinOutput"))
    u.append(raw("specs_gen", _read("specs_gen.rs")))
    u.append(raw("specs_stack", _read("specs_stack.rs")))
    u += _assume(sep_fn_units())   # verified in module `sep`
    u.append(fns(F_JO, [
        fn("new", "r", ensures=["r.expr == expr", "r.branch_index == branch_index", "r.expr_index == expr_index"]),
    ], self_ty="ActionExprPos"))
    u.append(fns(F_JO, [
        # C04: the three index functions
        fn("active_step_branch_count", "r", attrs="#[verifier::loop_isolation(false)]\n",
           ensures=["r == count_active(self.depths@, step_number as int)"],
           closures={"0": {"params": ["&&usize"], "ret": "(r: bool)", "ensures": ["r == (**__c0p0 > step_number)"]}},
           iter_loops={"0": {"invariant": [
               "__i <= __it.len()", "__it@ == self.depths@", "__n <= __i",
               "__n as int == count_active(self.depths@.take(__i as int), step_number as int)",
               "forall|a: &&usize| __p.requires((a,))",
               "forall|a: &&usize, r: bool| __p.ensures((a,), r) ==> r == (**a > step_number)"],
               "body_prologue": "proof { assert(self.depths@.take(__i as int + 1).drop_last() =~= self.depths@.take(__i as int)); }",
               "after": "proof { assert(self.depths@.take(__i as int) =~= self.depths@); }"}}),
        fn("is_branch_active_in_step", "r", requires=["branch_index < self.depths@.len()"],
           ensures=["r == (self.depths@[branch_index as int] > step_number)"]),
        fn("generate_indexed_step_results_name", "r", requires=["step_results_name.tokenizable()"],
           ensures=["r@ == indexed_name(step_results_name.toks(), count_active(self.depths@, step_number as int), index)"]),
        fn("wrap_into_block", "r", requires=["value.tokenizable()"],
           ensures=["r@ == value_block(self.config.is_async, value.toks())"]),
        # C01: `->` call-with-value, `??` inspect, everything else `prev . method(operand)`
        fn("expand_process_expr", "r", requires=["!(expr is UNWRAP)"],
           ensures=["r@ == expanded(self.config.is_async, prev_result@, *expr)"],
           proof_epilogue=""),
        # C04/C12: the user's `let` name if there is one, else the generated __r{i}
        fn("branch_result_name", "r", requires=["branch_index < self.branch_pats@.len()"],
           ensures=["r.name() =~= match self.branch_pats@[branch_index as int] { Some(p) => p.ident.name(), None => construct_result_name_spec(branch_index) }",
                    # C12: it is the user's OWN identifier (same token, same hygiene), not a respelling of it
                    "self.branch_pats@[branch_index as int] is Some ==> r == (self.branch_pats@[branch_index as int]->0).ident"],
           closures={"0": {"params": ["&PatIdent"], "ret": "(r: Ident)", "ensures": ["r == pat.ident"]},
                     "1": {"params": [], "ret": "(r: Ident)", "ensures": ["r.name() =~= construct_result_name_spec(branch_index)"]}}),
        fn("branch_result_pat", "r", requires=["branch_index < self.branch_pats@.len()"],
           ensures=["r@ =~= match self.branch_pats@[branch_index as int] { Some(p) => p.toks(), None => seq![Tok::Ident(construct_result_name_spec(branch_index))] }"],
           closures={"0": {"params": [], "ret": "(r: TokenStream)", "ensures": ["r@ =~= seq![Tok::Ident(construct_result_name_spec(branch_index))]"]}},
           subst=[{"find": ".map(ToTokens::into_token_stream)", "replace": ".map(|p: &PatIdent| -> (r: TokenStream) ensures r@ == p.toks() { p.into_token_stream() })",
                   "why": "path to a trait method used as a function value: written as the equivalent closure (Verus has no spec for the method item)"}]),
        # C04/C13: the destructuring of a results tuple; with a step only the branches active in it are named, in branch
        # order (R13: the lazy `filter` adaptor with a counting closure is desugared into the loop it stands for)
        fn("extract_results_tuple", "r", attrs="#[verifier::loop_isolation(false)]\n",
           requires=["results_var.tokenizable()", "all_tokenizable(result_vars@)",
                     "step_number is Some ==> result_vars@.len() <= self.depths@.len()"],
           ensures=["step_number is None ==> r@ == extract_all(results_var.toks(), seq_toks_sep(result_vars@, ','), handler)",
                    "step_number is Some ==> r@ == extract_step(results_var.toks(), seq_toks_sep(filter_active(result_vars@, self.depths@, step_number->0 as int, result_vars@.len() as int), ','), seq_toks_sep(result_vars@, ','), handler)"],
           closures={
               "0": {"params": [], "ret": "(r: TokenStream)", "ensures": ["r@ =~= let_tuple(seq_toks_sep(result_vars@, ','), results_var.toks())"]},
               "1": {"params": ["usize"], "ret": "(r: TokenStream)", "requires": ["result_vars@.len() <= self.depths@.len()"],
                     "ensures": ["r@ =~= let_tuple(seq_toks_sep(filter_active(result_vars@, self.depths@, step_number as int, result_vars@.len() as int), ','), results_var.toks())"]},
           },
           iter_loops={"0": {"invariant": [
               "__i <= __it.len()", "__it@ == result_vars@", "index == __i",
               "refs_of(__v@, filter_active(result_vars@, self.depths@, step_number as int, __i as int))"],
               "after": "proof { lemma_refs_toks(__v@, filter_active(result_vars@, self.depths@, step_number as int, result_vars@.len() as int), ','); "
                        "lemma_filter_tokenizable(result_vars@, self.depths@, step_number as int, result_vars@.len() as int); }"}}),
        # C05/C13: `r0.and_then(|r0| r1.and_then(|r1| .. rn.map(|rn| (values))))` in branch order (R13: iter().rev().fold())
        fn("generate_results_transposer", "r", attrs="#[verifier::loop_isolation(false)]\n",
           requires=["result_vars@.len() >= 1", "all_tokenizable(result_vars@)",
                     "return_vars is Some ==> all_tokenizable((**return_vars->0)@)"],
           ensures=["r@ == transposer_toks(result_vars@, group(Delim::Paren, seq_toks_sep(match return_vars { Some(rv) => (**rv)@, None => result_vars@ }, ',')), 0)"],
           closures={
               "0": {"params": ["Option<TokenStream>", "&'b T"], "ret": "(r: Option<TokenStream>)", "requires": ["result_var_name.tokenizable()"],
                     "ensures": ["transposer_step(acc, *result_var_name, group(Delim::Paren, seq_toks_sep(match return_vars { Some(rv) => (**rv)@, None => result_vars@ }, ',')), r)"]},
               "1": {"params": [], "ret": "(r: Option<TokenStream>)",
                     "ensures": ["r is Some && r->0@ =~= bind_toks(result_var_name.toks(), \"map\"@, group(Delim::Paren, seq_toks_sep(match return_vars { Some(rv) => (**rv)@, None => result_vars@ }, ',')))"]},
               "2": {"params": [], "ret": "(r: TokenStream)", "ensures": ["r@ =~= group(Delim::Paren, seq_toks_sep(result_vars@, ','))"]},
               "3": {"params": ["&'b &'b [T]"], "ret": "(r: TokenStream)", "requires": ["all_tokenizable((**return_vars)@)"], "ensures": ["r@ =~= group(Delim::Paren, seq_toks_sep((**return_vars)@, ','))"]},
               "4": {"params": ["TokenStream"], "ret": "(r: Option<TokenStream>)",
                     "ensures": ["r is Some && r->0@ =~= bind_toks(result_var_name.toks(), \"and_then\"@, acc@)"]},
           },
           iter_loops={"0": {"invariant": [
               "__i <= __it.len()", "__it@ == result_vars@",
               "opt_view(__acc) == if __i < result_vars@.len() { Some(transposer_toks(result_vars@, group(Delim::Paren, seq_toks_sep(match return_vars { Some(rv) => (**rv)@, None => result_vars@ }, ',')), __i as int)) } else { None::<Seq<Tok>> }",
               "forall|a: Option<TokenStream>, v: &'b T| v.tokenizable() ==> __g.requires((a, v))",
               "forall|a: Option<TokenStream>, v: &'b T, r: Option<TokenStream>| __g.ensures((a, v), r) ==> transposer_step(a, *v, group(Delim::Paren, seq_toks_sep(match return_vars { Some(rv) => (**rv)@, None => result_vars@ }, ',')), r)"]}}),
        # C13: the handler call
        fn("generate_handle", "r",
           ensures=["r@ == doc_handle(self.config.is_async, handler_kind(self.handler), results_var.toks(), handler_name.toks(), result_names_toks(self.branch_count as nat))"],
           proof_epilogue="proof { lemma_names_sep(result_vars@, self.branch_count as nat); }",
           closures={"0": {"params": ["usize"], "ret": "(r: Ident)", "ensures": ["r.name() =~= construct_result_name_spec(__c0p0)"]}},
           subst=[{"find": "let &Config { is_async, .. } = config;", "replace": "let is_async = config.is_async;",
                   "why": "Verus does not support reference patterns; same binding"},
                  {"find": "(0..self.branch_count).map(construct_result_name).collect()",
                   "replace": "result_name_vec(self.branch_count)",
                   "why": "Verus has no spec for Range::map::collect; the helper (verified in this file) is the same loop written out and calls the real construct_result_name"}]),
        # C01/C10/C11/C17: what one action contributes to the definition stream and to the step stream
        fn("generate_def_and_step_streams", "r",
           requires=["action_expr_pos is Some ==> printable(action_expr_pos->0.expr.expr)"],
           ensures=[
               "action_expr_pos is None ==> opt_view(r.0) == opt_view(prev_def_stream) && r.1@ == prev_step_stream@",
               "action_expr_pos is Some ==> exists|x: ActionExpr| #[trigger] printed_as(action_expr_pos->0.expr.expr, x, action_expr_pos->0.branch_index, action_expr_pos->0.expr_index) "
               "&& gdss_ok(self.config.is_async, opt_view(prev_def_stream), prev_step_stream@, action_expr_pos->0.expr.expr, action_expr_pos->0.branch_index, action_expr_pos->0.expr_index, x, r)",
           ],
           subst=[{"find": "self.separate_block_expr(%s_expr," % n, "replace": "self.separate_block_expr_%s(%s_expr," % (n, n),
                   "why": "call of the monomorphised copy (ExprType is fixed by the match arm)"} for n in ("process", "err", "initial")],
           closures=dict([("|prev|#%d" % k, {"params": ["TokenStream"], "ret": "(r: TokenStream)",
                                              "ensures": ["r@ == prev@ + opt_toks(def_stream)"]}) for k in (0, 1, 2)]
                         + [("|exprs|", {"params": ["&[Expr]"], "ret": "(r: Option<&Expr>)",
                                   "ensures": ["exprs@.len() > 0 ==> r == Some(&exprs@[0])", "exprs@.len() == 0 ==> r is None"]})])),
        # C02 / C15: `<<<` (explicit or implicit): pop the inner chain and splice it, as a closure, into the recorded wrapper
        fn("wrap_last_step_stream", "r", proof_prologue="broadcast use lemma_step_toks1, lemma_not_hoisted;", attrs="#[verifier::rlimit(200)]\n",
           requires=["stack_wf(__arg0.step_streams@)", "__arg0.step_streams@.len() >= 2",
                     "action_expr_pos is Some ==> printable(action_expr_pos->0.expr.expr)"],
           ensures=[
               "stack_wf(r.step_streams@)",
               "r.step_streams@.len() == __arg0.step_streams@.len() - 1",
               # frame: nothing below the two top frames changes
               "r.step_streams@.subrange(0, r.step_streams@.len() - 1) =~= __arg0.step_streams@.subrange(0, __arg0.step_streams@.len() - 2)",
               "action_expr_pos is None ==> r.step_streams@.last().0@ == wrapped_top(self.config.is_async, __arg0.step_streams@)",
               "action_expr_pos is None ==> opt_view(r.def_stream) == opt_view(__arg0.def_stream)",
               # (no caller in the repository passes Some(..); that path is covered only by the invariant above)
           ]),
        # C02 / C15: one action of a step against the stack
        fn("process_step_action_expr", "r", proof_prologue="broadcast use lemma_step_toks1, lemma_not_hoisted;",
           requires=["action_expr_pos is Some", "stack_wf(step_acc.step_streams@)",
                     "action_expr_pos->0.expr.action.move_type == MoveType::Unwrap ==> step_acc.step_streams@.len() >= 2",
                     "action_expr_pos->0.expr.action.move_type == MoveType::Wrap ==> frame_wrapper_ok(action_expr_pos->0)",
                     "action_expr_pos->0.expr.action.move_type == MoveType::None ==> printable(action_expr_pos->0.expr.expr)"],
           ensures=[
               "stack_wf(r.step_streams@)",
               "action_expr_pos->0.expr.action.move_type == MoveType::Wrap ==> r.step_streams@.len() == step_acc.step_streams@.len() + 1 && r.step_streams@.last().0@ == seq![Tok::Ident(construct_internal_value_name_spec())] && r.step_streams@[r.step_streams@.len() - 2].1->0.expr == action_expr_pos->0.expr",
               "action_expr_pos->0.expr.action.move_type == MoveType::Unwrap ==> r.step_streams@.len() == step_acc.step_streams@.len() - 1 && r.step_streams@.last().0@ == wrapped_top(self.config.is_async, step_acc.step_streams@)",
               "action_expr_pos->0.expr.action.move_type == MoveType::None ==> r.step_streams@.len() == step_acc.step_streams@.len() && (exists|x: ActionExpr| #[trigger] printed_as(action_expr_pos->0.expr.expr, x, action_expr_pos->0.branch_index, action_expr_pos->0.expr_index) && (hoists(action_expr_pos->0.expr.expr) ==> x != action_expr_pos->0.expr.expr) && r.step_streams@.last().0@ == step_toks(self.config.is_async, step_acc.step_streams@.last().0@, x))",
           ]),
    ], self_ty="JoinOutput"))
    u.append(fns(F_UTILS, [
        fn("is_block_expr", "r", ensures=["r == (expr is Block)"]),
        fn("is_lower_precedence_than_method_call", "r", ensures=["r == low_prec(*expr)"]),
    ]))
    # C03: where a step begins: the fold of `JoinOutput::new` that splits a branch's members at the `~` marks (R15 + R13)
    u.append(ty(F_CHAIN, "ActionExprChain"))
    u.append(fns(F_CHAIN, [
        fn("members", "r", mode="assumed", ensures=["r@ == self.members@"],
           subst=[{"find": "&[Self::Member]", "replace": "&[ExprGroup<ActionExpr>]", "why": "associated type of the Chain impl written out (type Member = ExprGroup<ActionExpr>)", "sig": True}]),
        fn("id", "r", ensures=["match self.ident { Some(p) => r == Some(&p), None => r is None }"],
           subst=[{"find": "Option<&Self::Identifier>", "replace": "Option<&PatIdent>", "why": "associated type of the Chain impl written out (type Identifier = PatIdent)", "sig": True}]),
    ], self_ty="ActionExprChain", trait="Chain", header="impl ActionExprChain"))
    MS = "expr_chain.members@"
    u.append({"kind": "lifted", "file": F_JO, "self_ty": "JoinOutput", "func": "new", "closure": 0,
              "header": "impl<'a> JoinOutput<'a>",
              "sig": "split_branch_steps(expr_chain: &'a ActionExprChain) -> ((usize, Option<&'a PatIdent>), Vec<Vec<&'a ExprGroup<ActionExpr>>>)",
              "spec": fn("split_branch_steps", "r", label="JoinOutput::split_branch_steps",
                         attrs="#[verifier::loop_isolation(false)]\n",
                         requires=["%s.len() < usize::MAX" % MS],
                         ensures=["deep(r.1@) =~~= split_steps(%s, %s.len() as int)" % (MS, MS),
                                  "r.0.0 == r.1@.len()",
                                  "match expr_chain.ident { Some(p) => r.0.1 == Some(&p), None => r.0.1 is None }"],
                         subst=[{"find": "chain_acc.last_mut().unwrap().push(member);", "replace": "vec_last_push(&mut chain_acc, member);",
                                 "why": "Verus has no &mut-returning methods; the helper (verified in the prelude) pops the last inner vector, pushes and puts it back"}],
                         closures={
                             "|(depth, mut chain_acc), member|": {"id": "G", "params": ["(usize, Vec<Vec<&'a ExprGroup<ActionExpr>>>)", "&'a ExprGroup<ActionExpr>"],
                                   "ret": "(r: (usize, Vec<Vec<&'a ExprGroup<ActionExpr>>>))",
                                   "requires": ["__Gp0.1@.len() >= 1", "__Gp0.0 == __Gp0.1@.len()", "__Gp0.0 < usize::MAX"],
                                   "ensures": ["r.0 == r.1@.len()",
                                               "member.action.application_type == ApplicationType::Deferred ==> deep(r.1@) =~~= deep(__Gp0.1@).push(seq![member])",
                                               "member.action.application_type != ApplicationType::Deferred ==> deep(r.1@) =~~= deep(__Gp0.1@).update(__Gp0.1@.len() - 1, deep(__Gp0.1@).last().push(member))"]},
                         },
                         iter_loops={"0": {"acc_ty": "(usize, Vec<Vec<&'a ExprGroup<ActionExpr>>>)", "invariant": [
                             "__i <= __it.len()", "__it@ == %s" % MS,
                             "__acc.0 == __acc.1@.len()", "__acc.1@.len() >= 1", "__acc.1@.len() <= __i + 1",
                             "deep(__acc.1@) =~~= split_steps(%s, __i as int)" % MS,
                             "forall|a: (usize, Vec<Vec<&'a ExprGroup<ActionExpr>>>), m: &'a ExprGroup<ActionExpr>| (a.1@.len() >= 1 && a.0 == a.1@.len() && a.0 < usize::MAX) ==> __g.requires((a, m))",
                             "forall|a: (usize, Vec<Vec<&'a ExprGroup<ActionExpr>>>), m: &'a ExprGroup<ActionExpr>, r: (usize, Vec<Vec<&'a ExprGroup<ActionExpr>>>)| __g.ensures((a, m), r) ==> "
                             "(r.0 == r.1@.len() && (m.action.application_type == ApplicationType::Deferred ==> deep(r.1@) =~~= deep(a.1@).push(seq![m])) && "
                             "(m.action.application_type != ApplicationType::Deferred ==> deep(r.1@) =~~= deep(a.1@).update(a.1@.len() - 1, deep(a.1@).last().push(m))))",
                         ]}})})
    u.append(raw("specs_builder", _read("specs_builder.rs")))
    u.append(raw("lemma_bridge", _read("lemma_bridge.rs")))
    # C02 / C15: one branch of one step of `generate_step` (R15: the body of its third closure, lifted): the fold that
    # feeds the actions to the stack, the loop that closes the wrappers still open at the end of the step, the spawn
    # wrapping.  For every action list the parser can produce (step_acts_ok) no precondition of the stack functions is
    # violated, no `expect` is reachable, and the closing loop terminates with exactly one frame.
    ACTS = "chain_step_actions@"
    u.append({"kind": "lifted", "file": F_JO, "self_ty": "JoinOutput", "func": "generate_step", "closure": 2,
              "header": "impl<'a> JoinOutput<'a>",
              "sig": "generate_step_branch<TVar: ToTokens>(&self, chain_step_actions: &Vec<&'a ExprGroup<ActionExpr>>, branch_index: usize, "
                     "step_number: usize, result_vars: &[TVar], is_async: bool, is_spawn: bool) -> Option<(Option<TokenStream>, TokenStream)>",
              "spec": fn("generate_step_branch", "r", label="JoinOutput::generate_step_branch",
                         attrs="#[verifier::loop_isolation(false)]\n",
                         proof_prologue="proof { reveal(started_as); }",
                         requires=["step_acts_ok(%s)" % ACTS, "branch_index < result_vars@.len()", "all_tokenizable(result_vars@)"],
                         ensures=["r is Some <==> %s.len() > 0" % ACTS,
                                  # C07 / C08 / C09 / C16: how the branch is started
                                  "r is Some ==> started_as((r->0).1@, self.lazy_branches, is_spawn, is_async, count_active(self.depths@, step_number as int) > 1, branch_index)"],
                         closures={
                             "0": {"id": "G", "params": ["Option<StepAcc<'a>>", "(usize, &&'a ExprGroup<ActionExpr>)"], "ret": "(r: Option<StepAcc<'a>>)",
                                   "requires": ["__Gp1.0 < %s.len()" % ACTS, "*__Gp1.1 == %s[__Gp1.0 as int]" % ACTS,
                                                "acc is None <==> __Gp1.0 == 0",
                                                "acc is Some ==> frame_inv(acc->0.step_streams@, %s, __Gp1.0 as int)" % ACTS],
                                   "ensures": ["r is Some", "frame_inv(r->0.step_streams@, %s, __Gp1.0 as int + 1)" % ACTS]},
                             "1": {"params": ["StepAcc<'a>"], "ret": "(r: StepAcc<'a>)",
                                   "prologue": "proof { lemma_wdepth_step(%s, expr_index as int); }" % ACTS,
                                   "requires": ["frame_inv(step_acc.step_streams@, %s, expr_index as int)" % ACTS],
                                   "ensures": ["frame_inv(r.step_streams@, %s, expr_index as int + 1)" % ACTS]},
                             "2": {"params": [], "ret": "(r: Option<StepAcc<'a>>)",
                                   "prologue": "proof { lemma_wdepth_step(%s, 0); }" % ACTS,
                                   "requires": ["expr_index == 0"],
                                   "ensures": ["r is Some", "frame_inv(r->0.step_streams@, %s, 1)" % ACTS]},
                             "3": {"id": "U", "params": ["StepAcc<'a>"], "ret": "(r: (Option<TokenStream>, TokenStream))",
                                   "requires": ["stack_wf(__Up0.step_streams@)"]},
                             "4": {"id": "M", "params": ["(Option<TokenStream>, TokenStream)"], "ret": "(r: (Option<TokenStream>, TokenStream))",
                                   "ensures": ["r.0 == __Mp0.0", "is_toks(__Mp0.1@)",
                                               "r.1@ == spawn_wrap(self.lazy_branches, is_spawn, is_async, count_active(self.depths@, step_number as int) > 1, branch_index, __Mp0.1@)"]},
                         },
                         loops={"0": {"invariant": ["stack_wf(step_streams@)"], "decreases": "step_streams@.len()"}},
                         iter_loops={"0": {"acc_ty": "Option<StepAcc<'a>>", "invariant": [
                             "__i <= __it.len()", "__it@ == %s" % ACTS,
                             "__acc is None <==> __i == 0",
                             "__acc is Some ==> frame_inv(__acc->0.step_streams@, %s, __i as int)" % ACTS,
                             "forall|a: Option<StepAcc<'a>>, p: (usize, &&'a ExprGroup<ActionExpr>)| (p.0 < %s.len() && *p.1 == %s[p.0 as int] && (a is None <==> p.0 == 0) && (a is Some ==> frame_inv(a->0.step_streams@, %s, p.0 as int))) ==> __g.requires((a, p))" % (ACTS, ACTS, ACTS),
                             "forall|a: Option<StepAcc<'a>>, p: (usize, &&'a ExprGroup<ActionExpr>), r: Option<StepAcc<'a>>| __g.ensures((a, p), r) ==> (r is Some && frame_inv(r->0.step_streams@, %s, p.0 as int + 1))" % ACTS,
                         ]}})})
    return u


def steps_units():
    """join_output.rs::join_steps (C04 / C05 / C06 / C12): how one step is joined with the next one; monomorphised at
    TPat = TokenStream, TVar = TName = Ident, the only instantiation (ToTokens for JoinOutput).  Its callees appear with
    the contracts they are verified against in module `gen`."""
    g = gen_units()
    u = []
    keep_fns = {"active_step_branch_count", "is_branch_active_in_step", "generate_indexed_step_results_name", "extract_results_tuple",
                "generate_results_transposer"}
    for un in g:
        if un.get("kind") == "type" and un.get("name") in ("ActionExprPos", "StepAcc", "JoinOutput"):
            u.append(un)
        elif un.get("kind") == "raw" and un.get("label") in ("specs_gen", "specs_stack"):
            u.append(un)
        elif un.get("kind") == "fns" and un.get("self_ty") == "JoinOutput" and any(f["name"] in keep_fns for f in un["fns"]):
            un2 = dict(un)
            un2["fns"] = [f for f in un["fns"] if f["name"] in keep_fns]
            u += _assume([un2])
    u.append(table("quote_idents", F_JO, "qj+@Err"))
    u.append(raw("specs_join_steps", _read("specs_join_steps.rs")))
    u.append(fns(F_JO, [JOIN_STEPS, THREAD_BUILDERS, GENERATE_STEP_ASSUMED, GENERATE_STEPS], self_ty="JoinOutput"))
    # C09 / C16: the tail of generate_step (R15, statements from `let joiner =` to the end): which joiner, over which streams
    u.append({"kind": "lifted", "file": F_JO, "self_ty": "JoinOutput", "func": "generate_step", "stmts_from": "let joiner = ",
              "header": "impl<'a> JoinOutput<'a>",
              "sig": "generate_step_tail(&self, step_number: usize, step_results_name: &Ident, def_streams: Vec<Option<TokenStream>>, "
                     "step_streams: Vec<TokenStream>, is_async: bool, is_try: bool) -> TokenStream",
              "spec": fn("generate_step_tail", "r", label="JoinOutput::generate_step_tail",
                         requires=["self.branch_count == self.depths@.len()", "is_async == self.config.is_async"],
                         ensures=["r@ == step_tail_spec(is_async, seq_toks(def_streams@), step_results_name.toks(), "
                                  "joiner_spec(count_active(self.depths@, step_number as int), self.custom_joiner, is_async, is_try, opt_path(self.futures_crate_path)), "
                                  "seq_toks_sep(step_streams@, ','), seq_toks(step_streams@), "
                                  "tb_spec(is_async, self.config.is_spawn, self.depths@, step_number as int), "
                                  "sj_spec(is_async, self.config.is_spawn, self.depths@, step_number as int, step_results_name.toks()))"],
                         subst=[{"find": "(a.into(), b.into())", "replace": "(Some(a), Some(b))", "why": "Into<Option<T>> for T is Some (std: impl<T> From<T> for Option<T>)"}],
                         closures={
                             "||#0": {"params": [], "ret": "(r: Option<TokenStream>)",
                                      "ensures": ["match r { Some(t) => is_async && t@ == path_macro((match self.futures_crate_path { Some(p) => p.ptoks(), None => no_toks() }), if is_try { \"try_join\"@ } else { \"join\"@ }), None => !is_async }"]},
                             "|joiner|": {"params": ["TokenStream"], "ret": "(r: TokenStream)",
                                          "ensures": ["r@ == bg(bt(no_toks(), joiner@), Delim::Paren, bt(no_toks(), seq_toks_sep(step_streams@, ',')))"]},
                             "||#1": {"params": [], "ret": "(r: TokenStream)",
                                      "ensures": ["r@ == bi(bp(bt(no_toks(), seq_toks(step_streams@)), '.'), \"await\"@)"]},
                             "|(a, b)|": {"id": "AB", "params": ["(TokenStream, TokenStream)"], "ret": "(r: (Option<TokenStream>, Option<TokenStream>))",
                                          "ensures": ["r.0 == Some(__ABp0.0)", "r.1 == Some(__ABp0.1)"]},
                         })})
    return u


EG_STEP = "&'x Vec<&'a ExprGroup<ActionExpr>>"
EG_CHAIN = "&'x Vec<Vec<&'a ExprGroup<ActionExpr>>>"
BR_RES = "Option<(Option<TokenStream>, TokenStream)>"
STARTED = "started_as((r->0).1@, self.lazy_branches, is_spawn, is_async, count_active(self.depths@, step_number as int) > 1, %s)"
STEP_TAIL_OF = ("step_tail_spec(self.config.is_async, seq_toks({ds}), step_results_name.toks(), "
                "joiner_spec(count_active(self.depths@, step_number as int), self.custom_joiner, self.config.is_async, self.config.is_try, opt_path(self.futures_crate_path)), "
                "seq_toks_sep({ss}, ','), seq_toks({ss}), "
                "tb_spec(self.config.is_async, self.config.is_spawn, self.depths@, step_number as int), "
                "sj_spec(self.config.is_async, self.config.is_spawn, self.depths@, step_number as int, step_results_name.toks()))")
# the WHOLE of generate_step: R13 (iter/map/enumerate/filter_map/unzip), R15 call-out for the per-branch closure (verified from the
# same bytes as `generate_step_branch` in module gen), the tail inline
GENERATE_STEP = fn("generate_step", "r", label="JoinOutput::generate_step", 
    requires=["chains_wf(*self)", "result_vars@.len() == self.branch_count"],
    # C03 / C04 / C09: ONE stream per branch active in the step, in branch order, each started for ITS OWN branch index,
    # all of them handed to ONE joiner invocation
    ensures=["exists|ds: Seq<Option<TokenStream>>, ss: Seq<TokenStream>| #[trigger] step_streams_ok(ds, ss, *self, step_number as int, self.config.is_async, self.config.is_spawn, self.branch_count as int) "
             "&& r@ == " + STEP_TAIL_OF.format(ds="ds", ss="ss")],
    subst=[{"find": "<TVar: ToTokens, TName: ToTokens>", "replace": "<'x>", "why": "monomorphised at the only instantiation; the lifetime of `&self` gets a name so that closure contracts can mention it", "sig": True},
           {"find": "&self,", "replace": "&'x self,", "why": "named lifetime (see above)", "sig": True},
           {"find": "&[TVar]", "replace": "&[Ident]", "why": "monomorphisation", "sig": True},
           {"find": "&TName", "replace": "&Ident", "why": "monomorphisation", "sig": True},
           ],
    # R15 call-out: the statements from `let joiner =` on are the lifted `generate_step_tail` (verified in module steps)
    method_helpers={"get": "vec_get"},   # slice::get with a usize index written out (prelude helper, verified)
    tail_from="let joiner = ", tail_call="self.generate_step_tail(step_number, step_results_name, def_streams, step_streams, is_async, is_try)",
    closures={
        "|chain|": {"params": [EG_CHAIN], "ret": "(r: Option<%s>)" % EG_STEP,
                    "ensures": ["r == (if step_number < chain@.len() { Some(&chain@[step_number as int]) } else { None::<%s> })" % EG_STEP]},
        "|(branch_index, chain_step_actions)|": {"id": "B", "params": ["(usize, Option<%s>)" % EG_STEP], "ret": "(r: %s)" % BR_RES,
                    "requires": ["__Bp0.0 < result_vars@.len()", "__Bp0.1 is Some ==> acts_ok_o((__Bp0.1->0)@)"],
                    "ensures": ["match __Bp0.1 { None => r is None, Some(a) => (r is Some <==> a@.len() > 0) && (r is Some ==> %s) }" % (STARTED % "__Bp0.0")]},
        "|chain_step_actions|": {"params": [EG_STEP], "ret": "(r: %s)" % BR_RES,
                    "requires": ["acts_ok_o(chain_step_actions@)", "branch_index < result_vars@.len()"],
                    "prologue": "proof { reveal(acts_ok_o); }",
                    "ensures": ["r is Some <==> chain_step_actions@.len() > 0", "r is Some ==> %s" % (STARTED % "branch_index")],
                    "call_out": "self.generate_step_branch(chain_step_actions, branch_index, step_number, result_vars, is_async, is_spawn)"},
    },
    iter_loops={"0": {"acc_ty": "Option<TokenStream>; TokenStream", "invariant": [
        "__i <= __it.len()", "__it@ == self.chains@", "chains_wf(*self)", "result_vars@.len() == self.branch_count",
        "is_async == self.config.is_async", "is_spawn == self.config.is_spawn",
        "step_streams_ok(__a@, __b@, *self, step_number as int, is_async, is_spawn, __i as int)",
        "forall|c: %s| #[trigger] __f.requires((c,))" % EG_CHAIN,
        "forall|c: %s, r: Option<%s>| #[trigger] __f.ensures((c,), r) ==> r == (if step_number < c@.len() { Some(&c@[step_number as int]) } else { None::<%s> })" % (EG_CHAIN, EG_STEP, EG_STEP),
        "forall|p: (usize, Option<%s>)| (p.0 < result_vars@.len() && (p.1 is Some ==> acts_ok_o((p.1->0)@))) ==> #[trigger] __g.requires((p,))" % EG_STEP,
        "forall|p: (usize, Option<%s>), r: %s| #[trigger] __g.ensures((p,), r) ==> (match p.1 { None => r is None, Some(a) => (r is Some <==> a@.len() > 0) && (r is Some ==> %s) })" % (EG_STEP, BR_RES, STARTED % "p.0"),
    ],
        "body_prologue": "proof { lemma_apos_step(self.depths@, step_number as int, __i as int); }",
        "after": "proof { lemma_apos_ends(self.depths@, step_number as int); }"}},
    proof_prologue="proof { lemma_apos_ends(self.depths@, step_number as int); }")


def step_units():
    """join_output.rs::generate_step as a whole (C03 / C04 / C09 / C16): the streams of a step and what is done with them"""
    g = gen_units()
    u = []
    keep_fns = {"active_step_branch_count"}
    for un in g:
        if un.get("kind") == "type" and un.get("name") in ("ActionExprPos", "StepAcc", "JoinOutput"):
            u.append(un)
        elif un.get("kind") == "raw" and un.get("label") in ("specs_gen", "specs_stack"):
            u.append(un)
        elif un.get("kind") == "fns" and un.get("self_ty") == "JoinOutput" and any(f["name"] in keep_fns for f in un["fns"]):
            un2 = dict(un)
            un2["fns"] = [f for f in un["fns"] if f["name"] in keep_fns]
            u += _assume([un2])
        elif un.get("kind") == "lifted" and un["spec"]["name"] == "generate_step_branch":
            # the twin of the call-out: contract only here (verified in module gen from the same bytes)
            un2 = dict(un)
            un2["spec"] = dict(un["spec"], mode="assumed", closures={}, loops={}, iter_loops={}, proof_prologue="", proof_epilogue="")
            u.append(un2)
    u.append(table("quote_idents", F_JO, "qj+@Err"))
    u.append(raw("specs_join_steps", _read("specs_join_steps.rs")))
    for un in steps_units():
        if un.get("kind") == "lifted" and un["spec"]["name"] == "generate_step_tail":
            un2 = dict(un)
            un2["spec"] = dict(un["spec"], mode="assumed", closures={}, loops={}, iter_loops={}, subst=[], proof_prologue="", proof_epilogue="")
            u.append(un2)
    u.append(fns(F_JO, [GENERATE_STEP], self_ty="JoinOutput"))
    return u


TO_TOKENS = fn("to_tokens", "", label="JoinOutput::to_tokens", opaque_quotes=[1, 3, 4],
    requires=["jo_wf(*self)"],
    # C07 / C09 / C13 / C19: the whole expansion, as a function of the steps and of the handler call
    ensures=["exists|pats: Seq<TokenStream>, vars: Seq<Ident>| #[trigger] result_names_ok(*self, pats, vars) "
             "&& final(output)@ == old(output)@ + top_toks(*self, steps_toks(*self, pats, vars, %s, %s, 0))" % (GS_FI, GS_EV)],
    closures={
        "|branch_index|": {"params": ["usize"], "ret": "(r: (TokenStream, Ident))", "requires": ["branch_index < self.branch_pats@.len()"],
                           "ensures": ["r.0@ =~= (match self.branch_pats@[branch_index as int] { Some(p) => p.toks(), None => seq![Tok::Ident(construct_result_name_spec(branch_index))] })",
                                       "r.1.name() =~= (match self.branch_pats@[branch_index as int] { Some(p) => p.ident.name(), None => construct_result_name_spec(branch_index) })"]},
        "|handler_expr|": {"params": ["&Expr"], "ret": "(r: TokenStream)",
                           "ensures": ["r@ == bp(bt(bp(bt(bi(no_toks(), \"let\"@), handler_name.toks()), '='), handler_expr.toks()), ';')"]},
    },
    iter_loops={"0": {"acc_ty": "TokenStream; Ident", "invariant": [
        "__lo == 0", "__hi == self.branch_count", "__i <= __hi", "__a@.len() == __i", "__b@.len() == __i",
        "forall|k: usize| k < self.branch_count ==> __f.requires((k,))",
        "forall|k: usize, r: (TokenStream, Ident)| __f.ensures((k,), r) ==> (r.0@ =~= (match self.branch_pats@[k as int] { Some(p) => p.toks(), None => seq![Tok::Ident(construct_result_name_spec(k))] }) "
        "&& r.1.name() =~= (match self.branch_pats@[k as int] { Some(p) => p.ident.name(), None => construct_result_name_spec(k) }))",
        "forall|k: int| 0 <= k < __i ==> (#[trigger] __a@[k])@ =~= (match self.branch_pats@[k] { Some(p) => p.toks(), None => seq![Tok::Ident(construct_result_name_spec(k as usize))] })",
        "forall|k: int| 0 <= k < __i ==> (#[trigger] __b@[k]).name() =~= (match self.branch_pats@[k] { Some(p) => p.ident.name(), None => construct_result_name_spec(k as usize) })",
    ]}},
    proof_epilogue="proof { assert(result_names_ok(*self, result_pats@, result_vars@)); }")


def top_units():
    """join_output.rs::<JoinOutput as ToTokens>::to_tokens (C07 / C09 / C13 / C19): how the generated code is assembled
    around the steps.  Callees appear with the contracts they are verified against in modules `gen` and `steps`."""
    g = gen_units()
    u = []
    keep_fns = {"generate_handle", "branch_result_name", "branch_result_pat"}
    for un in g:
        if un.get("kind") == "type" and un.get("name") in ("ActionExprPos", "StepAcc", "JoinOutput"):
            u.append(un)
        elif un.get("kind") == "raw" and un.get("label") in ("specs_gen", "specs_stack"):
            u.append(un)
        elif un.get("kind") == "fns" and un.get("self_ty") == "JoinOutput" and any(f["name"] in keep_fns for f in un["fns"]):
            un2 = dict(un)
            un2["fns"] = [f for f in un["fns"] if f["name"] in keep_fns]
            u += _assume([un2])
    u.append(table("quote_idents", F_JO, "qj+@Err"))
    u.append(raw("specs_join_steps", _read("specs_join_steps.rs")))
    u += _assume([fns(F_JO, [GENERATE_STEPS], self_ty="JoinOutput")])
    u.append(raw("specs_top", _read("specs_top.rs")))
    u.append(fns(F_JO, [TO_TOKENS], self_ty="JoinOutput", trait="ToTokens", header="impl<'a> JoinOutput<'a>"))
    # JoinOutput::new: the block that fills the fields (R15 block lifting): that it establishes jo_wf
    for un in g:
        if un.get("kind") == "type" and un.get("name") == "ActionExprChain":
            u.append(un)
        elif un.get("kind") == "lifted" and un["spec"]["name"] == "split_branch_steps":
            un2 = dict(un)
            un2["spec"] = dict(un["spec"], mode="assumed", closures={}, loops={}, iter_loops={}, subst=[], proof_prologue="", proof_epilogue="")
            u.append(un2)
    SPLIT_T = "((usize, Option<&'a PatIdent>), Vec<Vec<&'a ExprGroup<ActionExpr>>>)"
    MSB = "branches@[%s].members@"
    u.append({"kind": "lifted", "file": F_JO, "self_ty": "JoinOutput", "func": "new", "block_from": "let (depths_and_paths, chains)",
              "header": "impl<'a> JoinOutput<'a>",
              "sig": "new_fields(handler: Option<&'a Handler>, futures_crate_path: Option<&'a Path>, custom_joiner: Option<&'a TokenStream>, "
                     "custom_transpose_results: Option<bool>, lazy_branches: Option<bool>, config: Config, branches: &'a [ActionExprChain], "
                     "branch_count: usize, is_async: bool, is_try: bool, is_spawn: bool) -> Self",
              "spec": fn("new_fields", "r", label="JoinOutput::new_fields",
                         requires=["branch_count == branches@.len()", "branch_count >= 1",
                                   "forall|b: int| 0 <= b < branches@.len() ==> (#[trigger] branches@[b]).members@.len() < usize::MAX",
                                   "forall|b: int| 0 <= b < branches@.len() ==> branch_steps_ok((#[trigger] branches@[b]).members@)"],
                         ensures=["jo_wf(r)", "new_fields_ok(r, branches@, branches@.len() as int)",
                                  "r.branch_count == branch_count", "r.config == config", "r.handler == handler",
                                  "r.futures_crate_path == futures_crate_path", "r.custom_joiner == custom_joiner",
                                  "r.lazy_branches == doc_lazy_default(lazy_branches, is_spawn, is_async)",
                                  "r.transpose == doc_transpose_default(custom_transpose_results, is_try, is_async)",
                                  "forall|b: int| 0 <= b < r.depths@.len() ==> (#[trigger] r.depths@[b]) <= r.max_step_count",
                                  "exists|b: int| 0 <= b < r.depths@.len() && r.depths@[b] == r.max_step_count"],
                         chain_helpers={"into_iter.unzip": "vec_unzip({})", "iter.max": "vec_max(&{})"},
                         proof_epilogue="proof { lemma_new_fields(branch_count, depths@, chains@, branch_pats@, branches@); }",
                         closures={
                             "|expr_chain|": {"params": ["&'a ActionExprChain"], "ret": "(r: %s)" % SPLIT_T,
                                              "requires": ["expr_chain.members@.len() < usize::MAX"],
                                              "ensures": ["deep(r.1@) =~~= split_steps(expr_chain.members@, expr_chain.members@.len() as int)",
                                                          "r.0.0 == r.1@.len()",
                                                          "match expr_chain.ident { Some(p) => r.0.1 == Some(&p), None => r.0.1 is None }"],
                                              "call_out": "Self::split_branch_steps(expr_chain)"},
                         },
                         iter_loops={"0": {"acc_ty": "(usize, Option<&'a PatIdent>); Vec<Vec<&'a ExprGroup<ActionExpr>>>", "invariant": [
                             "__i <= __it.len()", "__it@ == branches@", "__a@.len() == __i", "__b@.len() == __i",
                             "forall|b: int| 0 <= b < branches@.len() ==> (#[trigger] branches@[b]).members@.len() < usize::MAX",
                             "forall|c: &'a ActionExprChain| c.members@.len() < usize::MAX ==> #[trigger] __f.requires((c,))",
                             "forall|c: &'a ActionExprChain, r: %s| #[trigger] __f.ensures((c,), r) ==> (deep(r.1@) =~~= split_steps(c.members@, c.members@.len() as int) && r.0.0 == r.1@.len() "
                             "&& (match c.ident { Some(p) => r.0.1 == Some(&p), None => r.0.1 is None }))" % SPLIT_T,
                             "forall|b: int| 0 <= b < __i ==> deep((#[trigger] __b@[b])@) =~~= split_steps(%s, %s.len() as int)" % (MSB % "b", MSB % "b"),
                             "forall|b: int| 0 <= b < __i ==> (#[trigger] __a@[b]).0 == split_steps(%s, %s.len() as int).len()" % (MSB % "b", MSB % "b"),
                             "forall|b: int| 0 <= b < __i ==> match branches@[b].ident { Some(p) => (#[trigger] __a@[b]).1 == Some(&p), None => __a@[b].1 is None }",
                         ], "body_prologue": "proof { assert(__it@[__i as int] == branches@[__i as int]); }"}})})
    # JoinOutput::new as a WHOLE: the guard chain around the field block (R15 block call-out to `new_fields`, which is
    # verified above from the same bytes) - what is rejected, and that everything accepted is a well-formed JoinOutput
    u.append(fns(F_JO, [fn("new", "r", label="JoinOutput::new",
        requires=["forall|b: int| 0 <= b < branches@.len() ==> (#[trigger] branches@[b]).members@.len() < usize::MAX",
                  "forall|b: int| 0 <= b < branches@.len() ==> branch_steps_ok((#[trigger] branches@[b]).members@)"],
        ensures=[
            # C13 / C15: rejected exactly when the documented guard says so (wrong handler kind, futures path on a sync macro, no branch)
            "(r is Err) == (doc_guard(config.is_try, config.is_async, handler_kind(handler), futures_crate_path is Some, branches@.len() as int) != 0)",
            # everything accepted is well-formed (precondition of to_tokens) and carries the caller's arguments in the right fields
            "r is Ok ==> jo_wf(r->Ok_0) && new_fields_ok(r->Ok_0, branches@, branches@.len() as int)",
            "r is Ok ==> r->Ok_0.branch_count == branches@.len() && r->Ok_0.config == config && r->Ok_0.handler == handler "
            "&& r->Ok_0.futures_crate_path == futures_crate_path && r->Ok_0.custom_joiner == custom_joiner",
            # C16: option defaults
            "r is Ok ==> r->Ok_0.lazy_branches == doc_lazy_default(lazy_branches, config.is_spawn, config.is_async)",
            "r is Ok ==> r->Ok_0.transpose == doc_transpose_default(custom_transpose_results, config.is_try, config.is_async)",
        ],
        block_call_from="let (depths_and_paths, chains)",
        block_call="Self::new_fields(handler, futures_crate_path, custom_joiner, custom_transpose_results, lazy_branches, config, branches, branch_count, is_async, is_try, is_spawn)",
        subst=[{"find": "\n    where\n        Self: Sized,", "replace": "", "why": "trivial where-clause dropped (Self is a struct)", "sig": True}],
    )], self_ty="JoinOutput", header="impl<'a> JoinOutput<'a>"))
    # ---- generate_join: from the parsed input to the expansion (C16: which option reaches which field; C07/C09: the
    # default futures path).  Monomorphised at its only instantiation T = JoinInputDefault (join/src/lib.rs::join_impl).
    u.append(ty(F_JMOD, "JoinInputDefault"))
    u.append(raw("specs_generate_join", """
/// what `<JoinOutput as ToTokens>::to_tokens` appends for a well-formed JoinOutput
pub open spec fn is_expansion_of(jo: JoinOutput, out: Seq<Tok>) -> bool {
    exists|pats: Seq<TokenStream>, vars: Seq<Ident>| #[trigger] result_names_ok(jo, pats, vars)
        && out == top_toks(jo, steps_toks(jo, pats, vars, %s, %s, 0))
}

/// `quote::ToTokens::into_token_stream` (provided method: a fresh stream filled by `to_tokens`) for JoinOutput, whose
/// `to_tokens` is emitted as an inherent method because its postcondition is relational
pub fn jo_into_token_stream<'a>(jo: JoinOutput<'a>) -> (r: TokenStream)
    requires jo_wf(jo),
    ensures is_expansion_of(jo, r@),
{
    let mut s = TokenStream::new();
    jo.to_tokens(&mut s);
    proof {
        let (pats, vars) = choose|pats: Seq<TokenStream>, vars: Seq<Ident>| #[trigger] result_names_ok(jo, pats, vars)
            && s@ == Seq::<Tok>::empty() + top_toks(jo, steps_toks(jo, pats, vars, %s, %s, 0));
        assert(Seq::<Tok>::empty() + top_toks(jo, steps_toks(jo, pats, vars, %s, %s, 0)) =~= top_toks(jo, steps_toks(jo, pats, vars, %s, %s, 0)));
    }
    s
}

/// `proc_macro::TokenStream::from(proc_macro2::TokenStream)`
pub fn pm_token_stream_from(t: TokenStream) -> (r: TokenStream) ensures r@ == t@, { t }

/// the tokens of `::futures`
pub open spec fn default_futures_path_toks() -> Seq<Tok> {
    Seq::<Tok>::empty().push(Tok::Punct(':')).push(Tok::Punct(':')).push(Tok::Ident("futures"@))
}

/// C16 / C07 / C09: the JoinOutput `generate_join` builds from the parsed input: branches, handler and joiner as parsed,
/// `transpose_results(..)` decides the transposition and `lazy_branches(..)` the laziness (each with its documented
/// default), the futures path is the given one, else `::futures` for async kinds, else none
pub open spec fn gj_ok(jo: JoinOutput, join: JoinInputDefault, config: Config, out: Seq<Tok>) -> bool {
    &&& jo_wf(jo) && new_fields_ok(jo, join.branches@, join.branches@.len() as int)
    &&& jo.branch_count == join.branches@.len() && jo.config == config
    &&& handler_kind(jo.handler) == handler_kind(opt_ref(&join.handler))
    &&& (match join.handler { Some(h) => jo.handler is Some && *(jo.handler->0) == h, None => jo.handler is None })
    &&& (match join.custom_joiner { Some(j) => jo.custom_joiner is Some && *(jo.custom_joiner->0) == j, None => jo.custom_joiner is None })
    &&& opt_path(jo.futures_crate_path) == (match join.futures_crate_path { Some(p) => p.ptoks(), None => if config.is_async { default_futures_path_toks() } else { no_toks() } })
    &&& jo.lazy_branches == doc_lazy_default(join.lazy_branches, config.is_spawn, config.is_async)
    &&& jo.transpose == doc_transpose_default(join.transpose_results, config.is_try, config.is_async)
    &&& is_expansion_of(jo, out)
}
""" % ((GS_FI, GS_EV) * 4)))
    # R14: `join.m()` inside `generate_join<T: JoinInput>` is a TRAIT method call; at T = JoinInputDefault the body that runs
    # is the impl's own method if `impl JoinInput for JoinInputDefault` defines one, else the trait's provided body
    # (an inherent method of the same name is never chosen by a generic caller)
    ACC = [("futures_crate_path", "Option<&Path>", "r == opt_ref(&this.futures_crate_path)"),
           ("branches", "&[ActionExprChain]", "r@ == this.branches@"),
           ("handler", "Option<&Handler>", "r == opt_ref(&this.handler)"),
           ("joiner", "Option<&TokenStream>", "r == opt_ref(&this.custom_joiner)"),
           ("transpose_results_option", "Option<bool>", "r == this.transpose_results"),
           ("lazy_branches_option", "Option<bool>", "r == this.lazy_branches")]
    for m, rt, ens in ACC:
        u.append({"kind": "resolved", "trait_file": F_JMOD, "trait_": "JoinInput", "method": m, "impl_file": F_JMOD, "self_ty": "JoinInputDefault",
                  "name": "ji_" + m, "ret": "r", "ret_ty": rt, "ensures": [ens]})
    u.append(fns(F_JMOD, [fn("generate_join", "r",
        requires=["forall|b: int| 0 <= b < join.branches@.len() ==> (#[trigger] join.branches@[b]).members@.len() < usize::MAX",
                  "forall|b: int| 0 <= b < join.branches@.len() ==> branch_steps_ok((#[trigger] join.branches@[b]).members@)",
                  # otherwise `JoinOutput::new` returns Err and the `unwrap` panics: that panic IS the compile error of a
                  # rejected kind / handler combination (C13), so it is excluded here, not proved absent
                  "doc_guard(config.is_try, config.is_async, handler_kind(opt_ref(&join.handler)), join.futures_crate_path is Some, join.branches@.len() as int) == 0"],
        ensures=["exists|jo: JoinOutput| #[trigger] is_expansion_of(jo, r@) && gj_ok(jo, *join, config, r@)"],
        chain_helpers={"unwrap.into_token_stream": "jo_into_token_stream({}.unwrap())"},
        subst=[{"find": "<T: JoinInput<Chain = ActionExprChain, Handler = Handler>>(\n    join: &T,", "replace": "(\n    join: &JoinInputDefault,",
                "why": "monomorphised at the only instantiation (join/src/lib.rs::join_impl passes a JoinInputDefault)", "sig": True}] +
              [{"find": "join.%s()" % m, "replace": "ji_%s(join)" % m, "why": "R14: trait method call on T = JoinInputDefault resolved to the body that runs"} for m, _, _ in ACC],
    )]))
    # join/src/lib.rs::join_impl - the helper all twelve `#[proc_macro]` entry points call with the parsed input and their
    # Config literal (R9 table `configs` checks that shape): it hands BOTH on unchanged
    u.append(fns(F_LIB, [fn("join_impl", "r",
        requires=["forall|b: int| 0 <= b < join.branches@.len() ==> (#[trigger] join.branches@[b]).members@.len() < usize::MAX",
                  "forall|b: int| 0 <= b < join.branches@.len() ==> branch_steps_ok((#[trigger] join.branches@[b]).members@)",
                  "doc_guard(config.is_try, config.is_async, handler_kind(opt_ref(&join.handler)), join.futures_crate_path is Some, join.branches@.len() as int) == 0"],
        ensures=["exists|jo: JoinOutput| #[trigger] is_expansion_of(jo, r@) && gj_ok(jo, join, config, r@)"],
        subst=[{"find": "TokenStream::from(", "replace": "pm_token_stream_from(", "why": "proc_macro::TokenStream::from(proc_macro2::TokenStream): the two token-stream types are one type in the token algebra; the conversion keeps the tokens (prelude helper)"}],
    )]))
    return u


def guards_units():
    """R8 expression extraction from JoinOutput::new (C13 kind/handler compatibility, C16 defaults)"""
    u = []
    params = ("handler: Option<&Handler>, futures_crate_path: Option<&Path>, custom_joiner: Option<&TokenStream>, "
              "custom_transpose_results: Option<bool>, lazy_branches: Option<bool>, config: Config, branch_count_in: usize")
    sub = [{"find": "branches.len()", "replace": "branch_count_in", "why": "the only use of `branches` before the guard chain is its length"}]
    u.append({"kind": "exprs", "file": F_JO, "self_ty": "JoinOutput", "func": "new", "what": "guards", "name": "new_guards",
              "params": params, "subst": sub,
              "ensures": ["r.0 == doc_guard(config.is_try, config.is_async, handler_kind(handler), futures_crate_path is Some, branch_count_in as int)",
                          "r.1"]})
    u.append({"kind": "exprs", "file": F_JO, "self_ty": "JoinOutput", "func": "new", "what": "field_inits", "name": "new_init",
              "params": params, "subst": sub,
              "fields": [
                  {"name": "lazy_branches", "ty": "bool", "ensures": ["r == doc_lazy_default(lazy_branches, config.is_spawn, config.is_async)"]},
                  {"name": "transpose", "ty": "bool", "ensures": ["r == doc_transpose_default(custom_transpose_results, config.is_try, config.is_async)"]},
              ]})
    u.append(fns(F_H, [
        fn("is_map", "r", ensures=["r == (self is Map)"]),
        fn("is_then", "r", ensures=["r == (self is Then)"]),
        fn("is_and_then", "r", ensures=["r == (self is AndThen)"]),
    ], self_ty="Handler"))
    return u


def handler_units():
    """handler.rs: which keyword yields which Handler variant (C13), with syn's peeks as pure functions of the stream"""
    u = []
    u.append(ty(F_UNIT, "Unit", subst=[{"find": "<T: Clone + Debug, N: Clone + Debug>", "replace": "<T, N>", "why": "derive bounds are irrelevant to the data layout"}]))
    u.append(raw("prelude_syn", _read("prelude_syn.rs")))
    u.append(raw("specs_handler", _read("specs_handler.rs")))
    PK = "proof { axiom_one_next_token(input, 1, 2); axiom_one_next_token(input, 1, 3); axiom_one_next_token(input, 2, 3); }"
    u.append(fns(F_H, [
        fn("peek_map_handler", "r", ensures=["r == (input.peeks(1) && input.peeks2(4))"]),
        fn("peek_then_handler", "r", ensures=["r == (input.peeks(2) && input.peeks2(4))"]),
        fn("peek_and_then_handler", "r", ensures=["r == (input.peeks(3) && input.peeks2(4))"]),
        # `map =>`, `then =>` or `and_then =>` stands in the input
        fn("peek_handler", "r", ensures=["r == (peeked_handler(input) != HKind::NoHandler)"], proof_prologue=PK),
    ], self_ty="Handler"))
    u.append(fns(F_H, [
        # the handler built is the one whose keyword stands in the input; no keyword, no handler
        fn("try_from", "r", ensures=["r is Ok ==> peeked_handler(input) != HKind::NoHandler && handler_kind(Some(&r->Ok_0)) == peeked_handler(input)"],
           proof_prologue=PK,
           subst=[{"find": "ParseStream<'a>", "replace": "ParseStream<'_>", "why": "the impl's lifetime parameter written as an anonymous one (the function is emitted in an inherent impl)", "sig": True}]),
    ], self_ty="Handler", trait="TryFrom", header="impl Handler"))
    return u


def builder_units():
    """action_expr_chain/builder.rs: the `>>>`/`<<<` balance bookkeeping (C15) with the syn calls opaque"""
    u = []
    u.append(ty(F_UNIT, "Unit", subst=[{"find": "<T: Clone + Debug, N: Clone + Debug>", "replace": "<T, N>", "why": "derive bounds are irrelevant to the data layout"}]))
    u.append(raw("prelude_syn", _read("prelude_syn.rs")))
    u.append(raw("opaque_group_determiner", "#[verifier::external_body]\npub struct GroupDeterminer { _p: () }\n"))
    u.append(ty(F_CHAIN, "ActionExprChain"))
    u.append(ty(F_BUILDER, "ActionExprChainBuilder"))
    u.append(raw("specs_builder", _read("specs_builder.rs")))
    # `impl Chain for ActionExprChain` emitted as an inherent impl (the trait only adds `impl Into<Option<_>>` sugar)
    u.append(fns(F_CHAIN, [
        fn("new", "r", ensures=["r.ident == ident", "r.members@ =~= members@"]),
        fn("append_member", "r", ensures=["final(self).members@ == old(self).members@.push(val)", "final(self).ident == old(self).ident", "r == final(self).members@.len()",
                                          "append_facts(old(self).members@, final(self).members@, val.action)"],
           proof_epilogue="proof { lemma_append_facts(old(self).members@, self.members@.last()); }"),
        fn("set_id", "r", ensures=["r.ident == val", "r.members@ == old(self).members@", "*final(r) == *final(self)"]),
        fn("members", "r", ensures=["r@ == self.members@"],
           subst=[{"find": "&[Self::Member]", "replace": "&[ExprGroup<ActionExpr>]", "why": "associated type of the Chain impl written out (type Member = ExprGroup<ActionExpr>)"}]),
        fn("len", "r", ensures=["r == self.members@.len()"]),
        fn("remove_member", "r", ensures=["idx < old(self).members@.len() ==> r == Some(old(self).members@[idx as int]) && final(self).members@ == old(self).members@.remove(idx as int)",
                                          "idx >= old(self).members@.len() ==> r is None && final(self).members@ == old(self).members@",
                                          "final(self).ident == old(self).ident"],
           subst=[{"find": "Option<Self::Member>", "replace": "Option<ExprGroup<ActionExpr>>", "why": "associated type of the Chain impl written out", "sig": True}]),
    ], self_ty="ActionExprChain", trait="Chain", header="impl ActionExprChain"))
    u.append({"kind": "resolved", "trait_file": "join_impl/src/chain/mod.rs", "trait_": "Chain", "method": "is_empty", "impl_file": F_CHAIN, "self_ty": "ActionExprChain",
              "name": "chain_is_empty", "ret": "r", "ensures": ["r == (this.members@.len() == 0)"]})
    u.append(fns(F_AG, [
        # contract only here: verified in module `parse`
        fn("parse_stream", "r", mode="assumed", ensures=PARSE_STREAM_ENSURES),
    ], self_ty="ActionGroup"))
    # parse_until as a whole: ASSUMED here with the postcondition its suffix is VERIFIED against in module `parse`
    # (every Ok result flows through that suffix: the scan loop in front of it only returns Err)
    u.append(fns(F_UTILS, [fn("parse_until", "r", mode="assumed", ensures=["r is Ok ==> opt_group_wf(r->Ok_0.next)"],
                               subst=[{"find": "T: Parse + Clone + Debug", "replace": "T: Parse", "why": "derive-style bounds are irrelevant here", "sig": True},
                                      {"find": "group_determiners: impl Iterator<Item = &'a GroupDeterminer> + Clone", "replace": "group_determiners: core::slice::Iter<'a, GroupDeterminer>",
                                       "why": "monomorphised at the only call site (ActionExprChainBuilder::parse_unit passes `self.group_determiners.iter()`)", "sig": True}])]))
    # the chain builder's unit parser IS parse_until over the builder's determiners (real body, verified)
    u.append(fns(F_BUILDER, [fn("parse_unit", "r",
                                subst=[{"find": "T: Parse + Clone + Debug", "replace": "T: Parse", "why": "derive-style bounds are irrelevant here", "sig": True}])],
                 self_ty="ActionExprChainBuilder", trait="ParseUnit", header="impl<'a> ParseUnit<ActionGroup> for ActionExprChainBuilder<'a>",
                 extra="    open spec fn next_wf(&self, n: Option<ActionGroup>) -> bool { opt_group_wf(n) }\n"))
    u.append(raw("use_let", "use crate::Expr::Let;\n"))
    u.append(fns(F_UTILS, [fn("is_block_expr", "r", ensures=["r == (expr is Block)"])]))
    u.append(fns(F_BUILDER, [
        fn("build_from_parse_stream", "r",
           ensures=[
               # C15: a `<<<` only ever closes a `>>>` of the same step, so the generator's stack never underflows
               "r is Ok ==> balanced(groups_of(r->Ok_0.members@), groups_of(r->Ok_0.members@).len() as int)",
               "r is Ok ==> r->Ok_0.members@.len() >= 1",
               # every member is one the generator can process (carried from each parse_stream call through the loop);
               # with the balance this is the generator's whole precondition on a branch (lemma_accepted_branch, module `top`)
               "r is Ok ==> members_ok(r->Ok_0.members@)",
           ],
           proof_prologue="broadcast use lemma_groups_push, lemma_balance_prefix, lemma_balanced_prefix;",
           loops={"0": {"invariant": [
               "member_idx == chain.members@.len()",
               "balanced(groups_of(chain.members@), chain.members@.len() as int)",
               "wrapper_count == step_with(balance(groups_of(chain.members@), chain.members@.len() as int), action_group)",
               "0 <= wrapper_count <= chain.members@.len() + 1",
               "member_idx == 0 ==> action_group.combinator == Combinator::Initial",
               "member_idx == 0 ==> action_group.application_type == ApplicationType::Instant && action_group.move_type == MoveType::None",
               "group_wf(action_group)",
               "forall|i: int| 0 <= i < chain.members@.len() ==> member_ok(#[trigger] chain.members@[i])",
               "chain.members@.len() > 0 ==> chain.members@[0].action.application_type == ApplicationType::Instant",
           ],
               # A8 (machine arithmetic): the two counters are verified under the stated bound on the number of actions
               "body_prologue": "proof { assume(chain.members@.len() < 0x7fff_0000); }"}},
           subst=[{"find": "chain.is_empty()", "replace": "chain_is_empty(&chain)", "why": "R14: <ActionExprChain as Chain>::is_empty resolved to the body that runs (the impl's own method if it defines one, else the trait's provided `self.len() == 0`)"},
                  {"find": "let mut member_idx = 0;", "replace": "let mut member_idx: usize = 0;", "why": "integer type made explicit (only compared with 0 and incremented)"},
                  {"find": "            chain.append_member(action_expr);", "replace": "            proof { lemma_member_ok(action_group, action_expr); }\n            chain.append_member(action_expr);", "why": "R7 proof annotation (lemma call, no executable change)"}]),
    ], self_ty="ActionExprChainBuilder", trait="ParseChain", header="impl<'a> ActionExprChainBuilder<'a>"))
    # ---- `<JoinInputDefault as Parse>::parse`, the statements from the branch / handler loop on (R15 statement lifting; the
    # option loop in front of it is dropped and stays with engine R's exhaustive `options` family): every branch the
    # macro keeps is one `build_from_parse_stream` accepted, at least one branch, the option fields are not touched
    u.append(ty(F_JMOD, "JoinInputDefault"))
    u.append(raw("specs_parse_branches", """
impl Handler {
    /// opaque (syn-driven)
    #[verifier::external_body]
    pub fn peek_handler(input: ParseStream<'_>) -> (r: bool) { unimplemented!() }
    /// opaque here (syn-driven); its keyword -> variant mapping is verified in module `handler`
    #[verifier::external_body]
    pub fn try_from(input: ParseStream<'_>) -> (r: syn::Result<Handler>) { unimplemented!() }
}

/// what `build_from_parse_stream` guarantees about a chain it accepted
pub open spec fn chain_ok(c: ActionExprChain) -> bool {
    balanced(groups_of(c.members@), c.members@.len() as int) && members_ok(c.members@)
}
pub open spec fn chains_ok(bs: Seq<ActionExprChain>) -> bool {
    forall|b: int| 0 <= b < bs.len() ==> chain_ok(#[trigger] bs[b])
}
"""))
    u.append({"kind": "lifted", "file": F_PARSE, "self_ty": "JoinInputDefault", "of_trait": "Parse", "func": "parse",
              "stmts_from": "while !input.is_empty()", "header": "impl JoinInputDefault",
              "sig": "parse_branches<'b, 'c>(input: ParseStream<'b>, mut join: JoinInputDefault, action_expr_chain_builder: ActionExprChainBuilder<'c>) -> syn::Result<JoinInputDefault>",
              "spec": fn("parse_branches", "r", label="JoinInputDefault::parse_branches",
                         attrs="#[verifier::exec_allows_no_decreases_clause]\n",
                         requires=["chains_ok(join.branches@)"],
                         ensures=["r is Ok ==> r->Ok_0.branches@.len() >= 1 && chains_ok(r->Ok_0.branches@)",
                                  # frame: the branch / handler loop leaves the four options as the option loop set them
                                  "r is Ok ==> r->Ok_0.futures_crate_path == join.futures_crate_path && r->Ok_0.custom_joiner == join.custom_joiner "
                                  "&& r->Ok_0.transpose_results == join.transpose_results && r->Ok_0.lazy_branches == join.lazy_branches",
                                  # a handler given before the loop is kept (a second one is an error)
                                  "r is Ok && join.handler is Some ==> r->Ok_0.handler == join.handler"],
                         loops={"0": {"invariant": [
                             "chains_ok(join.branches@)",
                             "join.futures_crate_path == join0.futures_crate_path && join.custom_joiner == join0.custom_joiner",
                             "join.transpose_results == join0.transpose_results && join.lazy_branches == join0.lazy_branches",
                             "join0.handler is Some ==> join.handler == join0.handler",
                         ]}},
                         proof_prologue="let ghost join0 = join;")})
    # ---- the four option blocks of `<JoinInputDefault as Parse>::parse` (R15 single-statement lifting; `parenthesized!` by R11)
    u.append(raw("specs_options", _read("specs_options.rs")))
    OPTS = [("futures_crate_path", 11, "true, false, false, false", "futures_crate_path"), ("custom_joiner", 12, "false, true, false, false", "custom_joiner"),
            ("transpose_results", 13, "false, false, true, false", "transpose_results"), ("lazy_branches", 14, "false, false, false, true", "lazy_branches")]
    for kw, kid, frame, field in OPTS:
        u.append({"kind": "lifted", "file": F_PARSE, "self_ty": "JoinInputDefault", "of_trait": "Parse", "func": "parse",
                  "stmt_at": "if input.peek(keywords::%s)" % kw, "ret_wrap": "Ok(join)", "header": "impl JoinInputDefault",
                  "sig": "parse_option_%s<'b>(input: ParseStream<'b>, mut join: JoinInputDefault) -> syn::Result<JoinInputDefault>" % kw,
                  "spec": fn("parse_option_%s" % kw, "r", label="JoinInputDefault::parse_option_%s" % kw,
                             ensures=[
                                 # without the keyword nothing changes; with it only this option's field may change ...
                                 "r is Ok && !input.peeks(%d) ==> r->Ok_0 == join" % kid,
                                 "r is Ok ==> opts_frame(join, r->Ok_0, %s)" % frame,
                                 # ... it is set afterwards, and it was not set before (a second occurrence is an error)
                                 "r is Ok && input.peeks(%d) ==> r->Ok_0.%s is Some && join.%s is None" % (kid, field, field),
                             ])})
    # ---- `<JoinInputDefault as Parse>::parse` as a WHOLE (R15 statement call-outs for the four option blocks, tail call-out for the
    # branch / handler loop; each twin is verified above from the same bytes): whatever the options, a successful parse
    # hands over at least one branch and only chains the builder accepted
    u.append(fns(F_BUILDER, [fn("new", "r", label="ActionExprChainBuilder::new", ensures=["r.group_determiners == group_determiners", "r.deferred_determiner == deferred_determiner", "r.wrapper_determiner == wrapper_determiner"])],
                 self_ty="ActionExprChainBuilder", header="impl<'a> ActionExprChainBuilder<'a>"))
    u.append(fns(F_PARSE, [fn("parse", "r", label="JoinInputDefault::parse",
        ensures=["r is Ok ==> r->Ok_0.branches@.len() >= 1 && chains_ok(r->Ok_0.branches@)"],
        stmt_calls={"if input.peek(keywords::%s)" % kw: "join = Self::parse_option_%s_w(input, join)?;" % kw for kw, _, _, _ in OPTS},
        tail_from="while !input.is_empty()", tail_call="Self::parse_branches(input, join, action_expr_chain_builder)",
        loops={"0": {"invariant": ["join.branches@.len() == 0"]}},
        subst=[{"find": "for _ in 0..4", "replace": "for _i in 0..4", "why": "Verus wants a named loop variable (unused)"},
               {"find": "DEFAULT_GROUP_DETERMINERS,", "replace": "default_group_determiners(),", "why": "the constant as an opaque value (its rows are the R9 table `determiners`)"},
               {"find": "DEFERRED_DETERMINER,", "replace": "deferred_determiner(),", "why": "the constant as an opaque value"},
               {"find": "WRAPPER_DETERMINER,", "replace": "wrapper_determiner(),", "why": "the constant as an opaque value"}],
    )], self_ty="JoinInputDefault", trait="Parse", header="impl JoinInputDefault"))
    return u


def parse_units():
    """parse/utils.rs::parse_until: what follows the scan loop (C02 wrapper legality, move/application type)"""
    u = []
    u.append(ty(F_UNIT, "Unit", subst=[{"find": "<T: Clone + Debug, N: Clone + Debug>", "replace": "<T, N>", "why": "derive bounds are irrelevant to the data layout"}]))
    u.append(raw("prelude_syn", _read("prelude_syn.rs")))
    u.append(raw("fn_ptr_opaque", "#[verifier::external_body]\npub struct FnPtrOpaque { _p: () }\n"))
    u.append(ty(F_GD, "GroupDeterminer", subst=[{"find": "CheckStreamFnPointer", "replace": "FnPtrOpaque", "why": "A11: the fn-pointer union (unsafe) is outside every contract, its field becomes an opaque value; check_input / erase_input stay external"}]))
    u.append(raw("specs_parse", _read("specs_parse.rs")))
    # the determiner's own methods (real bodies) and the validity test they rest on
    u.append(fns(F_UTILS, [
        fn("is_valid_stream", "r", ensures=["r == valid_stream::<T>(input@)"],
           subst=[{"find": "syn::parse2::<T>(input)", "replace": "parse2::<T>(input)", "why": "path to the prelude's external `parse2`"}]),
    ]))
    # `Empty` (the operand type of operand-less operators) parses exactly the empty stream
    u.append(fns("join_impl/src/parse/empty.rs", [fn("parse", "r", label="Empty::parse", ensures=["(r is Ok) == input.is_empty_spec()"],
                                                    subst=[{"find": "input: ParseStream)", "replace": "input: ParseStream<'_>)", "why": "elided lifetime of the type alias written out", "sig": True},
                                                           {"find": "input.is_empty()", "replace": "input.is_empty_now()", "why": "A13: this function consumes nothing, so emptiness is a pure function of the stream here"}])],
                 self_ty="Empty", trait="Parse", header="impl Empty"))
    u.append(fns(F_UTILS, [fn("is_valid_expr", "r", ensures=["r == valid_stream::<Expr>(input@)"])]))
    u.append(fns(F_GD, [
        fn("combinator", "r", ensures=["r == self.comb()"]),
        # C14: an operand is complete iff syn can parse what was collected as a T - nothing cheaper, nothing more
        fn("check_parsed", "r", ensures=["r == self.parsed_ok::<T>(input@)"]),
        fn("len", "r", ensures=["r == self.length"]),
        fn("is_empty", "r", ensures=["r == (self.length == 0)"]),
        # consumes `length` token trees and hands the SAME stream back (what it consumes is syn's business)
        fn("erase_input", "r", ensures=["r is Ok ==> r->Ok_0 == input"],
           subst=[{"find": "for _ in 0..self.len()", "replace": "for _i in 0..self.len()", "why": "Verus wants a named loop variable (unused)"}]),
    ], self_ty="GroupDeterminer"))
    u.append(fns(F_AG, [
        # ASSUMED (generic unit parsers behind `parse_n_or_empty_unit_fn!`): result tied to the R9 tables
        fn("parse_action_expr", "r", mode="assumed", ensures=[
            "r is Ok ==> r->Ok_0.parsed.action == *self",
            "r is Ok ==> r->Ok_0.parsed.expr.ctor_of() == parse_table(self.combinator).1",
            "r is Ok && self.combinator == Combinator::Initial ==> r->Ok_0.parsed.expr.operands().len() == 1",
            # ASSUMED with the rest: the `next` of the result is the `next` of the unit parser's result (macro glue)
            "r is Ok ==> unit_parser.next_wf(r->Ok_0.next)"]),
        # C02: a Wrap action is the placeholder built by to_wrapper_action_expr; everything else goes through the table
        fn("parse_stream", "r", ensures=PARSE_STREAM_ENSURES + [
        ], closures={
            "0": {"params": [], "ret": "(r: SynError)"},
            "1": {"params": ["ExprGroup<ActionExpr>"], "ret": "(r: UnitResult<ExprGroup<ActionExpr>, ActionGroup>)", "ensures": ["r is Ok ==> r->Ok_0.parsed == val", "r is Ok ==> unit_parser.next_wf(r->Ok_0.next)"]},
        }, subst=[{"find": "let &Self {\n            combinator,\n            move_type,\n            ..\n        } = self;",
                   "replace": "let combinator = self.combinator; let move_type = self.move_type;",
                   "why": "Verus does not support reference patterns; same bindings (both fields are Copy)"}]),
    ], self_ty="ActionGroup"))
    u.append({"kind": "exprs", "file": F_UTILS, "self_ty": "", "func": "parse_until", "what": "suffix_after_while", "name": "parse_until_suffix",
              "params": "input: ParseStream<'_>, wrapper_determiner: &GroupDeterminer, next: Option<&GroupDeterminer>, deferred: bool, wrap_in: bool, tokens: TokenStream",
              "fields": [{"name": "<T: Parse>", "ty": "UnitResult<T, ActionGroup>"}],
              "subst": [{"find": "next.and_then(|group| {", "replace": "next.and_then(|group: &GroupDeterminer| -> (r: Option<ActionGroup>) ensures r == next_group(group.comb(), deferred, wrap), {", "why": "R7 closure contract"},
                        {"find": ".map(|combinator| {", "replace": ".map(|combinator: Combinator| -> (r: ActionGroup) ensures r == mk_group(combinator, deferred, wrap), {", "why": "R7 closure contract"},
                        {"find": "{\n    if let Some(group) = next {", "replace": "{\n    let mut wrap = wrap_in;\n    if let Some(group) = next {", "why": "`wrap` is a `let mut` of the dropped prefix (initialised to false there)"}],
              "ensures": [
                  # what the parser hands to the builder / generator for the NEXT action
                  "r is Ok ==> match r->Ok_0.next { Some(g) => next is Some && next->0.comb() == Some(g.combinator) && group_wf(g) && (g.application_type == ApplicationType::Deferred) == deferred, None => next is None || next->0.comb() is None }",
              ]})
    # parse_until, ONE evaluation of the scan condition (R15 block lifting out of the `while` condition, with the captured
    # locals the block assigns handed back next to its value): the operator that ends the operand is the FIRST row of the
    # determiner table that matches at this position (C14: with lemma_first_match_is_longest = the longest documented
    # operator), it ends the operand only after a complete operand, and a `~` must be followed by a combinator.
    # Model note: within this block every group-determiner peek sees the same stream state (the only consuming call,
    # erasing the `~`, precedes them), so `check_input` is a pure function of the stream here.
    GD = "&'a GroupDeterminer"
    u.append({"kind": "lifted", "file": F_UTILS, "self_ty": "", "func": "parse_until", "block_from": "deferred = deferred_determiner.check_input(input);",
              "ret_wrap": "Ok(({}, deferred, next))", "header": "impl ParseUntil",
              "sig": "scan_step<'a, 'b, T: Parse>(input: ParseStream<'b>, group_determiners: &'a [GroupDeterminer], deferred_determiner: &'a GroupDeterminer, "
                     "allow_empty_parsed: bool, tokens: &TokenStream, mut deferred: bool, mut next: Option<&'a GroupDeterminer>) -> syn::Result<(bool, bool, Option<&'a GroupDeterminer>)>",
              "spec": fn("scan_step", "r", label="ParseUntil::scan_step",
                         ensures=[
                             "r is Ok ==> (r->Ok_0).1 == deferred_determiner.matches(input)",
                             "r is Ok && (r->Ok_0).0 ==> exists|k: int| #[trigger] is_first_match(group_determiners@, input, k) && (r->Ok_0).2 == Some(&group_determiners@[k]) "
                             "&& unit_end_ok::<T>(group_determiners@[k], tokens@, allow_empty_parsed)",
                             "r is Ok && !(r->Ok_0).0 ==> (r->Ok_0).2 == next",
                             "r is Ok && (r->Ok_0).1 ==> (r->Ok_0).0 && (r->Ok_0).2 is Some && (r->Ok_0).2->0.comb() is Some",
                             "r is Ok && no_match(group_determiners@, input) ==> !(r->Ok_0).0",
                         ],
                         closures={
                             "0": {"params": ["&" + GD], "ret": "(r: bool)", "ensures": ["r == (**group).matches(input)"]},
                             "1": {"params": [GD], "ret": "(r: bool)", "ensures": ["r == unit_end_ok::<T>(*group, tokens@, allow_empty_parsed)"]},
                             "2": {"params": [GD], "ret": "(r: Option<Combinator>)", "ensures": ["r == group.comb()"]},
                         },
                         iter_loops={"0": {"invariant": [
                             "__it@ == group_determiners@", "__i <= __it@.len()",
                             "forall|j: int| 0 <= j < __i ==> !(#[trigger] __it@[j]).matches(input)",
                             "__r is Some ==> __i < __it@.len() && __r == Some(&__it@[__i as int]) && __it@[__i as int].matches(input)",
                             "forall|g: &%s| #[trigger] __p.requires((g,))" % GD,
                             "forall|g: &%s, b: bool| #[trigger] __p.ensures((g,), b) ==> b == (**g).matches(input)" % GD,
                         ], "after": "proof { if __r is Some { assert(is_first_match(group_determiners@, input, __i as int)); } else { assert(no_match(group_determiners@, input)); } }"}})})
    # parse_until as a WHOLE: the scan block of the `while` condition and the statements after the loop are call-outs to
    # their twins (both verified above from the same bytes; for the scan step the peek-free part of its contract).  Every
    # Ok result carries a well-formed next group - what the builder's unit parser relies on - and a `~` that was seen is
    # either attached to the operator that ends the operand or an error.
    u.append(fns(F_UTILS, [fn("parse_until", "r", label="parse_until", attrs="#[verifier::exec_allows_no_decreases_clause]\n",
        ensures=["r is Ok ==> opt_group_wf(r->Ok_0.next)"],
        block_call_from="deferred = deferred_determiner.check_input(input);",
        block_call="let (__e, __d, __n) = ParseUntil::scan_step_w::<T>(input, group_determiners, deferred_determiner, allow_empty_parsed, &tokens, deferred, next)?; deferred = __d; next = __n; __e",
        tail_from="if let Some(group) = next {", tail_call="parse_until_suffix::<T>(input, wrapper_determiner, next, deferred, wrap, tokens)",
        subst=[{"find": "T: Parse + Clone + Debug", "replace": "T: Parse", "why": "derive-style bounds are irrelevant here", "sig": True},
               {"find": "group_determiners: impl Iterator<Item = &'a GroupDeterminer> + Clone", "replace": "group_determiners: &'a [GroupDeterminer]",
                "why": "monomorphised at the only call site (a slice iterator; its `clone()` restarts at the first row)", "sig": True}],
    )]))
    return u


def sep_units():
    u = []
    u.append(ty(F_JO, "ActionExprPos"))
    u.append(ty(F_JO, "StepAcc"))
    u.append(ty(F_JO, "JoinOutput"))
    u.append(raw("specs_gen", _read("specs_gen.rs")))
    u.append(raw("specs_stack", _read("specs_stack.rs")))
    u.append(raw("specs_sep", _read("specs_sep.rs")))
    u.append(fns(F_UTILS, [fn("is_block_expr", "r", ensures=["r == (expr is Block)"])]))
    return u + sep_fn_units()


def sep_fn_units():
    """join_output.rs::separate_block_expr, monomorphised per instantiation and verified (R13 + R14)"""
    u = []

    def mono(T, suffix, extra_ensures, replaceable_call=None):
        sub = [{"find": "fn separate_block_expr<ExprType: InnerExpr + Clone>(", "replace": "fn separate_block_expr_%s<'x>(" % suffix,
                "why": "monomorphised at the instantiation ExprType = %s (one of the three call sites in generate_def_and_step_streams)" % T, "sig": True},
               {"find": "inner_expr: &ExprType", "replace": "inner_expr: &'x ExprType",
                "why": "names the elided lifetime of the argument so that the closure types written out by R7 can refer to it (no semantic change)", "sig": True},
               {"find": "ExprType", "replace": T, "why": "monomorphisation", "all": True, "sig": True}]
        if replaceable_call:
            sub.append({"find": "inner_expr.is_replaceable()", "replace": "%s(inner_expr)" % replaceable_call,
                        "why": "static dispatch resolved by R14: %s does not override the provided method, Verus cannot see a provided body through the trait" % T})
        AE = {"ProcessExpr": "Process", "ErrExpr": "Err", "InitialExpr": "Initial"}[T]
        return fn("separate_block_expr", "r", label="JoinOutput::separate_block_expr_%s" % suffix,
                  attrs="#[verifier::loop_isolation(false)]\n", proof_prologue="broadcast use lemma_sep_step;",
                  ensures=["sep_ok_obs(*inner_expr, branch_index, expr_index, r)",
                           # the same fact over ActionExpr (names the printed form for the caller's contract)
                           "printed_as(ActionExpr::%s(*inner_expr), ActionExpr::%s(match r.1 { Some(q) => q, None => *inner_expr }), branch_index, expr_index)" % (AE, AE),
                           ] + extra_ensures,
                  subst=sub,
                  closures={
                      "|exprs|": {"id": "E", "params": ["&'x [Expr]"], "ret": "(r: Option<(TokenStream, Option<%s>)>)" % T,
                            "requires": ["exprs@ =~= inner_expr.operands()", "exprs@.len() > 0", "!must_not_hoist(inner_expr.ctor_of())"],
                            "ensures": ["match r { Some(p) => sep_ok_obs(*inner_expr, branch_index, expr_index, (Some(p.0), p.1)), None => !any_block(inner_expr.operands()) }"]},
                      "|(index, expr)|": {"id": "F", "params": ["(usize, &'x Expr)"], "ret": "(r: (Option<(TokenStream, Expr)>, Option<&'x Expr>))",
                            "ensures": ["sep_f_ok(branch_index, expr_index, __Fp0.0, __Fp0.1, r)"]},
                      "|(def_acc, mut replace_acc), (def_with_expr, expr)|": {"id": "G", "params": ["(Option<TokenStream>, Vec<Expr>)", "(Option<(TokenStream, Expr)>, Option<&'x Expr>)"],
                            "ret": "(r: (Option<TokenStream>, Vec<Expr>))",
                            "requires": ["(__Gp1.0 is Some) != (__Gp1.1 is Some)"],
                            "ensures": ["sep_g_ok(__Gp0, __Gp1, r)"]},
                      "|def_acc|": {"id": "A", "params": ["TokenStream"], "ret": "(r: TokenStream)", "ensures": ["r@ == def_acc@ + def@"]},
                      "|def|": {"id": "D", "params": ["TokenStream"], "ret": "(r: (TokenStream, Option<%s>))" % T,
                            "ensures": ["r.0 == def",
                                        "r.1 is Some ==> r.1->0.ctor_of() == inner_expr.ctor_of()",
                                        "(replace_exprs@.len() == inner_expr.operands().len() && replace_exprs@.len() > 0 && !must_not_hoist(inner_expr.ctor_of())) ==> (r.1 is Some && r.1->0.operands() =~= replace_exprs@)"]},
                      "|(def_stream, replaced_expr)|": {"id": "R", "params": ["(TokenStream, Option<%s>)" % T], "ret": "(r: (Option<TokenStream>, Option<%s>))" % T,
                            "ensures": ["r.0 == Some(__Rp0.0)", "r.1 == __Rp0.1"]},
                  },
                  iter_loops={"0": {"invariant": [
                      "__i <= __it.len()", "__it@ == exprs@",
                      "sep_acc_ok(exprs@, branch_index, expr_index, __i as int, __acc)",
                      "forall|a: (usize, &'x Expr)| __f.requires((a,))",
                      "forall|a: (usize, &'x Expr), r: (Option<(TokenStream, Expr)>, Option<&'x Expr>)| __f.ensures((a,), r) ==> sep_f_ok(branch_index, expr_index, a.0, a.1, r)",
                      "forall|a: (Option<TokenStream>, Vec<Expr>), m: (Option<(TokenStream, Expr)>, Option<&'x Expr>)| ((m.0 is Some) != (m.1 is Some)) ==> __g.requires((a, m))",
                      "forall|a: (Option<TokenStream>, Vec<Expr>), m: (Option<(TokenStream, Expr)>, Option<&'x Expr>), r: (Option<TokenStream>, Vec<Expr>)| __g.ensures((a, m), r) ==> sep_g_ok(a, m, r)",
                  ], "body_prologue": "proof { lemma_any_block_upto_step(exprs@, __i as int); }"}})
    for T, f_impl, nm in (("ErrExpr", F_EE, "err_is_replaceable"), ("InitialExpr", F_IE, "initial_is_replaceable")):
        u.append({"kind": "resolved", "trait_file": F_EMOD, "trait_": "InnerExpr", "method": "is_replaceable",
                  "impl_file": f_impl, "self_ty": T, "name": nm, "ret": "r",
                  # C11: `<|`, `<=` and the initial value always take part in hoisting
                  "ensures": ["r"]})
    u.append(fns(F_JO, [
        mono("ProcessExpr", "process", [
            # C11: it does hoist whenever the operator takes expression operands and one of them is a block ...
            "must_hoist(inner_expr.ctor_of(), inner_expr.operands().len() as int) && any_block(inner_expr.operands()) ==> r.0 is Some",
            # ... and never for member access
            "must_not_hoist(inner_expr.ctor_of()) ==> r.0 is None"]),
        mono("ErrExpr", "err", ["any_block(inner_expr.operands()) ==> r.0 is Some"], "err_is_replaceable"),
        mono("InitialExpr", "initial", ["any_block(inner_expr.operands()) ==> r.0 is Some"], "initial_is_replaceable"),
    ], self_ty="JoinOutput"))
    return u


def build_plan(repo, module):
    u = common_units()
    optargs = {}
    if module == "core":
        u += core_units()
    elif module == "optable":
        u.append(raw("lemma", _read("lemma_optable.rs")))
    elif module == "entries":
        u.append(raw("lemma", _read("lemma_entries.rs")))
    elif module == "det":
        u.append(raw("lemma_optable_defs", _read("lemma_optable.rs")))
        u.append(raw("lemma", _read("lemma_det.rs")))
    elif module == "names":
        u.append(raw("lemma", _read("lemma_names.rs")))
    elif module == "sep":
        u += _assume(core_units())
        u += sep_units()
    elif module == "parse":
        u += _assume(core_units())
        u += parse_units()
    elif module == "builder":
        u += _assume(core_units())
        u += builder_units()
    elif module == "gen":
        u += _assume(core_units())
        u += gen_units()
    elif module == "steps":
        u += _assume(core_units())
        u += steps_units()
    elif module == "top":
        u += _assume(core_units())
        u += top_units()
    elif module == "step":
        u += _assume(core_units())
        u += step_units()
    elif module == "guards":
        u += guards_units()
    elif module == "handler":
        u += handler_units()
    else:
        raise KeyError(module)
    u.append(raw("footer", "} // verus!\nfn main() {}\n"))
    if module == "builder":
        optargs = {"new": [0], "set_id": [0]}
    if module in ("gen", "steps", "top", "step"):
        optargs = {"generate_results_transposer": [1], "extract_results_tuple": [2, 3], "generate_def_and_step_streams": [0, 2], "wrap_last_step_stream": [1],
                   "process_step_action_expr": [0]}
    return {"repo": repo, "units": u, "optargs": optargs}


# property -> [(module, Verus function name as in --output-json without the crate prefix)]
OBLIGATIONS = {
    "C01": [("sep", "JoinOutput::separate_block_expr_process"), ("sep", "JoinOutput::separate_block_expr_err"), ("sep", "JoinOutput::separate_block_expr_initial"), ("sep", "lemma_sep_step"),
            ("core", "ProcessExpr::to_tokens"), ("core", "ErrExpr::to_tokens"), ("core", "InitialExpr::to_tokens"),
            ("optable", "lemma_operator_tables"),
            # operator identity survives hoisting a block operand / splicing a wrapper closure
            ("core", "ProcessExpr::replace_inner_exprs"), ("core", "ErrExpr::replace_inner_exprs"),
            ("core", "InitialExpr::replace_inner_exprs"), ("core", "ActionExpr::replace_inner_exprs"),
            ("gen", "JoinOutput::expand_process_expr"), ("gen", "JoinOutput::generate_def_and_step_streams"),
            # an initial value that binds looser than `.method()` is parenthesised (fix 0941b1e)
            ("gen", "is_lower_precedence_than_method_call"), ("core", "ActionExpr::from"),
            # in the async kinds the emitted method names get their documented meaning from the four extension traits the
            # expansion brings into scope (`use futures::{FutureExt, TryFutureExt, StreamExt, TryStreamExt}`)
            ("top", "JoinOutput::to_tokens")],
    "C02": [("builder", "JoinInputDefault::parse_branches"), ("gen", "lemma_split_balance"), ("gen", "lemma_accepted_chain_never_underflows"), ("gen", "lemma_split_members"), ("gen", "lemma_accepted_branch"), ("builder", "lemma_member_ok"), ("gen", "JoinOutput::split_branch_steps"), ("gen", "JoinOutput::generate_step_branch"), ("parse", "ActionGroup::parse_stream"), ("parse", "parse_until_suffix"), ("parse", "lemma_wrapper_frame"), ("builder", "ActionExprChainBuilder::build_from_parse_stream"), ("gen", "JoinOutput::wrap_last_step_stream"), ("gen", "JoinOutput::process_step_action_expr"),
            ("gen", "lemma_step_toks1"), ("core", "Combinator::can_be_wrapper"), ("core", "ActionGroup::to_wrapper_action_expr"),
            ("core", "ProcessExpr::replace_inner_exprs"), ("core", "ErrExpr::replace_inner_exprs"),
            ("core", "InitialExpr::replace_inner_exprs"), ("core", "ActionExpr::replace_inner_exprs"),
            ("core", "ExprGroup::replace_inner_exprs")],
    # the `~` mark (Deferred) reaches the generator unchanged: suffix of parse_until, parse_stream, the wrapper placeholder
    "C03": [("builder", "ActionExprChainBuilder::build_from_parse_stream"), ("builder", "ActionExprChain::append_member"), ("gen", "JoinOutput::wrap_into_block"), ("top", "JoinOutput::new"), ("top", "JoinOutput::new_fields"), ("top", "lemma_new_fields"), ("step", "JoinOutput::generate_step"), ("step", "lemma_apos_step"), ("step", "lemma_apos_ends"), ("gen", "JoinOutput::generate_step_branch"), ("steps", "JoinOutput::generate_steps"), ("gen", "JoinOutput::split_branch_steps"), ("gen", "vec_last_push"), ("parse", "parse_until_suffix"), ("parse", "ActionGroup::parse_stream"), ("core", "ActionGroup::to_wrapper_action_expr"),
            ("core", "ActionGroup::new"), ("core", "ExprGroup::application_type"), ("core", "ExprGroup::new")],
    "C06": [("top", "JoinOutput::new_fields"), ("top", "lemma_new_fields"), ("steps", "JoinOutput::generate_steps"), ("steps", "JoinOutput::join_steps"), ("steps", "lemma_join_comma"), ("steps", "lemma_count_take_step"), ("gen", "JoinOutput::split_branch_steps"), ("parse", "parse_until_suffix"), ("parse", "ActionGroup::parse_stream"), ("core", "ActionGroup::to_wrapper_action_expr"),
            ("core", "ActionGroup::new"), ("core", "ExprGroup::application_type"), ("core", "ExprGroup::new")],
    "C04": [("step", "JoinOutput::generate_step"), ("step", "lemma_apos_step"), ("step", "lemma_apos_ends"), ("gen", "JoinOutput::generate_step_branch"), ("steps", "JoinOutput::join_steps"), ("steps", "lemma_join_comma"), ("steps", "lemma_count_take_step"), ("gen", "JoinOutput::generate_results_transposer"), ("gen", "JoinOutput::active_step_branch_count"), ("gen", "JoinOutput::extract_results_tuple"), ("gen", "lemma_refs_toks"), ("gen", "lemma_filter_tokenizable"),
            ("gen", "JoinOutput::is_branch_active_in_step"), ("gen", "JoinOutput::generate_indexed_step_results_name"),
            ("gen", "JoinOutput::branch_result_name"), ("gen", "JoinOutput::branch_result_pat")],
    "C07": [("top", "JoinOutput::new"), ("top", "JoinOutput::new_fields"), ("guards", "new_init_lazy_branches"), ("top", "join_impl"), ("top", "generate_join"), ("top", "ji_futures_crate_path"), ("gen", "JoinOutput::wrap_into_block"), ("steps", "JoinOutput::generate_thread_builders_and_spawn_joiners"), ("steps", "JoinOutput::generate_step_tail"), ("steps", "lemma_concat_all"), ("entries", "lemma_entry_table"), ("top", "JoinOutput::to_tokens"), ("gen", "JoinOutput::generate_step_branch")],
    "C13": [("handler", "Handler::try_from"), ("handler", "Handler::peek_handler"), ("handler", "Handler::peek_map_handler"), ("handler", "Handler::peek_then_handler"), ("handler", "Handler::peek_and_then_handler"), ("top", "generate_join"), ("top", "ji_handler"), ("top", "JoinOutput::new"), ("top", "JoinOutput::to_tokens"), ("guards", "Handler::is_map"), ("guards", "Handler::is_then"), ("guards", "Handler::is_and_then"), ("guards", "new_guards"), ("gen", "JoinOutput::generate_handle"), ("gen", "JoinOutput::extract_results_tuple"), ("gen", "JoinOutput::generate_results_transposer")],
    "C09": [("gen", "JoinOutput::expand_process_expr"), ("steps", "JoinOutput::generate_step_tail"), ("top", "JoinOutput::to_tokens"), ("step", "JoinOutput::generate_step"), ("step", "lemma_apos_step"), ("step", "lemma_apos_ends"), ("gen", "JoinOutput::generate_step_branch")],
    # the steps of every kind sit in a plain block of the scope the macro is called in (no closure / thread / box of
    # the macro's own between the caller's locals and the branch expressions)
    # + an operand is MOVED into its documented call (no `&operand`, no clone: the emitters print the operand as it stands)
    # + a loose initial value is grouped by PARENTHESES (a place expression stays a place), never moved into a block
    "C19": [("gen", "JoinOutput::generate_def_and_step_streams"), ("steps", "JoinOutput::join_steps"), ("steps", "JoinOutput::generate_step_tail"), ("gen", "JoinOutput::generate_handle"), ("top", "JoinOutput::to_tokens"), ("core", "ProcessExpr::to_tokens"), ("core", "ErrExpr::to_tokens"), ("core", "InitialExpr::to_tokens"),
            ("gen", "JoinOutput::expand_process_expr")],
    "C08": [("gen", "JoinOutput::generate_step_branch"), ("sep", "is_block_expr"), ("steps", "JoinOutput::generate_thread_builders_and_spawn_joiners"), ("steps", "JoinOutput::generate_step_tail"), ("steps", "lemma_concat_all"),
            ("core", "construct_thread_builder_name"), ("core", "construct_thread_builder_fn_name")],
    # a panic in a callback can only surface if the operator really emits the documented (callback-invoking) call
    "C18": [("optable", "lemma_operator_tables"), ("core", "ProcessExpr::to_tokens"), ("core", "ErrExpr::to_tokens"), ("core", "ExprGroup::application_type"), ("core", "ExprGroup::new"), ("core", "ActionGroup::new"), ("gen", "JoinOutput::split_branch_steps"), ("steps", "JoinOutput::generate_steps"), ("steps", "JoinOutput::generate_thread_builders_and_spawn_joiners"), ("steps", "JoinOutput::generate_step_tail")],
    "C05": [("top", "generate_join"), ("top", "JoinOutput::new"), ("steps", "JoinOutput::join_steps"), ("steps", "lemma_join_comma"), ("steps", "lemma_count_take_step"), ("gen", "JoinOutput::generate_results_transposer"), ("parse", "parse_until_suffix"), ("parse", "ActionGroup::parse_stream"),
            ("core", "ActionGroup::to_wrapper_action_expr"), ("core", "ActionGroup::new"), ("core", "ExprGroup::application_type")],
    "C12": [("sep", "JoinOutput::separate_block_expr_process"), ("sep", "JoinOutput::separate_block_expr_err"), ("sep", "JoinOutput::separate_block_expr_initial"), ("sep", "lemma_sep_step"), ("steps", "JoinOutput::join_steps"), ("steps", "lemma_join_comma"), ("steps", "lemma_count_take_step"), ("builder", "ActionExprChainBuilder::build_from_parse_stream"), ("builder", "ActionExprChain::set_id"), ("builder", "ActionExprChain::new"), ("gen", "JoinOutput::branch_result_name"), ("gen", "JoinOutput::branch_result_pat")],
    "C15": [("parse", "parse_until"), ("builder", "JoinInputDefault::parse"), ("builder", "ActionExprChainBuilder::new"), ("parse", "ParseUntil::scan_step"), ("builder", "ActionExprChainBuilder::parse_unit"), ("builder", "JoinInputDefault::parse_branches"), ("top", "generate_join"), ("top", "JoinOutput::new"), ("top", "JoinOutput::new_fields"), ("top", "lemma_new_fields"), ("steps", "JoinOutput::generate_steps"), ("gen", "lemma_split_balance"), ("gen", "lemma_accepted_chain_never_underflows"), ("gen", "lemma_split_members"), ("gen", "lemma_accepted_branch"), ("builder", "lemma_member_ok"), ("builder", "lemma_unwrap_only_from_unwrap"), ("gen", "JoinOutput::split_branch_steps"), ("gen", "JoinOutput::generate_step_branch"), ("parse", "parse_until_suffix"), ("builder", "ActionExprChainBuilder::build_from_parse_stream"), ("builder", "ActionExprChain::append_member"),
            ("builder", "lemma_append_facts"), ("builder", "lemma_balanced_depth"),
            ("gen", "JoinOutput::wrap_last_step_stream"), ("gen", "JoinOutput::process_step_action_expr"),
            ("gen", "JoinOutput::generate_def_and_step_streams"), ("gen", "JoinOutput::expand_process_expr"),
            ("core", "ProcessExpr::to_tokens")],
    "C14": [("parse", "parse_until"), ("parse", "GroupDeterminer::erase_input"), ("parse", "Empty::parse"), ("parse", "is_valid_expr"), ("parse", "GroupDeterminer::check_parsed"), ("parse", "is_valid_stream"), ("parse", "GroupDeterminer::combinator"), ("parse", "ParseUntil::scan_step"), ("parse", "parse_until_suffix"), ("det", "lemma_first_match_is_longest"), ("optable", "lemma_operator_tables")],
    "C16": [("builder", "JoinInputDefault::parse"), ("top", "join_impl"), ("builder", "JoinInputDefault::parse_option_futures_crate_path"), ("builder", "JoinInputDefault::parse_option_custom_joiner"), ("builder", "JoinInputDefault::parse_option_transpose_results"), ("builder", "JoinInputDefault::parse_option_lazy_branches"), ("builder", "JoinInputDefault::parse_branches"), ("top", "generate_join"), ("top", "jo_into_token_stream"), ("top", "ji_futures_crate_path"), ("top", "ji_branches"), ("top", "ji_handler"), ("top", "ji_joiner"), ("top", "ji_transpose_results_option"), ("top", "ji_lazy_branches_option"), ("top", "JoinOutput::new"), ("gen", "JoinOutput::generate_handle"), ("gen", "JoinOutput::generate_step_branch"), ("steps", "JoinOutput::generate_step_tail"), ("guards", "new_init_lazy_branches"), ("guards", "new_init_transpose")],
    "C17": [("sep", "is_block_expr"), ("sep", "JoinOutput::separate_block_expr_process"), ("sep", "JoinOutput::separate_block_expr_err"), ("sep", "JoinOutput::separate_block_expr_initial"), ("sep", "lemma_sep_step")] + [("names", "lemma_names_never_clash"), ("names", "lemma_names_table"), ("names", "lemma_name3_injective"), ("names", "lemma_name1_injective"), ("names", "lemma_distinguishable"), ("names", "lemma_names_strlits"), ("gen", "JoinOutput::generate_def_and_step_streams")] + [("core", n) for n in ['construct_var_name', 'construct_step_results_name', 'construct_result_name', 'construct_thread_builder_name', 'construct_inspect_fn_name', 'construct_spawn_tokio_fn_name', 'construct_results_name', 'construct_handler_name', 'construct_internal_value_name', 'construct_thread_builder_fn_name', 'construct_expr_wrapper_name']],
    "C20": [("core", n) for n in ['construct_var_name', 'construct_step_results_name', 'construct_result_name', 'construct_thread_builder_name', 'construct_inspect_fn_name', 'construct_spawn_tokio_fn_name', 'construct_results_name', 'construct_handler_name', 'construct_internal_value_name', 'construct_thread_builder_fn_name', 'construct_expr_wrapper_name']],
    # every operand (expression or type) is printed exactly once, in its written position
    "C10": [("core", "ProcessExpr::to_tokens"), ("core", "ErrExpr::to_tokens"), ("core", "InitialExpr::to_tokens"), ("builder", "JoinInputDefault::parse_option_futures_crate_path"), ("builder", "JoinInputDefault::parse_option_custom_joiner"), ("builder", "JoinInputDefault::parse_option_transpose_results"), ("builder", "JoinInputDefault::parse_option_lazy_branches"), ("sep", "JoinOutput::separate_block_expr_process"), ("sep", "JoinOutput::separate_block_expr_err"), ("sep", "JoinOutput::separate_block_expr_initial"), ("sep", "is_block_expr"), ("sep", "err_is_replaceable"), ("sep", "initial_is_replaceable"), ("sep", "lemma_sep_step"), ("sep", "lemma_defs_empty"), ("sep", "lemma_any_block_upto_step")] + [("core", "ProcessExpr::is_replaceable"), ("core", "ProcessExpr::replace_inner_exprs"), ("core", "ErrExpr::replace_inner_exprs"),
            ("gen", "JoinOutput::generate_def_and_step_streams"), ("gen", "JoinOutput::wrap_last_step_stream")],
    "C11": [("sep", "JoinOutput::separate_block_expr_process"), ("sep", "JoinOutput::separate_block_expr_err"), ("sep", "JoinOutput::separate_block_expr_initial"), ("sep", "is_block_expr"), ("sep", "err_is_replaceable"), ("sep", "initial_is_replaceable"), ("sep", "lemma_sep_step"), ("sep", "lemma_defs_empty"), ("sep", "lemma_any_block_upto_step")] + [("core", "ProcessExpr::is_replaceable"), ("core", "ProcessExpr::inner_exprs"),
            ("core", "ProcessExpr::replace_inner_exprs"), ("core", "ErrExpr::inner_exprs"),
            ("core", "ErrExpr::replace_inner_exprs"), ("core", "InitialExpr::inner_exprs"),
            ("core", "InitialExpr::replace_inner_exprs"), ("core", "ActionExpr::inner_exprs"),
            ("core", "ExprGroup::inner_exprs"), ("core", "ExprGroup::is_replaceable"),
            ("gen", "JoinOutput::generate_def_and_step_streams")],
}


def reused_contracts():
    """labels of functions that appear with their contract only in some modules but are VERIFIED in another one"""
    out = {}
    for un in core_units():
        if un.get("kind") == "fns":
            for f in un["fns"]:
                lab = f["name"] if not un.get("self_ty") else ("%s::%s" % (un["self_ty"], f["name"]) if not un.get("trait_") else "<%s as %s>::%s" % (un["self_ty"], un["trait_"], f["name"]))
                if f.get("mode") != "assumed":
                    out[lab] = "core"
    out["ActionGroup::parse_stream"] = "parse"
    for suffix in ("process", "err", "initial"):
        out["JoinOutput::separate_block_expr_%s" % suffix] = "sep"
    out["err_is_replaceable"] = "sep"
    for n in ("active_step_branch_count", "is_branch_active_in_step", "generate_indexed_step_results_name", "extract_results_tuple", "generate_results_transposer"):
        out["JoinOutput::%s" % n] = "gen"
    out["initial_is_replaceable"] = "sep"
    for n in ("generate_handle", "branch_result_name", "branch_result_pat", "generate_step_branch", "split_branch_steps", "wrap_into_block",
              "expand_process_expr", "generate_def_and_step_streams", "process_step_action_expr", "wrap_last_step_stream"):
        out["JoinOutput::%s" % n] = "gen"
    for n in ("generate_steps", "generate_step_tail", "join_steps", "generate_thread_builders_and_spawn_joiners"):
        out["JoinOutput::%s" % n] = "steps"
    out["JoinOutput::generate_step"] = "step"
    out["parse_until"] = "parse"
    for n in ("new", "set_id", "members", "append_member", "len"):
        out["<ActionExprChain as Chain>::%s" % n] = "builder"
    return out
