// ======================================================================================
// LEMMAS (pure Verus, over the extracted tables and the documented meaning)
// ======================================================================================

pub open spec fn handler_expr(h: Handler) -> Expr {
    match h { Handler::Map(e) => e, Handler::Then(e) => e, Handler::AndThen(e) => e }
}

pub proof fn lemma_process_toks(e: ProcessExpr, t: Seq<Tok>) { }
pub proof fn lemma_err_toks(e: ErrExpr, t: Seq<Tok>) { }
pub proof fn lemma_initial_toks(e: InitialExpr, t: Seq<Tok>) { }
