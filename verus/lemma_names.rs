// --------------------------------------------------------------------------------------
// L-C17: internal names never clash.  Generic lemmas over format pieces + decidable side
// conditions evaluated on the table extracted from name_constructors.rs.
// --------------------------------------------------------------------------------------

pub open spec fn all_digits(s: Seq<char>) -> bool {
    forall|i: int| 0 <= i < s.len() ==> is_digit(#[trigger] s[i])
}

/// a "rest" after a hole: empty, or starting with a non-digit
pub open spec fn rest_ok(s: Seq<char>) -> bool {
    s.len() == 0 || !is_digit(s[0])
}

pub proof fn lemma_dec_digit_is_digit(d: nat)
    requires d < 10,
    ensures is_digit(dec_digit(d)),
{
}

pub proof fn lemma_dec_props(n: nat)
    ensures dec(n).len() > 0, all_digits(dec(n)),
    decreases n,
{
    if n < 10 {
        lemma_dec_digit_is_digit(n);
        assert(dec(n) =~= seq![dec_digit(n)]);
    } else {
        lemma_dec_props(n / 10);
        lemma_dec_digit_is_digit(n % 10);
        assert forall|i: int| 0 <= i < dec(n).len() implies is_digit(#[trigger] dec(n)[i]) by {
            if i < dec(n / 10).len() {
                assert(dec(n)[i] == dec(n / 10)[i]);
            } else {
                assert(dec(n)[i] == dec_digit(n % 10));
            }
        }
    }
}

pub open spec fn digit_val(c: char) -> nat {
    if c == '0' { 0 } else if c == '1' { 1 } else if c == '2' { 2 } else if c == '3' { 3 } else if c == '4' { 4 }
    else if c == '5' { 5 } else if c == '6' { 6 } else if c == '7' { 7 } else if c == '8' { 8 } else { 9 }
}

pub open spec fn undec(s: Seq<char>) -> nat
    decreases s.len()
{
    if s.len() == 0 { 0 } else { undec(s.drop_last()) * 10 + digit_val(s.last()) }
}

pub proof fn lemma_undec_dec(n: nat)
    ensures undec(dec(n)) == n,
    decreases n,
{
    if n < 10 {
        assert(dec(n) =~= seq![dec_digit(n)]);
        assert(dec(n).drop_last() =~= Seq::<char>::empty());
        assert(undec(dec(n).drop_last()) == 0);
        assert(dec(n).last() == dec_digit(n));
    } else {
        lemma_undec_dec(n / 10);
        assert(dec(n).drop_last() =~= dec(n / 10));
        assert(dec(n).last() == dec_digit(n % 10));
        assert(digit_val(dec_digit(n % 10)) == n % 10);
    }
}

/// canonical decimal is injective
pub proof fn lemma_dec_injective(a: nat, b: nat)
    requires dec(a) == dec(b),
    ensures a == b,
{
    lemma_undec_dec(a);
    lemma_undec_dec(b);
}

/// a digit run followed by a rest that is empty or starts with a non-digit splits uniquely
pub proof fn lemma_split_unique(d1: Seq<char>, r1: Seq<char>, d2: Seq<char>, r2: Seq<char>)
    requires
        all_digits(d1), all_digits(d2), rest_ok(r1), rest_ok(r2),
        d1 + r1 == d2 + r2,
    ensures d1 == d2, r1 == r2,
{
    let s = d1 + r1;
    if d1.len() < d2.len() {
        // position d1.len() is a digit of d2, but it is r1[0] (non-digit) or beyond the end
        let k = d1.len() as int;
        assert((d2 + r2)[k] == d2[k]);
        assert(is_digit(d2[k]));
        if r1.len() == 0 {
            assert(s.len() == d1.len());
            assert((d2 + r2).len() >= d2.len());
            assert(false);
        } else {
            assert(s[k] == r1[0]);
            assert(false);
        }
    } else if d2.len() < d1.len() {
        let k = d2.len() as int;
        assert((d1 + r1)[k] == d1[k]);
        assert(is_digit(d1[k]));
        if r2.len() == 0 {
            assert((d2 + r2).len() == d2.len());
            assert((d1 + r1).len() >= d1.len());
            assert(false);
        } else {
            assert((d2 + r2)[k] == r2[0]);
            assert(false);
        }
    } else {
        assert(d1 =~= s.subrange(0, d1.len() as int));
        assert(d2 =~= (d2 + r2).subrange(0, d2.len() as int));
        assert(r1 =~= s.subrange(d1.len() as int, s.len() as int));
        assert(r2 =~= (d2 + r2).subrange(d2.len() as int, s.len() as int));
    }
}

pub proof fn lemma_prefix_cancel(p: Seq<char>, x: Seq<char>, y: Seq<char>)
    requires p + x == p + y,
    ensures x == y,
{
    assert(x =~= (p + x).subrange(p.len() as int, (p + x).len() as int));
    assert(y =~= (p + y).subrange(p.len() as int, (p + y).len() as int));
}

/// name with one hole
pub open spec fn name1(p0: Seq<char>, a: nat, p1: Seq<char>) -> Seq<char> { p0 + dec(a) + p1 }
/// name with three holes
pub open spec fn name3(p0: Seq<char>, a: nat, p1: Seq<char>, b: nat, p2: Seq<char>, c: nat, p3: Seq<char>) -> Seq<char> {
    p0 + dec(a) + p1 + dec(b) + p2 + dec(c) + p3
}

pub proof fn lemma_name1_injective(p0: Seq<char>, p1: Seq<char>, a: nat, b: nat)
    requires rest_ok(p1), name1(p0, a, p1) == name1(p0, b, p1),
    ensures a == b,
{
    lemma_dec_props(a);
    lemma_dec_props(b);
    assert(p0 + dec(a) + p1 =~= p0 + (dec(a) + p1));
    assert(p0 + dec(b) + p1 =~= p0 + (dec(b) + p1));
    lemma_prefix_cancel(p0, dec(a) + p1, dec(b) + p1);
    lemma_split_unique(dec(a), p1, dec(b), p1);
    lemma_dec_injective(a, b);
}

/// right-nested form of a three-hole name (pure associativity)
pub proof fn lemma_name3_assoc(p0: Seq<char>, a: nat, p1: Seq<char>, b: nat, p2: Seq<char>, c: nat, p3: Seq<char>)
    ensures name3(p0, a, p1, b, p2, c, p3) == p0 + (dec(a) + (p1 + (dec(b) + (p2 + (dec(c) + p3))))),
{
    assert(name3(p0, a, p1, b, p2, c, p3) =~= p0 + (dec(a) + (p1 + (dec(b) + (p2 + (dec(c) + p3))))));
}

/// one hole followed by a separator that is non-empty and starts with a non-digit
pub proof fn lemma_hole_step(a: nat, a2: nat, p: Seq<char>, r1: Seq<char>, r2: Seq<char>)
    requires
        p.len() > 0, !is_digit(p[0]),
        dec(a) + (p + r1) == dec(a2) + (p + r2),
    ensures a == a2, r1 == r2,
{
    lemma_dec_props(a);
    lemma_dec_props(a2);
    assert((p + r1)[0] == p[0]);
    assert((p + r2)[0] == p[0]);
    lemma_split_unique(dec(a), p + r1, dec(a2), p + r2);
    lemma_dec_injective(a, a2);
    lemma_prefix_cancel(p, r1, r2);
}

/// L-C17a (the historical clash is exactly a format string violating the side condition on p1/p2)
pub proof fn lemma_name3_injective(p0: Seq<char>, p1: Seq<char>, p2: Seq<char>, p3: Seq<char>, a: nat, b: nat, c: nat, a2: nat, b2: nat, c2: nat)
    requires
        p1.len() > 0, !is_digit(p1[0]), p2.len() > 0, !is_digit(p2[0]), rest_ok(p3),
        name3(p0, a, p1, b, p2, c, p3) == name3(p0, a2, p1, b2, p2, c2, p3),
    ensures a == a2, b == b2, c == c2,
{
    lemma_name3_assoc(p0, a, p1, b, p2, c, p3);
    lemma_name3_assoc(p0, a2, p1, b2, p2, c2, p3);
    let t1 = dec(b) + (p2 + (dec(c) + p3));
    let u1 = dec(b2) + (p2 + (dec(c2) + p3));
    lemma_prefix_cancel(p0, dec(a) + (p1 + t1), dec(a2) + (p1 + u1));
    lemma_hole_step(a, a2, p1, t1, u1);
    lemma_hole_step(b, b2, p2, dec(c) + p3, dec(c2) + p3);
    lemma_dec_props(c);
    lemma_dec_props(c2);
    lemma_split_unique(dec(c), p3, dec(c2), p3);
    lemma_dec_injective(c, c2);
}

// ---------------------------------------------------------------- side conditions on the extracted table

pub open spec fn holes(f: NameFamily) -> int { f.pieces.len() - 1 }

pub open spec fn family_ok(f: NameFamily) -> bool {
    if f.pieces.len() == 1 { true }
    else if f.pieces.len() == 2 { rest_ok(f.pieces[1]) }
    else if f.pieces.len() == 4 {
        f.pieces[1].len() > 0 && !is_digit(f.pieces[1][0]) && f.pieces[2].len() > 0 && !is_digit(f.pieces[2][0]) && rest_ok(f.pieces[3])
    } else { false }
}

pub open spec fn families_ok(t: Seq<NameFamily>, i: int) -> bool
    decreases t.len() - i
{
    if i < 0 || i >= t.len() { true } else { family_ok(t[i]) && families_ok(t, i + 1) }
}

/// first position at which two prefixes differ, or -1 if one is a prefix of the other
pub open spec fn first_diff(a: Seq<char>, b: Seq<char>, k: int) -> int
    decreases a.len() - k
{
    if k < 0 || k >= a.len() || k >= b.len() { -1 } else if a[k] != b[k] { k } else { first_diff(a, b, k + 1) }
}

/// two families can never produce the same name, whatever the indices (see DESIGN.md C17, L-C17b)
pub open spec fn distinguishable(f: NameFamily, g: NameFamily) -> bool {
    let pf = f.pieces[0];
    let pg = g.pieces[0];
    let hf = holes(f) > 0;
    let hg = holes(g) > 0;
    if first_diff(pf, pg, 0) >= 0 { true }
    else if pf.len() < pg.len() { !hf || !is_digit(pg[pf.len() as int]) }
    else if pg.len() < pf.len() { !hg || !is_digit(pf[pg.len() as int]) }
    else { hf != hg }
}

pub open spec fn row_distinct(t: Seq<NameFamily>, i: int, j: int) -> bool
    decreases t.len() - j
{
    if j < 0 || j >= t.len() { true } else { (i == j || distinguishable(t[i], t[j])) && row_distinct(t, i, j + 1) }
}

pub open spec fn all_distinct(t: Seq<NameFamily>, i: int) -> bool
    decreases t.len() - i
{
    if i < 0 || i >= t.len() { true } else { row_distinct(t, i, 0) && all_distinct(t, i + 1) }
}

pub open spec fn names_table_ok() -> bool {
    families_ok(names_families(), 0) && all_distinct(names_families(), 0)
}

/// the side conditions hold for the table as it stands in the source (finite, by evaluation)
pub proof fn lemma_names_table()
    ensures names_table_ok(),
{
    assert(names_table_ok()) by (compute_only);
}

pub proof fn lemma_first_diff(a: Seq<char>, b: Seq<char>, k: int)
    requires 0 <= k,
    ensures ({
        let d = first_diff(a, b, k);
        if d >= 0 { k <= d < a.len() && d < b.len() && a[d] != b[d] }
        else { forall|i: int| k <= i < a.len() && i < b.len() ==> a[i] == b[i] }
    }),
    decreases a.len() - k,
{
    if k < a.len() && k < b.len() && a[k] == b[k] {
        lemma_first_diff(a, b, k + 1);
    }
}

/// tail after the first piece: empty when the family has no hole, else it starts with a digit
pub open spec fn tail_ok(t: Seq<char>, has_holes: bool) -> bool {
    if has_holes { t.len() > 0 && is_digit(t[0]) } else { t.len() == 0 }
}

/// L-C17b: names of distinguishable families differ for all indices
pub proof fn lemma_distinguishable(f: NameFamily, g: NameFamily, tf: Seq<char>, tg: Seq<char>)
    requires
        f.pieces.len() >= 1, g.pieces.len() >= 1,
        distinguishable(f, g), tail_ok(tf, holes(f) > 0), tail_ok(tg, holes(g) > 0),
    ensures f.pieces[0] + tf != g.pieces[0] + tg,
{
    let pf = f.pieces[0];
    let pg = g.pieces[0];
    let x = pf + tf;
    let y = pg + tg;
    lemma_first_diff(pf, pg, 0);
    let d = first_diff(pf, pg, 0);
    if d >= 0 {
        assert(x[d] == pf[d]);
        assert(y[d] == pg[d]);
    } else if pf.len() < pg.len() {
        let k = pf.len() as int;
        assert(y[k] == pg[k]);
        if holes(f) > 0 {
            assert(x[k] == tf[0]);
        } else {
            assert(x.len() == pf.len());
            assert(y.len() >= pg.len());
        }
    } else if pg.len() < pf.len() {
        let k = pg.len() as int;
        assert(x[k] == pf[k]);
        if holes(g) > 0 {
            assert(y[k] == tg[0]);
        } else {
            assert(y.len() == pg.len());
            assert(x.len() >= pf.len());
        }
    } else {
        // equal first pieces: exactly one of them has holes, so the lengths differ
        if holes(f) > 0 {
            assert(x.len() > pf.len());
            assert(y.len() == pg.len());
        } else {
            assert(y.len() > pg.len());
            assert(x.len() == pf.len());
        }
    }
}

pub proof fn lemma_all_distinct_at(t: Seq<NameFamily>, i: int, j: int)
    requires all_distinct(t, 0), 0 <= i < t.len(), 0 <= j < t.len(), i != j,
    ensures distinguishable(t[i], t[j]),
{
    lemma_all_distinct_row(t, 0, i);
    lemma_row_at(t, i, 0, j);
}
pub proof fn lemma_all_distinct_row(t: Seq<NameFamily>, k: int, i: int)
    requires all_distinct(t, k), 0 <= k <= i < t.len(),
    ensures row_distinct(t, i, 0),
    decreases i - k,
{
    if k < i { lemma_all_distinct_row(t, k + 1, i); }
}
pub proof fn lemma_row_at(t: Seq<NameFamily>, i: int, k: int, j: int)
    requires row_distinct(t, i, k), 0 <= k <= j < t.len(), i != j,
    ensures distinguishable(t[i], t[j]),
    decreases j - k,
{
    if k < j { lemma_row_at(t, i, k + 1, j); }
}
pub proof fn lemma_families_ok_at(t: Seq<NameFamily>, k: int, i: int)
    requires families_ok(t, k), 0 <= k <= i < t.len(),
    ensures family_ok(t[i]),
    decreases i - k,
{
    if k < i { lemma_families_ok_at(t, k + 1, i); }
}

/// the name a family produces for given indices (families with 0, 1 or 3 holes)
pub open spec fn family_name(f: NameFamily, a: nat, b: nat, c: nat) -> Seq<char> {
    if f.pieces.len() == 1 { f.pieces[0] }
    else if f.pieces.len() == 2 { name1(f.pieces[0], a, f.pieces[1]) }
    else { name3(f.pieces[0], a, f.pieces[1], b, f.pieces[2], c, f.pieces[3]) }
}

/// C17, unbounded in the indices: two names built by the name constructors are equal only if they come
/// from the same family with the same index tuple
pub proof fn lemma_names_never_clash(i: int, j: int, a: nat, b: nat, c: nat, a2: nat, b2: nat, c2: nat)
    requires
        0 <= i < names_families().len(), 0 <= j < names_families().len(),
        family_name(names_families()[i], a, b, c) == family_name(names_families()[j], a2, b2, c2),
    ensures
        i == j,
        holes(names_families()[i]) >= 1 ==> a == a2,
        holes(names_families()[i]) >= 3 ==> b == b2 && c == c2,
{
    lemma_names_table();
    let t = names_families();
    let f = t[i];
    let g = t[j];
    lemma_families_ok_at(t, 0, i);
    lemma_families_ok_at(t, 0, j);
    lemma_dec_props(a); lemma_dec_props(a2);
    if i != j {
        lemma_all_distinct_at(t, i, j);
        let tf = if f.pieces.len() == 1 { Seq::<char>::empty() } else if f.pieces.len() == 2 { dec(a) + f.pieces[1] } else { dec(a) + f.pieces[1] + dec(b) + f.pieces[2] + dec(c) + f.pieces[3] };
        let tg = if g.pieces.len() == 1 { Seq::<char>::empty() } else if g.pieces.len() == 2 { dec(a2) + g.pieces[1] } else { dec(a2) + g.pieces[1] + dec(b2) + g.pieces[2] + dec(c2) + g.pieces[3] };
        assert(family_name(f, a, b, c) =~= f.pieces[0] + tf);
        assert(family_name(g, a2, b2, c2) =~= g.pieces[0] + tg);
        if f.pieces.len() > 1 { assert(tf[0] == dec(a)[0]); }
        if g.pieces.len() > 1 { assert(tg[0] == dec(a2)[0]); }
        lemma_distinguishable(f, g, tf, tg);
        assert(false);
    } else {
        if f.pieces.len() == 2 {
            lemma_name1_injective(f.pieces[0], f.pieces[1], a, a2);
        } else if f.pieces.len() == 4 {
            lemma_name3_injective(f.pieces[0], f.pieces[1], f.pieces[2], f.pieces[3], a, b, c, a2, b2, c2);
        }
    }
}
