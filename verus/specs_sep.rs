// ======================================================================================
// separate_block_expr, verified (R13 desugaring of its iterator chain): observational contract
// ======================================================================================

pub open spec fn any_block_upto(ops: Seq<Expr>, n: int) -> bool {
    exists|k: int| 0 <= k < n && k < ops.len() && (#[trigger] ops[k]) is Block
}

/// what F (the `map` closure) returns for operand `index`
pub open spec fn sep_f_ok(b: usize, i: usize, index: usize, expr: &Expr, r: (Option<(TokenStream, Expr)>, Option<&Expr>)) -> bool {
    if *expr is Block {
        &&& r.0 is Some && r.1 is None
        &&& (r.0->0).0@ =~= def_toks(b, i, index, expr.toks())
        &&& (r.0->0).1.toks() =~= wrapper_name_toks(b, i, index)
        &&& !((r.0->0).1 is Block)
    } else {
        r.0 is None && r.1 == Some(expr)
    }
}

/// accumulator of the fold after the first n operands
pub open spec fn sep_acc_ok(ops: Seq<Expr>, b: usize, i: usize, n: int, acc: (Option<TokenStream>, Vec<Expr>)) -> bool {
    &&& acc.1@.len() == n
    &&& forall|k: int| 0 <= k < n ==> (#[trigger] acc.1@[k]).toks() == replaced_toks(ops, b, i, k) && !(acc.1@[k] is Block)
    &&& opt_view(acc.0) == if any_block_upto(ops, n) { Some(defs_toks(ops, b, i, n)) } else { None::<Seq<Tok>> }
}

/// what G (the `fold` closure) does with one mapped operand
pub open spec fn sep_g_ok(a: (Option<TokenStream>, Vec<Expr>), m: (Option<(TokenStream, Expr)>, Option<&Expr>), r: (Option<TokenStream>, Vec<Expr>)) -> bool {
    if m.0 is Some {
        r.1@ == a.1@.push((m.0->0).1) && opt_view(r.0) == Some(opt_toks(a.0) + (m.0->0).0@)
    } else {
        r.1@ == a.1@.push(*m.1->0) && opt_view(r.0) == opt_view(a.0)
    }
}

pub proof fn lemma_any_block_upto_step(ops: Seq<Expr>, n: int)
    requires 0 <= n < ops.len(),
    ensures any_block_upto(ops, n + 1) == (any_block_upto(ops, n) || ops[n] is Block),
{
    if any_block_upto(ops, n + 1) {
        let k = choose|k: int| 0 <= k < n + 1 && k < ops.len() && (#[trigger] ops[k]) is Block;
        if k < n { assert(any_block_upto(ops, n)); }
    }
    if any_block_upto(ops, n) {
        let k = choose|k: int| 0 <= k < n && k < ops.len() && (#[trigger] ops[k]) is Block;
        assert(ops[k] is Block && k < n + 1);
    }
    if ops[n] is Block { assert(0 <= n < n + 1 && ops[n] is Block); }
}

pub proof fn lemma_any_block_all(ops: Seq<Expr>)
    ensures any_block_upto(ops, ops.len() as int) == any_block(ops),
{
    if any_block(ops) {
        let k = choose|k: int| 0 <= k < ops.len() && (#[trigger] ops[k]) is Block;
        assert(0 <= k < ops.len() && k < ops.len() && ops[k] is Block);
    }
    if any_block_upto(ops, ops.len() as int) {
        let k = choose|k: int| 0 <= k < ops.len() && k < ops.len() && (#[trigger] ops[k]) is Block;
        assert(0 <= k < ops.len() && ops[k] is Block);
    }
}

pub proof fn lemma_defs_empty(ops: Seq<Expr>, b: usize, i: usize, n: int)
    requires 0 <= n <= ops.len(), !any_block_upto(ops, n),
    ensures defs_toks(ops, b, i, n) =~= Seq::<Tok>::empty(),
    decreases n,
{
    if n > 0 {
        lemma_any_block_upto_step(ops, n - 1);
        lemma_defs_empty(ops, b, i, n - 1);
    }
}

/// one iteration of the (desugared) enumerate/map/fold chain keeps the accumulator invariant
pub broadcast proof fn lemma_sep_step(ops: Seq<Expr>, b: usize, i: usize, n: int, acc: (Option<TokenStream>, Vec<Expr>),
                                      m: (Option<(TokenStream, Expr)>, Option<&Expr>), acc2: (Option<TokenStream>, Vec<Expr>))
    requires
        0 <= n < ops.len(), n <= usize::MAX,
        #[trigger] sep_acc_ok(ops, b, i, n, acc),
        sep_f_ok(b, i, n as usize, &ops[n], m),
        #[trigger] sep_g_ok(acc, m, acc2),
    ensures sep_acc_ok(ops, b, i, n + 1, acc2),
{
    lemma_any_block_upto_step(ops, n);
    if !any_block_upto(ops, n) { lemma_defs_empty(ops, b, i, n); }
    assert(acc2.1@.len() == n + 1);
    assert forall|k: int| 0 <= k < n + 1 implies (#[trigger] acc2.1@[k]).toks() == replaced_toks(ops, b, i, k) && !(acc2.1@[k] is Block) by {
        if k < n { assert(acc2.1@[k] == acc.1@[k]); }
    }
    if ops[n] is Block {
        assert(opt_toks(acc.0) + (m.0->0).0@ =~= defs_toks(ops, b, i, n + 1));
    } else {
        assert(defs_toks(ops, b, i, n + 1) =~= defs_toks(ops, b, i, n));
    }
}
