// ======================================================================================
// Handler::try_from / peek_*: which keyword yields which handler (C13).  syn header for the peeks.
// Model note: `peek` / `peek2` are pure functions of the stream reference here.  That is right within ONE call of
// `try_from` / `peek_handler`: on every path all peeks precede the first consuming call.
// ======================================================================================

/// `syn::custom_keyword!(map / then / and_then)`: a unit struct usable as a type (`parse::<keywords::map>()`) and as a
/// value (`peek(keywords::map)`)
pub mod keywords {
    #[allow(non_camel_case_types)] pub struct map;
    #[allow(non_camel_case_types)] pub struct then;
    #[allow(non_camel_case_types)] pub struct and_then;
}
/// marker for `Token![=>]` (R11)
pub struct TokFatArrow;
impl Kw for keywords::map { open spec fn id() -> int { 1 } }
impl Kw for keywords::then { open spec fn id() -> int { 2 } }
impl Kw for keywords::and_then { open spec fn id() -> int { 3 } }
impl Kw for TokFatArrow { open spec fn id() -> int { 4 } }
impl Parse for keywords::map {}
impl Parse for keywords::then {}
impl Parse for keywords::and_then {}
impl Parse for TokFatArrow {}

/// C13: the handler keyword standing in the input, if any (`kw =>`)
pub open spec fn peeked_handler(input: &ParseBuffer) -> HKind {
    if !input.peeks2(4) { HKind::NoHandler }
    else if input.peeks(1) { HKind::Map }
    else if input.peeks(2) { HKind::Then }
    else if input.peeks(3) { HKind::AndThen }
    else { HKind::NoHandler }
}
