// ======================================================================================
// BRIDGE between the extracted data types and the documented meaning (hand-written specs).
// The real emitters are verified against `toks()` (defined through `meaning_of_ctor` and
// `meaning_toks`), the real tables against `doc_ops()`.
// ======================================================================================

/// which documented meaning a constructor of the expression enums stands for
pub open spec fn meaning_of_ctor(c: Ctor) -> DocMeaning {
    match c {
        Ctor::ProcessExpr(p) => match p {
            ProcessExprCtor::Map => DocMeaning::Method1(Meth::Map),
            ProcessExprCtor::Then => DocMeaning::CallWithValue,
            ProcessExprCtor::AndThen => DocMeaning::Method1(Meth::AndThen),
            ProcessExprCtor::Filter => DocMeaning::Method1(Meth::Filter),
            ProcessExprCtor::FindMap => DocMeaning::Method1(Meth::FindMap),
            ProcessExprCtor::Flatten => DocMeaning::Method0(Meth::Flatten),
            ProcessExprCtor::Inspect => DocMeaning::Inspect,
            ProcessExprCtor::Dot => DocMeaning::Member,
            ProcessExprCtor::Chain => DocMeaning::Method1(Meth::Chain),
            ProcessExprCtor::Collect => DocMeaning::MethodTy1(Meth::Collect),
            ProcessExprCtor::Enumerate => DocMeaning::Method0(Meth::Enumerate),
            ProcessExprCtor::FilterMap => DocMeaning::Method1(Meth::FilterMap),
            ProcessExprCtor::Find => DocMeaning::Method1(Meth::Find),
            ProcessExprCtor::Fold => DocMeaning::Method2(Meth::Fold),
            ProcessExprCtor::Partition => DocMeaning::Method1(Meth::Partition),
            ProcessExprCtor::TryFold => DocMeaning::Method2(Meth::TryFold),
            ProcessExprCtor::Unzip => DocMeaning::MethodTy4(Meth::Unzip),
            ProcessExprCtor::Zip => DocMeaning::Method1(Meth::Zip),
            ProcessExprCtor::UNWRAP => DocMeaning::CloseWrapper,
        },
        Ctor::ErrExpr(e) => match e {
            ErrExprCtor::Or => DocMeaning::Method1(Meth::Or),
            ErrExprCtor::OrElse => DocMeaning::Method1(Meth::OrElse),
            ErrExprCtor::MapErr => DocMeaning::Method1(Meth::MapErr),
        },
        Ctor::InitialExpr(i) => match i {
            InitialExprCtor::Single => DocMeaning::Initial,
        },
    }
}

/// expression operands of a ProcessExpr, in source order (payload of the variant)
pub open spec fn process_operands(e: ProcessExpr) -> Seq<Expr> {
    match e {
        ProcessExpr::Map(a) => a@,
        ProcessExpr::Then(a) => a@,
        ProcessExpr::AndThen(a) => a@,
        ProcessExpr::Filter(a) => a@,
        ProcessExpr::FindMap(a) => a@,
        ProcessExpr::Inspect(a) => a@,
        ProcessExpr::Dot(a) => a@,
        ProcessExpr::Chain(a) => a@,
        ProcessExpr::FilterMap(a) => a@,
        ProcessExpr::Find(a) => a@,
        ProcessExpr::Fold(a) => a@,
        ProcessExpr::Partition(a) => a@,
        ProcessExpr::TryFold(a) => a@,
        ProcessExpr::Zip(a) => a@,
        ProcessExpr::Flatten => Seq::<Expr>::empty(),
        ProcessExpr::Enumerate => Seq::<Expr>::empty(),
        ProcessExpr::Collect(_) => Seq::<Expr>::empty(),
        ProcessExpr::Unzip(_) => Seq::<Expr>::empty(),
        ProcessExpr::UNWRAP => Seq::<Expr>::empty(),
    }
}

/// type operands of a ProcessExpr (`=>[] T`, `<-> A, B, C, D`)
pub open spec fn process_types(e: ProcessExpr) -> Option<Seq<Type>> {
    match e {
        ProcessExpr::Collect(Some(t)) => Some(t@),
        ProcessExpr::Unzip(Some(t)) => Some(t@),
        _ => None,
    }
}

pub open spec fn err_operands(e: ErrExpr) -> Seq<Expr> {
    match e {
        ErrExpr::Or(a) => a@,
        ErrExpr::OrElse(a) => a@,
        ErrExpr::MapErr(a) => a@,
    }
}

pub open spec fn initial_operands(e: InitialExpr) -> Seq<Expr> {
    match e {
        InitialExpr::Single(a) => a@,
    }
}

pub open spec fn action_operands(e: ActionExpr) -> Seq<Expr> {
    match e {
        ActionExpr::Process(p) => process_operands(p),
        ActionExpr::Err(p) => err_operands(p),
        ActionExpr::Initial(p) => initial_operands(p),
    }
}

pub open spec fn action_ctor(e: ActionExpr) -> Ctor {
    match e {
        ActionExpr::Process(p) => Ctor::ProcessExpr(p.ctor()),
        ActionExpr::Err(p) => Ctor::ErrExpr(p.ctor()),
        ActionExpr::Initial(p) => Ctor::InitialExpr(p.ctor()),
    }
}

/// C11: "An operand ... written as a `{..}` block is evaluated exactly once ... before any
/// branch expression of the step" for every operator that takes *expression* operands;
/// a member access (`..`, `>.`) is not an expression and must never be hoisted.
pub open spec fn must_hoist(c: Ctor, n_operands: int) -> bool {
    n_operands > 0 && meaning_of_ctor(c) != DocMeaning::Member
}
pub open spec fn must_not_hoist(c: Ctor) -> bool {
    meaning_of_ctor(c) == DocMeaning::Member
}

/// what `replace_inner_exprs(es)` has to produce (C02/C11: same operator, the supplied operands)
pub open spec fn replaced_ok(old_ctor: Ctor, old_n: int, es: Seq<Expr>, new_ctor: Ctor, new_ops: Seq<Expr>) -> bool {
    new_ctor == old_ctor && new_ops =~= es && old_n == es.len()
}
