// ======================================================================================
// LEMMAS (pure Verus, over the extracted tables and the documented meaning)
// ======================================================================================

pub open spec fn handler_expr(h: Handler) -> Expr {
    match h { Handler::Map(e) => e, Handler::Then(e) => e, Handler::AndThen(e) => e }
}


