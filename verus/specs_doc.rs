// ======================================================================================
// DOCUMENTED MEANING (oracle).  Transcribed from the statements of properties C01, C02,
// C07, C11, C13, C16 in properties.jsonl -- not from the code.
// ======================================================================================

pub enum Meth {
    Map, AndThen, Filter, Or, OrElse, MapErr, Collect, Chain, FindMap, FilterMap, Enumerate,
    Partition, Flatten, Fold, TryFold, Find, Zip, Unzip,
}

pub open spec fn method_name(m: Meth) -> Seq<char> {
    match m {
        Meth::Map => "map"@, Meth::AndThen => "and_then"@, Meth::Filter => "filter"@,
        Meth::Or => "or"@, Meth::OrElse => "or_else"@, Meth::MapErr => "map_err"@,
        Meth::Collect => "collect"@, Meth::Chain => "chain"@, Meth::FindMap => "find_map"@,
        Meth::FilterMap => "filter_map"@, Meth::Enumerate => "enumerate"@,
        Meth::Partition => "partition"@, Meth::Flatten => "flatten"@, Meth::Fold => "fold"@,
        Meth::TryFold => "try_fold"@, Meth::Find => "find"@, Meth::Zip => "zip"@,
        Meth::Unzip => "unzip"@,
    }
}

pub enum DocMeaning {
    /// `.m(operand)`
    Method1(Meth),
    /// `.m(operand0, operand1)`
    Method2(Meth),
    /// `.m()`
    Method0(Meth),
    /// `.m::<T>()`, or `.m()` when the type is omitted
    MethodTy1(Meth),
    /// `.m::<A, B, C, D>()`, or `.m()` when the types are omitted
    MethodTy4(Meth),
    /// `.operand`
    Member,
    /// `operand(value)`
    CallWithValue,
    /// value passed through unchanged, callback sees it by reference
    Inspect,
    /// `<<<`
    CloseWrapper,
    /// the value the chain starts from
    Initial,
}

pub struct DocRow { pub spelling: Seq<char>, pub meaning: DocMeaning }

/// C01: "`|>` map, `=>` and_then, `?>` filter, `..`/`>.` member access, `->` call-with-value,
/// `<|` or, `<=` or_else, `!>` map_err, `=>[] T` collect, `>@>` chain, `?|>@` find_map,
/// `?|>` filter_map, `|n>` enumerate, `?&!>` partition, `^^>` flatten, `^@` fold,
/// `?^@` try_fold, `?@` find, `>^>` zip, `<->` unzip, `??` inspect"; C02: `<<<`.
pub open spec fn doc_ops() -> Seq<DocRow> {
    seq![
        DocRow { spelling: seq!['|', '>'], meaning: DocMeaning::Method1(Meth::Map) },
        DocRow { spelling: seq!['=', '>'], meaning: DocMeaning::Method1(Meth::AndThen) },
        DocRow { spelling: seq!['?', '>'], meaning: DocMeaning::Method1(Meth::Filter) },
        DocRow { spelling: seq!['.', '.'], meaning: DocMeaning::Member },
        DocRow { spelling: seq!['>', '.'], meaning: DocMeaning::Member },
        DocRow { spelling: seq!['-', '>'], meaning: DocMeaning::CallWithValue },
        DocRow { spelling: seq!['<', '|'], meaning: DocMeaning::Method1(Meth::Or) },
        DocRow { spelling: seq!['<', '='], meaning: DocMeaning::Method1(Meth::OrElse) },
        DocRow { spelling: seq!['!', '>'], meaning: DocMeaning::Method1(Meth::MapErr) },
        DocRow { spelling: seq!['=', '>', '[', ']'], meaning: DocMeaning::MethodTy1(Meth::Collect) },
        DocRow { spelling: seq!['>', '@', '>'], meaning: DocMeaning::Method1(Meth::Chain) },
        DocRow { spelling: seq!['?', '|', '>', '@'], meaning: DocMeaning::Method1(Meth::FindMap) },
        DocRow { spelling: seq!['?', '|', '>'], meaning: DocMeaning::Method1(Meth::FilterMap) },
        DocRow { spelling: seq!['|', 'n', '>'], meaning: DocMeaning::Method0(Meth::Enumerate) },
        DocRow { spelling: seq!['?', '&', '!', '>'], meaning: DocMeaning::Method1(Meth::Partition) },
        DocRow { spelling: seq!['^', '^', '>'], meaning: DocMeaning::Method0(Meth::Flatten) },
        DocRow { spelling: seq!['^', '@'], meaning: DocMeaning::Method2(Meth::Fold) },
        DocRow { spelling: seq!['?', '^', '@'], meaning: DocMeaning::Method2(Meth::TryFold) },
        DocRow { spelling: seq!['?', '@'], meaning: DocMeaning::Method1(Meth::Find) },
        DocRow { spelling: seq!['>', '^', '>'], meaning: DocMeaning::Method1(Meth::Zip) },
        DocRow { spelling: seq!['<', '-', '>'], meaning: DocMeaning::MethodTy4(Meth::Unzip) },
        DocRow { spelling: seq!['?', '?'], meaning: DocMeaning::Inspect },
        DocRow { spelling: seq!['<', '<', '<'], meaning: DocMeaning::CloseWrapper },
    ]
}

/// number of operands and whether they may be omitted, per documented meaning
pub open spec fn doc_arity(m: DocMeaning) -> (int, bool) {
    match m {
        DocMeaning::Method1(_) => (1, false),
        DocMeaning::Method2(_) => (2, false),
        DocMeaning::Method0(_) => (0, true),
        DocMeaning::MethodTy1(_) => (1, true),
        DocMeaning::MethodTy4(_) => (4, true),
        DocMeaning::Member => (1, false),
        DocMeaning::CallWithValue => (1, false),
        DocMeaning::Inspect => (1, false),
        DocMeaning::CloseWrapper => (0, true),
        DocMeaning::Initial => (1, false),
    }
}

// ---------------------------------------------------------------- documented token shapes

pub open spec fn call_toks(m: Seq<char>, args: Seq<Tok>) -> Seq<Tok> {
    seq![Tok::Punct('.'), Tok::Ident(m)] + group(Delim::Paren, args)
}

pub open spec fn turbofish_call_toks(m: Seq<char>, tys: Seq<Tok>) -> Seq<Tok> {
    seq![Tok::Punct('.'), Tok::Ident(m), Tok::Punct(':'), Tok::Punct(':'), Tok::Punct('<')]
        + tys + seq![Tok::Punct('>')] + group(Delim::Paren, Seq::<Tok>::empty())
}

pub open spec fn comma() -> Seq<Tok> { seq![Tok::Punct(',')] }

/// tokens of the documented method call for meaning `m` applied to the given operands / types
pub open spec fn meaning_toks(m: DocMeaning, ops: Seq<Expr>, tys: Option<Seq<Type>>) -> Seq<Tok> {
    match m {
        DocMeaning::Method1(x) => call_toks(method_name(x), ops[0].toks()),
        DocMeaning::Method2(x) => call_toks(method_name(x), ops[0].toks() + comma() + ops[1].toks()),
        DocMeaning::Method0(x) => call_toks(method_name(x), Seq::<Tok>::empty()),
        DocMeaning::MethodTy1(x) => match tys {
            Some(t) => turbofish_call_toks(method_name(x), t[0].toks()),
            None => call_toks(method_name(x), Seq::<Tok>::empty()),
        },
        DocMeaning::MethodTy4(x) => match tys {
            Some(t) => turbofish_call_toks(method_name(x),
                t[0].toks() + comma() + t[1].toks() + comma() + t[2].toks() + comma() + t[3].toks()),
            None => call_toks(method_name(x), Seq::<Tok>::empty()),
        },
        DocMeaning::Member => seq![Tok::Punct('.')] + ops[0].toks(),
        DocMeaning::Initial => ops[0].toks(),
        // these three are not printed by `to_tokens` (see expand_process_expr / the wrapper stack)
        DocMeaning::CallWithValue => Seq::<Tok>::empty(),
        DocMeaning::Inspect => Seq::<Tok>::empty(),
        DocMeaning::CloseWrapper => Seq::<Tok>::empty(),
    }
}

/// `{ let <tmp> = <callee>; <tmp> }` -- a block whose value is the callee
pub open spec fn callee_block(tmp: Seq<char>, callee: Seq<Tok>) -> Seq<Tok> {
    group(Delim::Brace,
        seq![Tok::Ident("let"@), Tok::Ident(tmp), Tok::Punct('=')] + callee
            + seq![Tok::Punct(';'), Tok::Ident(tmp)])
}

/// `( <callee-block> ( <value> ) )`  -- call-with-value
pub open spec fn call_with_value_toks(callee_blk: Seq<Tok>, value: Seq<Tok>) -> Seq<Tok> {
    group(Delim::Paren, callee_blk + group(Delim::Paren, value))
}

/// `|<v>| <body>`
pub open spec fn closure_toks(v: Seq<char>, body: Seq<Tok>) -> Seq<Tok> {
    seq![Tok::Punct('|'), Tok::Ident(v), Tok::Punct('|')] + body
}

/// the placeholder of C02: `|v| v` for some identifier v
pub open spec fn is_identity_closure(t: Seq<Tok>) -> bool {
    t.len() == 4 && t[0] == Tok::Punct('|') && t[2] == Tok::Punct('|')
        && (t[1] is Ident) && t[3] == t[1]
}

// ---------------------------------------------------------------- C02: wrapper-capable operators

/// "the ten wrapper-capable operators (`|>`, `=>`, `?>`, `??`, `?|>`, `?@`, `?|>@`, `?&!>`, `<=`, `!>`)"
pub open spec fn doc_wrapper_meaning(m: DocMeaning) -> bool {
    m == DocMeaning::Method1(Meth::Map) || m == DocMeaning::Method1(Meth::AndThen)
        || m == DocMeaning::Method1(Meth::Filter) || m == DocMeaning::Inspect
        || m == DocMeaning::Method1(Meth::FilterMap) || m == DocMeaning::Method1(Meth::Find)
        || m == DocMeaning::Method1(Meth::FindMap) || m == DocMeaning::Method1(Meth::Partition)
        || m == DocMeaning::Method1(Meth::OrElse) || m == DocMeaning::Method1(Meth::MapErr)
}

// ---------------------------------------------------------------- C07: documented macro kinds

/// C07 (and the crate documentation): which of async / try / spawn each of the 12 macros is
pub open spec fn doc_entries() -> Seq<EntryRow> {
    seq![
        EntryRow { name: "join"@, is_async: false, is_try: false, is_spawn: false },
        EntryRow { name: "try_join"@, is_async: false, is_try: true, is_spawn: false },
        EntryRow { name: "join_spawn"@, is_async: false, is_try: false, is_spawn: true },
        EntryRow { name: "try_join_spawn"@, is_async: false, is_try: true, is_spawn: true },
        EntryRow { name: "join_async"@, is_async: true, is_try: false, is_spawn: false },
        EntryRow { name: "try_join_async"@, is_async: true, is_try: true, is_spawn: false },
        EntryRow { name: "join_async_spawn"@, is_async: true, is_try: false, is_spawn: true },
        EntryRow { name: "try_join_async_spawn"@, is_async: true, is_try: true, is_spawn: true },
        // aliases: "spawn!, try_spawn!, async_spawn!, try_async_spawn! behave exactly like
        // join_spawn!, try_join_spawn!, join_async_spawn!, try_join_async_spawn!"
        EntryRow { name: "spawn"@, is_async: false, is_try: false, is_spawn: true },
        EntryRow { name: "try_spawn"@, is_async: false, is_try: true, is_spawn: true },
        EntryRow { name: "async_spawn"@, is_async: true, is_try: false, is_spawn: true },
        EntryRow { name: "try_async_spawn"@, is_async: true, is_try: true, is_spawn: true },
    ]
}
