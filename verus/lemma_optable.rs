// --------------------------------------------------------------------------------------
// L-C01 / V-C01a,b : the operator tables of the code agree with the documented table
// --------------------------------------------------------------------------------------

/// the documented spelling of a determiner pattern (characters of its tokens, in order)
pub open spec fn elem_chars(e: PatElem) -> Seq<char> {
    match e {
        PatElem::P1(a) => seq![a],
        PatElem::P2(a, b) => seq![a, b],
        PatElem::P3(a, b, c) => seq![a, b, c],
        PatElem::BracketGroup => seq!['[', ']'],
        PatElem::Kw(k) => k,
    }
}

pub open spec fn pat_chars(p: Seq<PatElem>, i: int) -> Seq<char>
    decreases p.len() - i
{
    if i < 0 || i >= p.len() { Seq::<char>::empty() } else { elem_chars(p[i]) + pat_chars(p, i + 1) }
}

/// number of token trees a pattern inspects (what `erase_input` must consume)
pub open spec fn elem_tts(e: PatElem) -> int {
    match e {
        PatElem::P1(_) => 1,
        PatElem::P2(_, _) => 2,
        PatElem::P3(_, _, _) => 3,
        PatElem::BracketGroup => 1,
        PatElem::Kw(_) => 1,
    }
}

pub open spec fn pat_tts(p: Seq<PatElem>, i: int) -> int
    decreases p.len() - i
{
    if i < 0 || i >= p.len() { 0 } else { elem_tts(p[i]) + pat_tts(p, i + 1) }
}

/// A4 says element k of a pattern peeks at token-tree offset k (peek / peek2 / peek3).  That inspects exactly the token
/// trees the row erases only if every element but the last is ONE token tree wide; a compound token (`Token![<<]`) in
/// front of another element would make the next element look INTO it (`<<` + anything would match `<<<`)
pub open spec fn pat_no_overlap(p: Seq<PatElem>, i: int) -> bool
    decreases p.len() - i
{
    if i < 0 || i >= p.len() - 1 { true } else { elem_tts(p[i]) == 1 && pat_no_overlap(p, i + 1) }
}

pub open spec fn doc_lookup(d: Seq<DocRow>, s: Seq<char>, i: int) -> Option<DocMeaning>
    decreases d.len() - i
{
    if i < 0 || i >= d.len() { None } else if d[i].spelling =~= s { Some(d[i].meaning) } else { doc_lookup(d, s, i + 1) }
}

/// one row of the code's operator table is a documented operator with the documented meaning,
/// the documented operand arity, and the right erase length
pub open spec fn det_row_ok(r: DetRow) -> bool {
    match r.comb {
        None => false,
        Some(c) => {
            let pt = parse_table(c);
            let m = meaning_of_ctor(pt.1);
            doc_lookup(doc_ops(), pat_chars(r.pat, 0), 0) == Some(m)
                && unit_parser_table(pt.0) == doc_arity(m)
                && r.len == pat_tts(r.pat, 0)
                && pat_no_overlap(r.pat, 0)
        }
    }
}

pub open spec fn det_rows_ok(t: Seq<DetRow>, i: int) -> bool
    decreases t.len() - i
{
    if i < 0 || i >= t.len() { true } else { det_row_ok(t[i]) && det_rows_ok(t, i + 1) }
}

pub open spec fn det_has(t: Seq<DetRow>, s: Seq<char>, i: int) -> bool
    decreases t.len() - i
{
    if i < 0 || i >= t.len() { false } else { pat_chars(t[i].pat, 0) =~= s || det_has(t, s, i + 1) }
}

/// every documented operator is implemented by some row
pub open spec fn doc_rows_implemented(d: Seq<DocRow>, t: Seq<DetRow>, i: int) -> bool
    decreases d.len() - i
{
    if i < 0 || i >= d.len() { true } else { det_has(t, d[i].spelling, 0) && doc_rows_implemented(d, t, i + 1) }
}

/// the initial value parses as exactly one expression; `~` and `>>>` are spelled as documented
pub open spec fn special_rows_ok() -> bool {
    &&& meaning_of_ctor(parse_table(Combinator::Initial).1) == DocMeaning::Initial
    &&& unit_parser_table(parse_table(Combinator::Initial).0) == doc_arity(DocMeaning::Initial)
    &&& pat_chars(det_table_deferred_determiner().pat, 0) =~= seq!['~']
    &&& det_table_deferred_determiner().len == pat_tts(det_table_deferred_determiner().pat, 0)
    &&& pat_chars(det_table_wrapper_determiner().pat, 0) =~= seq!['>', '>', '>']
    &&& det_table_wrapper_determiner().len == pat_tts(det_table_wrapper_determiner().pat, 0)
    &&& pat_no_overlap(det_table_wrapper_determiner().pat, 0)
    &&& pat_no_overlap(det_table_deferred_determiner().pat, 0)
}

pub open spec fn operator_tables_agree() -> bool {
    det_rows_ok(det_table(), 0) && doc_rows_implemented(doc_ops(), det_table(), 0) && special_rows_ok()
}

/// L-C01: spelling --determiner table--> Combinator --parse table--> constructor --> documented
/// meaning, for every row, and every documented operator has a row.  Together with V-C01c
/// (`to_tokens` prints `meaning_toks(meaning_of_ctor(ctor), operands)`) and V-C01d this gives:
/// every operator spelling is emitted as its documented call, for all operands.
pub proof fn lemma_operator_tables()
    ensures operator_tables_agree(),
{
    assert(operator_tables_agree()) by (compute_only);
}

