// ======================================================================================
// syn header for the parser-side functions (hand-written, trusted): the parser's effect on the token
// stream is UNCONSTRAINED (over-approximation); only what the builder itself computes is verified.
// ======================================================================================

#[verifier::external_body]
pub struct ParseBuffer { _p: () }
pub type ParseStream<'a> = &'a ParseBuffer;

#[verifier::external_body]
pub struct SynError { _p: () }

pub mod syn {
    pub type Result<T> = core::result::Result<T, super::SynError>;
    pub type Error = super::SynError;
}

/// marker for `Token![,]` (R11)
pub struct TokComma { _p: () }

pub trait Parse: Sized {}
impl Parse for TokComma {}
impl<T: Parse> Parse for Option<T> {}

impl ParseBuffer {
    #[verifier::external_body]
    pub fn error<M>(&self, msg: M) -> (r: SynError) { unimplemented!() }
    #[verifier::external_body]
    pub fn is_empty(&self) -> (r: bool) { unimplemented!() }
    /// nothing is left in the stream - as a pure function of the stream reference: only for functions that consume
    /// nothing (A13); `is_empty_now` is `is_empty` with that meaning attached (R12 in such functions)
    pub uninterp spec fn is_empty_spec(&self) -> bool;
    #[verifier::external_body]
    pub fn is_empty_now(&self) -> (r: bool) ensures r == self.is_empty_spec(), { unimplemented!() }
    #[verifier::external_body]
    pub fn parse<T: Parse>(&self) -> (r: syn::Result<T>) { unimplemented!() }
}

// `GroupDeterminer`: opaque in the modules that only pass it around (raw unit `opaque_group_determiner`), the real struct
// minus its fn-pointer union (A11) in module `parse`

pub struct Empty;
impl Parse for Empty {}
impl Parse for Expr {}
impl Parse for Type {}

pub trait ParseUnit<N> {
    /// what this unit parser promises about the `next` group it hands back (for the chain builder: `opt_group_wf`,
    /// the verified postcondition of `parse_until`'s suffix)
    spec fn next_wf(&self, n: Option<N>) -> bool;
    /// opaque (syn-driven): parses input until the next group
    fn parse_unit<T: Parse>(&self, input: ParseStream<'_>, allow_empty_parsed: bool) -> (r: UnitResult<T, N>)
        ensures r is Ok ==> self.next_wf(r->Ok_0.next);
}
pub type UnitResult<T, N> = syn::Result<Unit<T, N>>;

// ---- peeking (only given a meaning where all peeks of a path precede its first consuming call, see DESIGN A13) ----
/// identity of a keyword / punctuation token type that can be peeked
pub trait Kw { spec fn id() -> int; }

impl ParseBuffer {
    /// the next token is the keyword / token with this identity
    pub uninterp spec fn peeks(&self, id: int) -> bool;
    /// the token after the next one is ..
    pub uninterp spec fn peeks2(&self, id: int) -> bool;
    #[verifier::external_body]
    pub fn peek<K: Kw>(&self, k: K) -> (r: bool) ensures r == self.peeks(K::id()), { unimplemented!() }
    #[verifier::external_body]
    pub fn peek2<K: Kw>(&self, k: K) -> (r: bool) ensures r == self.peeks2(K::id()), { unimplemented!() }
    #[verifier::external_body]
    pub fn span(&self) -> (r: Span) { unimplemented!() }
}
impl SynError {
    #[verifier::external_body]
    pub fn new<M>(span: Span, msg: M) -> (r: SynError) { unimplemented!() }
}

/// the next token is ONE token: it cannot be two different keywords at once
#[verifier::external_body]
pub proof fn axiom_one_next_token(input: &ParseBuffer, a: int, b: int)
    ensures input.peeks(a) && input.peeks(b) ==> a == b,
{}

