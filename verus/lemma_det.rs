// --------------------------------------------------------------------------------------
// L-C14: in the determiner table, the first row that matches is the longest row that matches
// (so `?|>@`/`?|>`, `=>[]`/`=>`, `<<<`/`<|`/`<=`/`<->` resolve to the longest documented operator).
// Matcher model = assumption A4 (syn peek semantics): a one-character `Token![c]` ignores spacing, a
// multi-character token needs joint spacing between its characters, element k of a pattern peeks at
// token-tree offset k (peek / peek2 / peek3 / fork+skip).
// --------------------------------------------------------------------------------------

pub enum TT {
    /// punctuation character and whether it is joint with the next token
    Punct(char, bool),
    Ident(Seq<char>),
    Group(Delim),
    Lit,
}

pub open spec fn is_punct(s: Seq<TT>, at: int, c: char) -> bool {
    0 <= at < s.len() && (s[at] matches TT::Punct(c2, _) && c2 == c)
}

pub open spec fn is_joint(s: Seq<TT>, at: int) -> bool {
    0 <= at < s.len() && (s[at] matches TT::Punct(_, j) && j)
}

pub open spec fn elem_matches(e: PatElem, s: Seq<TT>, at: int) -> bool {
    match e {
        PatElem::P1(a) => is_punct(s, at, a),
        PatElem::P2(a, b) => is_punct(s, at, a) && is_joint(s, at) && is_punct(s, at + 1, b),
        PatElem::P3(a, b, c) => is_punct(s, at, a) && is_joint(s, at) && is_punct(s, at + 1, b) && is_joint(s, at + 1) && is_punct(s, at + 2, c),
        PatElem::BracketGroup => 0 <= at < s.len() && s[at] == TT::Group(Delim::Bracket),
        PatElem::Kw(k) => 0 <= at < s.len() && s[at] == TT::Ident(k),
    }
}

pub open spec fn pat_matches(p: Seq<PatElem>, s: Seq<TT>, k: int) -> bool
    decreases p.len() - k
{
    if k < 0 || k >= p.len() { true } else { elem_matches(p[k], s, k) && pat_matches(p, s, k + 1) }
}

/// row j can never be chosen for an input that an earlier, shorter row i also matches
pub open spec fn row_pair_ok(s: Seq<TT>, i: int, j: int) -> bool {
    (pat_matches(det_table()[i].pat, s, 0) && pat_matches(det_table()[j].pat, s, 0))
        ==> pat_tts(det_table()[i].pat, 0) >= pat_tts(det_table()[j].pat, 0)
}

pub proof fn lemma_first_match_is_longest(s: Seq<TT>, i: int, j: int)
    requires 0 <= i < j < det_table().len(),
    ensures row_pair_ok(s, i, j),
{
    reveal_with_fuel(pat_matches, 6);
    reveal_with_fuel(pat_tts, 6);
}

