// ---- specs for <JoinOutput as ToTokens>::to_tokens (module `top`) ----

/// what `JoinOutput::new` establishes about the fields the assembly reads
pub open spec fn jo_wf(jo: JoinOutput) -> bool {
    jo.branch_count == jo.depths@.len() && jo.branch_count == jo.branch_pats@.len() && jo.branch_count >= 1 && jo.max_step_count >= 1 && chains_wf(jo)
}

/// C04 / C12: the final name of branch i is the user's `let` name if there is one, else the generated `__r{i}`; the
/// pattern is the user's pattern (with its `mut`) resp. the same generated name
pub open spec fn result_names_ok(jo: JoinOutput, pats: Seq<TokenStream>, vars: Seq<Ident>) -> bool {
    pats.len() == jo.branch_count && vars.len() == jo.branch_count
    && (forall|i: int| 0 <= i < jo.branch_count ==> (#[trigger] pats[i])@ =~= (match jo.branch_pats@[i] { Some(p) => p.toks(), None => seq![Tok::Ident(construct_result_name_spec(i as usize))] }))
    && (forall|i: int| 0 <= i < jo.branch_count ==> (#[trigger] vars[i]).name() =~= (match jo.branch_pats@[i] { Some(p) => p.ident.name(), None => construct_result_name_spec(i as usize) }))
}

/// C13: `let __handler = <the user's handler expression>;` exactly once if there is a handler, nothing otherwise
pub open spec fn handler_def_toks(hname: Seq<Tok>, h: Option<&Handler>) -> Seq<Tok> {
    match h {
        Some(hh) => bp(bt(bp(bt(bi(no_toks(), "let"@), hname), '='), handler_expr(*hh).toks()), ';'),
        None => no_toks(),
    }
}

/// `<helpers> let __results = { <steps> }; <handle>`: the steps sit in a PLAIN BLOCK of the surrounding scope
/// (C19: no closure, no thread, no box around them), the handler call comes after all of them (C13)
pub open spec fn top_core(pre: Seq<Tok>, rv: Seq<Tok>, steps: Seq<Tok>, handle: Seq<Tok>) -> Seq<Tok> {
    bt(bp(bg(bp(bt(bi(pre, "let"@), rv), '='), Delim::Brace, bt(no_toks(), steps)), ';'), handle)
}

pub open spec fn top_toks(jo: JoinOutput, steps: Seq<Tok>) -> Seq<Tok> {
    let rv = seq![Tok::Ident(construct_results_name_spec())];
    let hn = seq![Tok::Ident(construct_handler_name_spec())];
    let vn = seq![Tok::Ident(construct_internal_value_name_spec())];
    let handle = doc_handle(jo.config.is_async, handler_kind(jo.handler), rv, hn, result_names_toks(jo.branch_count as nat));
    let hd = handler_def_toks(hn, jo.handler);
    if jo.config.is_async {
        // C09: one `Box::pin(async move { .. })`; C07: the tokio spawn helper is defined only for the spawning kind
        let fp = opt_path(jo.futures_crate_path);
        let spawn_fn = if jo.config.is_spawn { oq_JoinOutput__to_tokens_1_spec(seq![Tok::Ident(construct_spawn_tokio_fn_name_spec())], fp, vn) } else { no_toks() };
        let uses = bi(bp(bi(bp(bi(bp(bi(no_toks(), "FutureExt"@), ','), "TryFutureExt"@), ','), "StreamExt"@), ','), "TryStreamExt"@);
        let pre = bt(bt(bp(bg(bp(bp(bt(bi(no_toks(), "use"@), fp), ':'), ':'), Delim::Brace, uses), ';'), spawn_fn), hd);
        bg(bi(bp(bp(bi(no_toks(), "Box"@), ':'), ':'), "pin"@), Delim::Paren,
           bg(bi(bi(no_toks(), "async"@), "move"@), Delim::Brace, top_core(pre, rv, steps, handle)))
    } else {
        // C07: the thread-builder helper is defined only for the spawning kind
        let inspect_fn = oq_JoinOutput__to_tokens_3_spec(seq![Tok::Ident(construct_inspect_fn_name_spec())], hn, vn);
        let tb_fn = if jo.config.is_spawn { oq_JoinOutput__to_tokens_4_spec(seq![Tok::Ident(construct_thread_builder_fn_name_spec())]) } else { no_toks() };
        let pre = bt(bt(bt(no_toks(), inspect_fn), tb_fn), hd);
        bg(no_toks(), Delim::Brace, top_core(pre, rv, steps, handle))
    }
}

// ---- JoinOutput::new, the block that fills the fields (R15 block lifting) ----

/// the fields as functions of the parsed branches
pub open spec fn new_fields_ok_f<'a>(depths: Seq<usize>, chains: Seq<Vec<Vec<&'a ExprGroup<ActionExpr>>>>, pats: Seq<Option<&'a PatIdent>>, branches: Seq<ActionExprChain>, k: int) -> bool {
    &&& depths.len() == k && chains.len() == k && pats.len() == k
    &&& forall|b: int| 0 <= b < k ==> deep((#[trigger] chains[b])@) =~~= split_steps(branches[b].members@, branches[b].members@.len() as int)
    &&& forall|b: int| 0 <= b < k ==> (#[trigger] depths[b]) == split_steps(branches[b].members@, branches[b].members@.len() as int).len()
    &&& forall|b: int| 0 <= b < k ==> match branches[b].ident { Some(p) => (#[trigger] pats[b]) == Some(&p), None => pats[b] is None }
}
pub open spec fn new_fields_ok<'a>(jo: JoinOutput<'a>, branches: Seq<ActionExprChain>, k: int) -> bool {
    new_fields_ok_f(jo.depths@, jo.chains@, jo.branch_pats@, branches, k)
}

pub proof fn lemma_new_fields<'a>(branch_count: usize, depths: Seq<usize>, chains: Seq<Vec<Vec<&'a ExprGroup<ActionExpr>>>>, pats: Seq<Option<&'a PatIdent>>, branches: Seq<ActionExprChain>)
    requires
        branch_count == branches.len(),
        new_fields_ok_f(depths, chains, pats, branches, branches.len() as int),
        forall|b: int| 0 <= b < branches.len() ==> branch_steps_ok((#[trigger] branches[b]).members@),
    ensures
        chains_wf_f(branch_count, depths, chains),
        forall|b: int| 0 <= b < depths.len() ==> (#[trigger] depths[b]) >= 1,
{
    assert forall|b: int| 0 <= b < branch_count implies (#[trigger] chains[b])@.len() == depths[b] by {
        assert(deep(chains[b]@).len() == chains[b]@.len());
    }
    assert forall|b: int, s: int| 0 <= b < branch_count && 0 <= s < depths[b] implies (#[trigger] chains[b]@[s])@.len() > 0 && acts_ok_o(chains[b]@[s]@) by {
        let ms = branches[b].members@;
        assert(branch_steps_ok(branches[b].members@));
        assert(deep(chains[b]@)[s] == chains[b]@[s]@);
        assert(deep(chains[b]@) =~~= split_steps(ms, ms.len() as int));
        assert(split_steps(ms, ms.len() as int)[s].len() > 0);
    }
    assert forall|b: int| 0 <= b < depths.len() implies (#[trigger] depths[b]) >= 1 by {
        lemma_split_nonempty(branches[b].members@, branches[b].members@.len() as int);
    }
}
