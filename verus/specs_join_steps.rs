// ======================================================================================
// C04 / C05 / C06 / C12: how one step is joined with the next one (JoinOutput::join_steps), token level
// ======================================================================================

pub open spec fn tk(s: Seq<char>) -> Tok { Tok::Ident(s) }
pub open spec fn pc(c: char) -> Tok { Tok::Punct(c) }
pub open spec fn fat_arrow() -> Seq<Tok> { seq![pc('='), pc('>')] }
pub open spec fn no_toks() -> Seq<Tok> { Seq::<Tok>::empty() }

/// `, `-joined token lists
pub open spec fn join_comma(l: Seq<Seq<Tok>>) -> Seq<Tok>
    decreases l.len()
{
    if l.len() == 0 { no_toks() }
    else if l.len() == 1 { l[0] }
    else { join_comma(l.drop_last()) + seq![pc(',')] + l.last() }
}

pub open spec fn ts_views(v: Seq<TokenStream>) -> Seq<Seq<Tok>> { v.map_values(|t: TokenStream| t@) }

pub proof fn lemma_join_comma(v: Seq<TokenStream>)
    ensures seq_toks_sep(v, ',') == join_comma(ts_views(v)), all_tokenizable(v),
    decreases v.len(),
{
    if v.len() > 1 {
        lemma_join_comma(v.drop_last());
        assert(ts_views(v).drop_last() =~= ts_views(v.drop_last()));
    }
}

/// `r.as_ref().map(|_| true).unwrap_or(false)`: did this branch end the step with Some/Ok?
pub open spec fn js_check(v: Seq<Tok>) -> Seq<Tok> {
    v + seq![pc('.'), tk("as_ref"@)] + group(Delim::Paren, no_toks())
      + seq![pc('.'), tk("map"@)] + group(Delim::Paren, seq![pc('|'), tk("_"@), pc('|'), tk("true"@)])
      + seq![pc('.'), tk("unwrap_or"@)] + group(Delim::Paren, seq![tk("false"@)])
}

/// `k => r.map(|_| unreachable!())`: the failure of this branch, payload untouched, becomes the macro's value
pub open spec fn js_arm(k: usize, v: Seq<Tok>) -> Seq<Tok> {
    seq![Tok::Lit(usize_lit(k))] + fat_arrow() + v + seq![pc('.'), tk("map"@)]
        + group(Delim::Paren, seq![pc('|'), tk("_"@), pc('|'), tk("unreachable"@), pc('!')] + group(Delim::Paren, no_toks()))
}

/// position of branch i among the branches active in `step`
pub open spec fn active_pos(depths: Seq<usize>, step: int, i: int) -> int { count_active(depths.take(i), step) }

/// one success check per ACTIVE branch, in branch order (C05: the lowest-numbered failing branch is found first)
pub open spec fn checks_list(vars: Seq<Ident>, depths: Seq<usize>, step: int, upto: int) -> Seq<Seq<Tok>>
    decreases upto
{
    if upto <= 0 { Seq::<Seq<Tok>>::empty() }
    else {
        checks_list(vars, depths, step, upto - 1)
            + if depths[upto - 1] > step { seq![js_check(vars[upto - 1].toks())] } else { Seq::<Seq<Tok>>::empty() }
    }
}

/// one arm per ACTIVE branch; the arm of the k-th active branch is labelled k (its position in the checks array)
pub open spec fn arms_list(vars: Seq<Ident>, depths: Seq<usize>, step: int, upto: int) -> Seq<Seq<Tok>>
    decreases upto
{
    if upto <= 0 { Seq::<Seq<Tok>>::empty() }
    else {
        arms_list(vars, depths, step, upto - 1)
            + if depths[upto - 1] > step { seq![js_arm(active_pos(depths, step, upto - 1) as usize, vars[upto - 1].toks())] } else { Seq::<Seq<Tok>>::empty() }
    }
}

/// `Ok(step_results.k)` per ACTIVE branch (non-transposing try macros re-wrap the values a joiner unwrapped)
pub open spec fn oks_list(srn: Seq<Tok>, depths: Seq<usize>, step: int, upto: int) -> Seq<Seq<Tok>>
    decreases upto
{
    if upto <= 0 { Seq::<Seq<Tok>>::empty() }
    else {
        oks_list(srn, depths, step, upto - 1)
            + if depths[upto - 1] > step {
                seq![seq![tk("Ok"@)] + group(Delim::Paren, indexed_name(srn, count_active(depths, step), active_pos(depths, step, upto - 1) as usize))]
            } else { Seq::<Seq<Tok>>::empty() }
    }
}

/// the result variables of the branches that finished BEFORE `step`, in branch order
pub open spec fn filter_inactive<T>(vars: Seq<T>, depths: Seq<usize>, step: int, upto: int) -> Seq<T>
    decreases upto
{
    if upto <= 0 { Seq::<T>::empty() }
    else {
        filter_inactive(vars, depths, step, upto - 1)
            + if depths[upto - 1] > step { Seq::<T>::empty() } else { seq![vars[upto - 1]] }
    }
}

// builder-shaped notation: the same left-nested terms the R2 form of `quote!` produces, so that equality with the code's
// stream is syntactic (no sequence extensionality over ~80 tokens, which costs Z3 tens of seconds)
pub open spec fn bi(s: Seq<Tok>, name: Seq<char>) -> Seq<Tok> { s.push(Tok::Ident(name)) }
pub open spec fn bp(s: Seq<Tok>, c: char) -> Seq<Tok> { s.push(Tok::Punct(c)) }
pub open spec fn bg(s: Seq<Tok>, d: Delim, inner: Seq<Tok>) -> Seq<Tok> { s + group(d, inner) }
pub open spec fn bt(s: Seq<Tok>, x: Seq<Tok>) -> Seq<Tok> { s + x }

/// `Err(err) => Err(err)`
/// (`ev`: the binder the generator happens to use; taken from the source by R9 `quote_idents`, never spelled here)
pub open spec fn err_to_err(ev: Seq<char>) -> Seq<Tok> {
    bg(bi(bp(bp(bg(bi(no_toks(), "Err"@), Delim::Paren, bi(no_toks(), ev)), '='), '>'), "Err"@), Delim::Paren, bi(no_toks(), ev))
}

/// `match srn { Ok(<bind>) => <ok_arm> , Err(err) => Err(err) }` where ok_arm is appended by `rest`
pub open spec fn match_ok_head(srn: Seq<Tok>, bind: Seq<Tok>) -> Seq<Tok> {
    bp(bp(bg(bi(no_toks(), "Ok"@), Delim::Paren, bt(no_toks(), bind)), '='), '>')
}
pub open spec fn match_ok(srn: Seq<Tok>, arm_with_head: Seq<Tok>, ev: Seq<char>) -> Seq<Tok> {
    bg(bt(bi(no_toks(), "match"@), srn), Delim::Brace, bt(bp(arm_with_head, ','), err_to_err(ev)))
}

pub open spec fn opt_seq(o: Option<Seq<Tok>>) -> Seq<Tok> { match o { Some(t) => t, None => no_toks() } }
pub open spec fn opt_tv(o: Option<TokenStream>) -> Option<Seq<Tok>> { match o { Some(t) => Some(t@), None => None } }

/// C05 / C06 (transposing try macro, a step that is not the last): the next step is reached ONLY in the `else` of the
/// failure test; the test looks at exactly the ACTIVE branches in branch order
pub open spec fn js_try_transpose(step_toks: Seq<Tok>, ext: Seq<Tok>, checks: Seq<Tok>, arms: Seq<Tok>, v: Seq<Tok>, next: Seq<Tok>, fi: Seq<char>) -> Seq<Tok> {
    let s = bp(bg(bi(bi(bi(bt(bt(no_toks(), step_toks), ext), "if"@), "let"@), "Some"@), Delim::Paren, bi(no_toks(), fi)), '=');
    let s = bg(s, Delim::Bracket, bt(no_toks(), checks));
    let s = bg(bi(bp(s, '.'), "iter"@), Delim::Paren, no_toks());
    let s = bg(bi(bp(s, '.'), "position"@), Delim::Paren, bt(bp(bp(bt(bp(no_toks(), '|'), v), '|'), '!'), v));
    let inner = bg(bp(bi(bp(bp(bi(bp(bt(no_toks(), arms), ','), "_"@), '='), '>'), "unreachable"@), '!'), Delim::Paren, no_toks());
    let s = bg(s, Delim::Brace, bg(bi(bi(no_toks(), "match"@), fi), Delim::Brace, inner));
    bg(bi(s, "else"@), Delim::Brace, bt(no_toks(), next))
}

/// non-transposing try macro, not the last step: `match srn { Ok(srn) => { let srn = (Ok(srn.0), ..); <ext> <next> }, Err(err) => Err(err) }`
pub open spec fn js_try_plain(step_toks: Seq<Tok>, ext: Seq<Tok>, srn: Seq<Tok>, oks: Seq<Tok>, next: Seq<Tok>, ev: Seq<char>) -> Seq<Tok> {
    let cur = bt(bp(bg(bp(bt(bi(no_toks(), "let"@), srn), '='), Delim::Paren, bt(no_toks(), oks)), ';'), ext);
    bt(bt(no_toks(), step_toks), match_ok(srn, bg(match_ok_head(srn, srn), Delim::Brace, bt(bt(no_toks(), cur), next)), ev))
}

/// the whole function.  `ext` is what extract_results_tuple printed for this step (names of the ACTIVE branches only).
pub open spec fn join_steps_spec(
    is_try: bool, transpose: bool, last: bool, branch_count: int, depths: Seq<usize>, step: int,
    step_toks: Seq<Tok>, next: Option<Seq<Tok>>, ext: Seq<Tok>, vars: Seq<Ident>, srn: Seq<Tok>, v: Seq<Tok>,
    fi: Seq<char>, ev: Seq<char>,
) -> Seq<Tok> {
    let n = depths.len() as int;
    let all = bg(no_toks(), Delim::Paren, bt(no_toks(), seq_toks_sep(vars, ',')));   // `(r0, r1, ..)`: ALL branches in branch order
    if is_try && !last {
        if transpose {
            js_try_transpose(step_toks, ext, join_comma(checks_list(vars, depths, step, n)), join_comma(arms_list(vars, depths, step, n)), v, opt_seq(next), fi)
        } else {
            js_try_plain(step_toks, ext, srn, join_comma(oks_list(srn, depths, step, n)), opt_seq(next), ev)
        }
    } else if transpose && is_try {
        bt(bt(bt(no_toks(), step_toks), ext), transposer_toks(vars, group(Delim::Paren, seq_toks_sep(vars, ',')), 0))
    } else if is_try {
        let fin =
            if branch_count > 1 {
                let rest = filter_inactive(vars, depths, step, n);
                if rest.len() > 0 {
                    // C04: the tuple handed back lists ALL branches in branch order, whichever of them finished earlier
                    match_ok(srn, bg(match_ok_head(srn, srn), Delim::Brace, bt(bt(no_toks(), ext), transposer_toks(rest, group(Delim::Paren, seq_toks_sep(vars, ',')), 0))), ev)
                } else {
                    match_ok(srn, bg(match_ok_head(srn, srn), Delim::Brace, bg(bi(bt(no_toks(), ext), "Ok"@), Delim::Paren, all)), ev)
                }
            } else {
                match_ok(srn, bg(bi(match_ok_head(srn, v), "Ok"@), Delim::Paren, bg(no_toks(), Delim::Paren, bt(no_toks(), v))), ev)
            };
        bt(bt(no_toks(), step_toks), fin)
    } else {
        bt(bt(bt(no_toks(), step_toks), ext), match next { Some(t) => t, None => all })
    }
}

pub proof fn lemma_take_full<T>(s: Seq<T>)
    ensures s.take(s.len() as int) =~= s,
{
}

pub proof fn lemma_count_take_step(depths: Seq<usize>, step: int, i: int)
    requires 0 <= i < depths.len(),
    ensures count_active(depths.take(i + 1), step) == count_active(depths.take(i), step) + if depths[i] > step { 1int } else { 0int },
            count_active(depths.take(i), step) <= i,
    decreases i,
{
    assert(depths.take(i + 1).drop_last() =~= depths.take(i));
    if i > 0 { lemma_count_take_step(depths, step, i - 1); }
}

// ---------------------------------------------------------------- C07 / C08: thread builders and joins of a spawned step

pub open spec fn concat_all(l: Seq<Seq<Tok>>) -> Seq<Tok>
    decreases l.len()
{
    if l.len() == 0 { no_toks() } else { concat_all(l.drop_last()) + l.last() }
}

pub proof fn lemma_concat_all(v: Seq<TokenStream>)
    ensures seq_toks(v) == concat_all(ts_views(v)), all_tokenizable(v),
    decreases v.len(),
{
    if v.len() > 0 {
        lemma_concat_all(v.drop_last());
        assert(ts_views(v).drop_last() =~= ts_views(v.drop_last()));
    }
}

/// `let __j{b} = __tb(b);` : one named builder per ACTIVE branch, numbered by BRANCH index
pub open spec fn tb_item(b: usize) -> Seq<Tok> {
    bp(bg(bt(bp(bt(bi(no_toks(), "let"@), seq![Tok::Ident(construct_thread_builder_name_spec(b))]), '='), seq![Tok::Ident(construct_thread_builder_fn_name_spec())]),
          Delim::Paren, bt(no_toks(), seq![Tok::Lit(usize_lit(b))])), ';')
}
pub open spec fn tb_list(depths: Seq<usize>, step: int, upto: int) -> Seq<Seq<Tok>>
    decreases upto
{
    if upto <= 0 { Seq::<Seq<Tok>>::empty() }
    else { tb_list(depths, step, upto - 1) + if depths[upto - 1] > step { seq![tb_item((upto - 1) as usize)] } else { Seq::<Seq<Tok>>::empty() } }
}
/// `step_results.k.join().unwrap()`: every handle is joined, in branch order (position among the active branches)
pub open spec fn join_item(idx: Seq<Tok>) -> Seq<Tok> {
    bg(bi(bp(bg(bi(bp(bt(no_toks(), idx), '.'), "join"@), Delim::Paren, no_toks()), '.'), "unwrap"@), Delim::Paren, no_toks())
}
pub open spec fn joins_list(srn: Seq<Tok>, depths: Seq<usize>, step: int, upto: int) -> Seq<Seq<Tok>>
    decreases upto
{
    if upto <= 0 { Seq::<Seq<Tok>>::empty() }
    else {
        joins_list(srn, depths, step, upto - 1)
            + if depths[upto - 1] > step { seq![join_item(indexed_name(srn, count_active(depths, step), active_pos(depths, step, upto - 1) as usize))] } else { Seq::<Seq<Tok>>::empty() }
    }
}

// ---------------------------------------------------------------- C09 / C16: how the branches of one step are joined (tail of generate_step)

/// `<path>::name!`
pub open spec fn path_macro(path: Seq<Tok>, name: Seq<char>) -> Seq<Tok> {
    bp(bi(bp(bp(bt(no_toks(), path), ':'), ':'), name), '!')
}

/// C16: the joiner of a step: only a step with more than one active branch is joined; the user's `custom_joiner` wins;
/// async macros fall back to `futures_crate_path::try_join!` / `::join!`; sync macros to a plain tuple
pub open spec fn joiner_spec(active: int, custom: Option<&TokenStream>, is_async: bool, is_try: bool, fcp: Seq<Tok>) -> Option<Seq<Tok>> {
    if active > 1 {
        match custom {
            Some(c) => Some(c@),
            None => if is_async { Some(path_macro(fcp, if is_try { "try_join"@ } else { "join"@ })) } else { None },
        }
    } else { None }
}

/// C09: ALL step streams of the step go, in branch order, into ONE joiner invocation (async: polled concurrently);
/// without a joiner (one active branch) the single stream is awaited
pub open spec fn step_tail_spec(is_async: bool, defs: Seq<Tok>, srn: Seq<Tok>, joiner: Option<Seq<Tok>>, streams_comma: Seq<Tok>, streams_cat: Seq<Tok>,
                                tb: Seq<Tok>, sj: Seq<Tok>) -> Seq<Tok> {
    if is_async {
        let jr = match joiner {
            Some(j) => bg(bt(no_toks(), j), Delim::Paren, bt(no_toks(), streams_comma)),
            None => bi(bp(bt(no_toks(), streams_cat), '.'), "await"@),
        };
        bp(bt(bp(bt(bi(bt(no_toks(), defs), "let"@), srn), '='), jr), ';')
    } else {
        bt(bp(bg(bt(bp(bt(bi(bt(bt(no_toks(), tb), defs), "let"@), srn), '='), match joiner { Some(j) => j, None => no_toks() }), Delim::Paren, bt(no_toks(), streams_comma)), ';'), sj)
    }
}

pub open spec fn opt_path(o: Option<&Path>) -> Seq<Tok> { match o { Some(p) => p.ptoks(), None => no_toks() } }

pub open spec fn threads_here(is_async: bool, is_spawn: bool, depths: Seq<usize>, step: int) -> bool {
    !(is_async || !is_spawn || count_active(depths, step) < 2)
}
pub open spec fn tb_spec(is_async: bool, is_spawn: bool, depths: Seq<usize>, step: int) -> Seq<Tok> {
    if threads_here(is_async, is_spawn, depths, step) { bt(no_toks(), concat_all(tb_list(depths, step, depths.len() as int))) } else { no_toks() }
}
pub open spec fn sj_spec(is_async: bool, is_spawn: bool, depths: Seq<usize>, step: int, srn: Seq<Tok>) -> Seq<Tok> {
    if threads_here(is_async, is_spawn, depths, step) {
        bp(bg(bp(bt(bi(no_toks(), "let"@), srn), '='), Delim::Paren, bt(no_toks(), join_comma(joins_list(srn, depths, step, depths.len() as int)))), ';')
    } else { no_toks() }
}

// ---------------------------------------------------------------- C03 / C06: the steps are nested, each in the continuation of the one before

/// what `generate_step` printed for a step (not under contract as a whole; a function of its arguments)
pub uninterp spec fn gen_step_toks(jo: JoinOutput, step: usize, vars: Seq<Ident>, srn: Seq<Tok>) -> Seq<Tok>;

pub open spec fn srn_toks(k: usize) -> Seq<Tok> { seq![Tok::Ident(construct_step_results_name_spec(k))] }

/// the code of steps k, k+1, ..: step k+1 sits in the `next` slot of step k - for a try macro that slot is the `else` of
/// the failure test (join_steps_spec), so a failed step skips ALL later steps; for every macro a step starts only after
/// the join of the previous one has produced its results
pub open spec fn steps_toks(jo: JoinOutput, pats: Seq<TokenStream>, vars: Seq<Ident>, fi: Seq<char>, ev: Seq<char>, k: int) -> Seq<Tok>
    decreases jo.max_step_count - k
{
    if k < 0 || k >= jo.max_step_count { no_toks() }
    else {
        join_steps_spec(jo.config.is_try, jo.transpose, !(k < jo.max_step_count - 1), jo.branch_count as int, jo.depths@, k,
            gen_step_toks(jo, k as usize, vars, srn_toks(k as usize)),
            if k + 1 < jo.max_step_count { Some(steps_toks(jo, pats, vars, fi, ev, k + 1)) } else { None },
            let_tuple(seq_toks_sep(filter_active(pats, jo.depths@, k, pats.len() as int), ','), srn_toks(k as usize)),
            vars, srn_toks(k as usize), seq![Tok::Ident(construct_internal_value_name_spec())], fi, ev)
    }
}
