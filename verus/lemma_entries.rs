// --------------------------------------------------------------------------------------
// V-C07 : the 12 entry points carry the documented (async, try, spawn) triples
// --------------------------------------------------------------------------------------

pub open spec fn entry_has(t: Seq<EntryRow>, r: EntryRow, i: int) -> bool
    decreases t.len() - i
{
    if i < 0 || i >= t.len() { false } else {
        (t[i].name == r.name && t[i].is_async == r.is_async && t[i].is_try == r.is_try && t[i].is_spawn == r.is_spawn)
            || entry_has(t, r, i + 1)
    }
}

pub open spec fn entries_in(a: Seq<EntryRow>, b: Seq<EntryRow>, i: int) -> bool
    decreases a.len() - i
{
    if i < 0 || i >= a.len() { true } else { entry_has(b, a[i], 0) && entries_in(a, b, i + 1) }
}

pub open spec fn entry_tables_agree() -> bool {
    entry_table().len() == doc_entries().len()
        && entries_in(entry_table(), doc_entries(), 0)
        && entries_in(doc_entries(), entry_table(), 0)
}

/// every `#[proc_macro]` function passes exactly its documented Config to `join_impl`, so each
/// alias has the Config of its target; since `join_impl(parsed, config)` is the whole body
/// (shape-checked by the extractor), an alias expands identically to its target for every input.
pub proof fn lemma_entry_table()
    ensures entry_tables_agree(),
{
    assert(entry_tables_agree()) by (compute_only);
}
