// ======================================================================================
// specs for the generator functions of join_output.rs (hand-written, from C01/C02/C04/C13)
// ======================================================================================

/// number of branches still active in `step` (depth > step)
pub open spec fn count_active(depths: Seq<usize>, step: int) -> int
    decreases depths.len()
{
    if depths.len() == 0 { 0 } else { count_active(depths.drop_last(), step) + if depths.last() > step { 1int } else { 0int } }
}

/// C04: `name . k` iff more than one branch is active in the step, else `name`
pub open spec fn indexed_name(name: Seq<Tok>, active: int, k: usize) -> Seq<Tok> {
    if active > 1 { name + seq![Tok::Punct('.'), Tok::Lit(dec(k as nat))] } else { name }
}

/// `{ v }` (sync) / `async move { v }` (async)
pub open spec fn value_block(is_async: bool, v: Seq<Tok>) -> Seq<Tok> {
    if is_async { seq![Tok::Ident("async"@), Tok::Ident("move"@)] + group(Delim::Brace, v) } else { group(Delim::Brace, v) }
}

/// C01: what one process operator applied to the previous value `prev` expands to
pub open spec fn expanded(is_async: bool, prev: Seq<Tok>, e: ProcessExpr) -> Seq<Tok> {
    match e {
        // `->`: call-with-value
        ProcessExpr::Then(_) => call_with_value_toks(e.toks(), prev),
        // `??`: value passed through unchanged, callback sees it by reference:
        //   async: FutureExt::inspect; sync: the `__inspect(callback, value)` helper
        ProcessExpr::Inspect(a) => if is_async {
            prev + call_toks("inspect"@, a@[0].toks())
        } else {
            seq![Tok::Ident(construct_inspect_fn_name_spec())] + group(Delim::Paren, a@[0].toks() + comma() + prev)
        },
        // every other operator: the documented method call appended to the previous value
        _ => prev + e.toks(),
    }
}

// ---------------------------------------------------------------- C13: handler call

/// `__r0 , __r1 , .. , __r{n-1}` (the spelling comes from construct_result_name)
pub open spec fn result_names_toks(n: nat) -> Seq<Tok>
    decreases n
{
    if n == 0 { Seq::<Tok>::empty() }
    else if n == 1 { seq![Tok::Ident(construct_result_name_spec(0))] }
    else { result_names_toks((n - 1) as nat) + seq![Tok::Punct(',')] + seq![Tok::Ident(construct_result_name_spec((n - 1) as usize))] }
}

pub proof fn lemma_names_sep(v: Seq<Ident>, n: nat)
    requires v.len() == n, n <= usize::MAX, forall|i: int| 0 <= i < n ==> (#[trigger] v[i]).name() =~= construct_result_name_spec(i as usize),
    ensures seq_toks_sep(v, ',') == result_names_toks(n), all_tokenizable(v),
    decreases n,
{
    if n == 0 {
    } else if n == 1 {
        assert(v[0].toks() =~= seq![Tok::Ident(construct_result_name_spec(0))]);
    } else {
        lemma_names_sep(v.drop_last(), (n - 1) as nat);
        assert(v.last().toks() =~= seq![Tok::Ident(construct_result_name_spec((n - 1) as usize))]);
    }
}

/// `let (r0, r1, ..) = rs;` -- for one name the parentheses are plain grouping
pub open spec fn let_tuple(names: Seq<Tok>, rs: Seq<Tok>) -> Seq<Tok> {
    seq![Tok::Ident("let"@)] + group(Delim::Paren, names) + seq![Tok::Punct('=')] + rs + seq![Tok::Punct(';')]
}

/// what `extract_results_tuple(rs, names, handler, None)` prints
pub open spec fn extract_all(rs: Seq<Tok>, names: Seq<Tok>, handler: Option<&Ident>) -> Seq<Tok> {
    match handler {
        None => let_tuple(names, rs),
        // `{ let (r0, ..) = rs; h(r0, ..) }`: the handler is called exactly once, with the values in branch order
        Some(h) => group(Delim::Brace, let_tuple(names, rs) + h.toks() + group(Delim::Paren, names)),
    }
}

pub open spec fn await_toks(is_async: bool) -> Seq<Tok> {
    if is_async { seq![Tok::Punct('.'), Tok::Ident("await"@)] } else { Seq::<Tok>::empty() }
}

/// C13: no handler -> the results; `then` -> call (awaited in async); `map`/`and_then` -> applied through
/// `.map` / `.and_then` on the (transposed) result, so only on success; async `map` maps inside the future's output
pub open spec fn doc_handle(is_async: bool, h: HKind, rs: Seq<Tok>, hname: Seq<Tok>, names: Seq<Tok>) -> Seq<Tok> {
    let call = group(Delim::Brace, let_tuple(names, rs) + hname + group(Delim::Paren, names));
    match h {
        HKind::NoHandler => rs,
        HKind::Then => call + await_toks(is_async),
        HKind::Map => value_block(is_async, rs) + seq![Tok::Punct('.'), Tok::Ident("map"@)]
            + group(Delim::Paren, seq![Tok::Punct('|')] + rs + seq![Tok::Punct('|')]
                + group(Delim::Brace, if is_async { rs + seq![Tok::Punct('.'), Tok::Ident("map"@)] + group(Delim::Paren, seq![Tok::Punct('|')] + rs + seq![Tok::Punct('|')] + call) } else { call }))
            + await_toks(is_async),
        HKind::AndThen => value_block(is_async, rs) + seq![Tok::Punct('.'), Tok::Ident("and_then"@)]
            + group(Delim::Paren, seq![Tok::Punct('|')] + rs + seq![Tok::Punct('|')] + group(Delim::Brace, call))
            + await_toks(is_async),
    }
}

/// the loop `(0..n).map(construct_result_name).collect()` written out (R12); calls the real constructor
pub fn result_name_vec(n: usize) -> (r: Vec<Ident>)
    ensures r@.len() == n, forall|i: int| 0 <= i < n ==> (#[trigger] r@[i]).name() =~= construct_result_name_spec(i as usize),
{
    let mut v: Vec<Ident> = Vec::new();
    let mut i: usize = 0;
    while i < n
        invariant i <= n, v@.len() == i, forall|k: int| 0 <= k < i ==> (#[trigger] v@[k]).name() =~= construct_result_name_spec(k as usize),
        decreases n - i,
    {
        v.push(construct_result_name(i));
        i += 1;
    }
    v
}

// ---------------------------------------------------------------- C04: the step destructuring (extract_results_tuple with a step)

/// the names of the branches still active in `step`, in branch order
pub open spec fn filter_active<T>(vars: Seq<T>, depths: Seq<usize>, step: int, upto: int) -> Seq<T>
    decreases upto
{
    if upto <= 0 { Seq::<T>::empty() }
    else {
        filter_active(vars, depths, step, upto - 1)
            + if depths[upto - 1] > step { seq![vars[upto - 1]] } else { Seq::<T>::empty() }
    }
}

/// `v` holds references to exactly the elements of `s`, in order
pub open spec fn refs_of<T>(v: Seq<&T>, s: Seq<T>) -> bool {
    v.len() == s.len() && forall|j: int| 0 <= j < v.len() ==> *(#[trigger] v[j]) == s[j]
}

pub proof fn lemma_refs_toks<T: ToTokens>(v: Seq<&T>, s: Seq<T>, sep: char)
    requires refs_of(v, s),
    ensures seq_toks_sep(v, sep) == seq_toks_sep(s, sep), all_tokenizable(s) ==> all_tokenizable(v),
    decreases v.len(),
{
    if v.len() > 1 {
        assert(refs_of(v.drop_last(), s.drop_last()));
        lemma_refs_toks(v.drop_last(), s.drop_last(), sep);
    }
    if all_tokenizable(s) {
        assert forall|j: int| 0 <= j < v.len() implies (#[trigger] v[j]).tokenizable() by { assert(s[j].tokenizable()); }
    }
}

pub proof fn lemma_filter_tokenizable<T: ToTokens>(vars: Seq<T>, depths: Seq<usize>, step: int, upto: int)
    requires all_tokenizable(vars), 0 <= upto <= vars.len(),
    ensures all_tokenizable(filter_active(vars, depths, step, upto)),
    decreases upto,
{
    if upto > 0 { lemma_filter_tokenizable(vars, depths, step, upto - 1); }
}

/// what `extract_results_tuple(rs, names, handler, Some(step))` prints: only the active branches are destructured
pub open spec fn extract_step(rs: Seq<Tok>, active_names: Seq<Tok>, all_names: Seq<Tok>, handler: Option<&Ident>) -> Seq<Tok> {
    match handler {
        None => let_tuple(active_names, rs),
        Some(h) => group(Delim::Brace, let_tuple(active_names, rs) + h.toks() + group(Delim::Paren, all_names)),
    }
}

// ---------------------------------------------------------------- C05/C13: the results transposer

/// `x . m ( | x | body )`
pub open spec fn bind_toks(x: Seq<Tok>, m: Seq<char>, body: Seq<Tok>) -> Seq<Tok> {
    x + seq![Tok::Punct('.'), Tok::Ident(m)] + group(Delim::Paren, seq![Tok::Punct('|')] + x + seq![Tok::Punct('|')] + body)
}

/// `r_k.and_then(|r_k| r_{k+1}.and_then(|r_{k+1}| ... r_{n-1}.map(|r_{n-1}| ret)))`: branch k is examined before every
/// later branch, so the failure that comes out is the one of the lowest-numbered failing branch, and `ret` (the tuple
/// of ALL values) is reached only if every branch succeeded
pub open spec fn transposer_toks<T: ToTokens>(vars: Seq<T>, ret: Seq<Tok>, k: int) -> Seq<Tok>
    decreases vars.len() - k
{
    if k < 0 || k >= vars.len() { Seq::<Tok>::empty() }
    else if k == vars.len() - 1 { bind_toks(vars[k].toks(), "map"@, ret) }
    else { bind_toks(vars[k].toks(), "and_then"@, transposer_toks(vars, ret, k + 1)) }
}

/// one step of the reversed fold
pub open spec fn transposer_step<T: ToTokens>(acc: Option<TokenStream>, var: T, ret: Seq<Tok>, r: Option<TokenStream>) -> bool {
    r is Some && r->0@ == match acc {
        None => bind_toks(var.toks(), "map"@, ret),
        Some(a) => bind_toks(var.toks(), "and_then"@, a@),
    }
}
