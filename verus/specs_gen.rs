// ======================================================================================
// specs for the generator functions of join_output.rs (hand-written, from C01/C02/C04/C13)
// ======================================================================================

/// number of branches still active in `step` (depth > step)
pub open spec fn count_active(depths: Seq<usize>, step: int) -> int
    decreases depths.len()
{
    if depths.len() == 0 { 0 } else { count_active(depths.drop_last(), step) + if depths.last() > step { 1int } else { 0int } }
}

/// C04: `name . k` iff more than one branch is active in the step, else `name`
pub open spec fn indexed_name(name: Seq<Tok>, active: int, k: usize) -> Seq<Tok> {
    if active > 1 { name + seq![Tok::Punct('.'), Tok::Lit(dec(k as nat))] } else { name }
}

/// `{ v }` (sync) / `async move { v }` (async)
pub open spec fn value_block(is_async: bool, v: Seq<Tok>) -> Seq<Tok> {
    if is_async { seq![Tok::Ident("async"@), Tok::Ident("move"@)] + group(Delim::Brace, v) } else { group(Delim::Brace, v) }
}

/// C01: what one process operator applied to the previous value `prev` expands to
pub open spec fn expanded(is_async: bool, prev: Seq<Tok>, e: ProcessExpr) -> Seq<Tok> {
    match e {
        // `->`: call-with-value
        ProcessExpr::Then(_) => call_with_value_toks(e.toks(), prev),
        // `??`: value passed through unchanged, callback sees it by reference:
        //   async: FutureExt::inspect; sync: the `__inspect(callback, value)` helper
        ProcessExpr::Inspect(a) => if is_async {
            prev + call_toks("inspect"@, a@[0].toks())
        } else {
            seq![Tok::Ident(construct_inspect_fn_name_spec())] + group(Delim::Paren, a@[0].toks() + comma() + prev)
        },
        // every other operator: the documented method call appended to the previous value
        _ => prev + e.toks(),
    }
}
