// ======================================================================================
// parse_until: externals and the well-formedness of the ActionGroup it produces (C02)
// ======================================================================================

impl GroupDeterminer {
    pub uninterp spec fn comb(&self) -> Option<Combinator>;

    #[verifier::external_body]
    pub fn combinator(&self) -> (r: Option<Combinator>) ensures r == self.comb(), { unimplemented!() }
    /// opaque: whether the next tokens are this determiner's pattern
    #[verifier::external_body]
    pub fn check_input(&self, input: ParseStream<'_>) -> (r: bool) { unimplemented!() }
    #[verifier::external_body]
    pub fn erase_input<'b>(&self, input: ParseStream<'b>) -> (r: syn::Result<ParseStream<'b>>) { unimplemented!() }
}

impl ParseBuffer {
    #[verifier::external_body]
    pub fn fork(&self) -> (r: ParseBuffer) { unimplemented!() }
}

#[verifier::external_body]
pub fn parse2<T: Parse>(tokens: TokenStream) -> (r: syn::Result<T>) { unimplemented!() }

pub open spec fn mk_group(c: Combinator, deferred: bool, wrap: bool) -> ActionGroup {
    ActionGroup {
        combinator: c,
        application_type: if deferred { ApplicationType::Deferred } else { ApplicationType::Instant },
        move_type: if wrap { MoveType::Wrap } else if c == Combinator::UNWRAP { MoveType::Unwrap } else { MoveType::None },
    }
}
pub open spec fn next_group(c: Option<Combinator>, deferred: bool, wrap: bool) -> Option<ActionGroup> {
    match c { Some(x) => Some(mk_group(x, deferred, wrap)), None => None }
}
