// ======================================================================================
// parse_until: externals and the well-formedness of the ActionGroup it produces (C02)
// ======================================================================================

/// syn can parse `ts` as a T (`syn::parse2::<T>(ts).is_ok()`)
pub uninterp spec fn valid_stream<T>(ts: Seq<Tok>) -> bool;

impl GroupDeterminer {
    pub open spec fn comb(&self) -> Option<Combinator> { self.combinator }

    /// whether the next tokens of `input` are this determiner's pattern.  A pure function of the stream reference: valid
    /// between two consuming calls only (syn's cursor sits behind a Cell) - see the note at `scan_step`
    pub uninterp spec fn matches(&self, input: &ParseBuffer) -> bool;
    /// C14: `ts` is a COMPLETE operand of type T for this determiner: syn can parse it as a T (the determiners that do
    /// not validate - none of the default table - accept anything)
    pub open spec fn parsed_ok<T>(&self, ts: Seq<Tok>) -> bool { !self.validate_parsed || valid_stream::<T>(ts) }
    #[verifier::external_body]
    pub fn check_input(&self, input: ParseStream<'_>) -> (r: bool) ensures r == self.matches(input), { unimplemented!() }
}

/// `proc_macro2::TokenTree` (only ever parsed and dropped / re-printed here)
#[verifier::external_body]
pub struct TokenTree { _p: () }
impl Parse for TokenTree {}
impl TokenTree { pub uninterp spec fn tt_toks(&self) -> Seq<Tok>; }
impl ToTokens for TokenTree {
    open spec fn toks(&self) -> Seq<Tok> { self.tt_toks() }
    open spec fn tokenizable(&self) -> bool { true }
    #[verifier::external_body]
    fn to_tokens(&self, output: &mut TokenStream) { unimplemented!() }
}

impl ParseBuffer {
    #[verifier::external_body]
    pub fn fork(&self) -> (r: ParseBuffer) { unimplemented!() }
}

#[verifier::external_body]
pub fn parse2<T: Parse>(tokens: TokenStream) -> (r: syn::Result<T>) ensures (r is Ok) == valid_stream::<T>(tokens@), { unimplemented!() }
pub mod syn_fns { }

pub open spec fn mk_group(c: Combinator, deferred: bool, wrap: bool) -> ActionGroup {
    ActionGroup {
        combinator: c,
        application_type: if deferred { ApplicationType::Deferred } else { ApplicationType::Instant },
        move_type: if wrap { MoveType::Wrap } else if c == Combinator::UNWRAP { MoveType::Unwrap } else { MoveType::None },
    }
}
pub open spec fn next_group(c: Option<Combinator>, deferred: bool, wrap: bool) -> Option<ActionGroup> {
    match c { Some(x) => Some(mk_group(x, deferred, wrap)), None => None }
}

// ---------------------------------------------------------------- parse_until: one evaluation of the scan condition (C14)

/// k is the FIRST row of the determiner table (in table order) whose pattern stands at the current position
pub open spec fn is_first_match(ds: Seq<GroupDeterminer>, input: &ParseBuffer, k: int) -> bool {
    0 <= k < ds.len() && ds[k].matches(input) && forall|j: int| 0 <= j < k ==> !(#[trigger] ds[j]).matches(input)
}
pub open spec fn no_match(ds: Seq<GroupDeterminer>, input: &ParseBuffer) -> bool {
    forall|j: int| 0 <= j < ds.len() ==> !(#[trigger] ds[j]).matches(input)
}
/// the operand in front of the operator is complete (or empty where an empty operand is allowed)
pub open spec fn unit_end_ok<T>(d: GroupDeterminer, ts: Seq<Tok>, allow_empty: bool) -> bool {
    (ts.len() == 0 && allow_empty) || d.parsed_ok::<T>(ts)
}
/// marker type that carries the lifted pieces of the free function `parse_until`
pub struct ParseUntil { _p: () }

impl ParseUntil {
    /// call-out twin of `scan_step` for the WHOLE-function proof of `parse_until`: its verified contract MINUS the peek
    /// clauses (weaker, hence sound to assume; across loop iterations the stream changes, so peeks have no meaning there)
    #[verifier::external_body]
    pub fn scan_step_w<'a, 'b, T: Parse>(input: ParseStream<'b>, group_determiners: &'a [GroupDeterminer], deferred_determiner: &'a GroupDeterminer,
        allow_empty_parsed: bool, tokens: &TokenStream, deferred: bool, next: Option<&'a GroupDeterminer>) -> (r: syn::Result<(bool, bool, Option<&'a GroupDeterminer>)>)
        ensures
            r is Ok && !(r->Ok_0).0 ==> (r->Ok_0).2 == next,
            r is Ok && (r->Ok_0).0 ==> (r->Ok_0).2 is Some,
            r is Ok && (r->Ok_0).1 ==> (r->Ok_0).0 && (r->Ok_0).2 is Some && (r->Ok_0).2->0.comb() is Some,
    { unimplemented!() }
}
