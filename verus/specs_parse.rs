// ======================================================================================
// parse_until: externals and the well-formedness of the ActionGroup it produces (C02)
// ======================================================================================

impl GroupDeterminer {
    pub uninterp spec fn comb(&self) -> Option<Combinator>;

    #[verifier::external_body]
    pub fn combinator(&self) -> (r: Option<Combinator>) ensures r == self.comb(), { unimplemented!() }
    /// opaque: whether the next tokens are this determiner's pattern
    #[verifier::external_body]
    pub fn check_input(&self, input: ParseStream<'_>) -> (r: bool) { unimplemented!() }
    #[verifier::external_body]
    pub fn erase_input<'b>(&self, input: ParseStream<'b>) -> (r: syn::Result<ParseStream<'b>>) { unimplemented!() }
}

impl ParseBuffer {
    #[verifier::external_body]
    pub fn fork(&self) -> (r: ParseBuffer) { unimplemented!() }
}

#[verifier::external_body]
pub fn parse2<T: Parse>(tokens: TokenStream) -> (r: syn::Result<T>) { unimplemented!() }

/// C02: "`>>>` after a non-wrapper operator or combined with `<<<`" is rejected, so every action the parser
/// produces satisfies: Wrap only on the ten wrapper-capable operators; Unwrap exactly on `<<<`
pub open spec fn group_wf(g: ActionGroup) -> bool {
    &&& (g.move_type == MoveType::Wrap ==> doc_wrapper_meaning(meaning_of_ctor(parse_table(g.combinator).1)) && g.combinator != Combinator::UNWRAP)
    &&& ((g.move_type == MoveType::Unwrap) <==> (g.combinator == Combinator::UNWRAP))
}

/// a Wrap action built by `to_wrapper_action_expr` is a frame the generator's stack accepts
pub proof fn lemma_wrapper_frame(g: ActionGroup, e: ExprGroup<ActionExpr>)
    requires
        group_wf(g), g.move_type == MoveType::Wrap,
        e.expr.ctor_of() == parse_table(g.combinator).1, e.expr.operands().len() == 1,
    ensures e.expr.operands().len() == 1 && !must_not_hoist(e.expr.ctor_of()) && !(e.expr is Initial),
{
}

pub open spec fn mk_group(c: Combinator, deferred: bool, wrap: bool) -> ActionGroup {
    ActionGroup {
        combinator: c,
        application_type: if deferred { ApplicationType::Deferred } else { ApplicationType::Instant },
        move_type: if wrap { MoveType::Wrap } else if c == Combinator::UNWRAP { MoveType::Unwrap } else { MoveType::None },
    }
}
pub open spec fn next_group(c: Option<Combinator>, deferred: bool, wrap: bool) -> Option<ActionGroup> {
    match c { Some(x) => Some(mk_group(x, deferred, wrap)), None => None }
}
