// ======================================================================================
// C02 / C11 / C15 / C17: definition streams, step streams and the wrapper stack (hand-written specs)
// ======================================================================================

pub open spec fn any_block(ops: Seq<Expr>) -> bool {
    exists|k: int| 0 <= k < ops.len() && (#[trigger] ops[k]) is Block
}

pub open spec fn wrapper_name_toks(b: usize, i: usize, k: usize) -> Seq<Tok> {
    seq![Tok::Ident(construct_expr_wrapper_name_spec(b, i, k))]
}

/// `let __ew{b}_{i}_{k} = <operand k> ;`
pub open spec fn def_toks(b: usize, i: usize, k: usize, operand: Seq<Tok>) -> Seq<Tok> {
    seq![Tok::Ident("let"@)] + wrapper_name_toks(b, i, k) + seq![Tok::Punct('=')] + operand + seq![Tok::Punct(';')]
}

/// C11: one definition per block operand, in operand order (both operands of fold / try_fold)
pub open spec fn defs_toks(ops: Seq<Expr>, b: usize, i: usize, upto: int) -> Seq<Tok>
    decreases upto
{
    if upto <= 0 { Seq::<Tok>::empty() }
    else {
        defs_toks(ops, b, i, upto - 1)
            + if ops[upto - 1] is Block { def_toks(b, i, (upto - 1) as usize, ops[upto - 1].toks()) } else { Seq::<Tok>::empty() }
    }
}

/// tokens the k-th operand is printed with after hoisting
pub open spec fn replaced_toks(ops: Seq<Expr>, b: usize, i: usize, k: int) -> Seq<Tok> {
    if ops[k] is Block { wrapper_name_toks(b, i, k as usize) } else { ops[k].toks() }
}

/// `x` is `e` with every block operand replaced by the name it was hoisted under (C10/C11/C17): the same operator,
/// the same number of operands, the other operands spelled as before
pub open spec fn hoisted_form<E: InnerExpr>(e: E, x: E, b: usize, i: usize) -> bool {
    let ops = e.operands();
    &&& any_block(ops)
    &&& x.ctor_of() == e.ctor_of()
    &&& x.operands().len() == ops.len()
    &&& forall|k: int| 0 <= k < ops.len() ==> (#[trigger] x.operands()[k]).toks() == replaced_toks(ops, b, i, k) && !(x.operands()[k] is Block)
}

/// contract of `separate_block_expr` (VERIFIED in module `sep` for its three instantiations): either it answers
/// (None, None) and the expression is printed as it is, or it answers the definitions of ALL block operands, in operand
/// order, each named by (branch, action, operand index), together with the hoisted form of the expression
pub open spec fn sep_ok_obs<E: InnerExpr>(e: E, b: usize, i: usize, r: (Option<TokenStream>, Option<E>)) -> bool {
    let ops = e.operands();
    if r.0 is Some {
        &&& r.0->0@ == defs_toks(ops, b, i, ops.len() as int)
        &&& r.1 is Some
        &&& hoisted_form(e, r.1->0, b, i)
    } else {
        r.1 is None
    }
}

pub open spec fn opt_view(o: Option<TokenStream>) -> Option<Seq<Tok>> {
    match o { Some(t) => Some(t@), None => None }
}

/// definitions accumulate in order: previous ones first (C11: branch-then-position order)
pub open spec fn opt_append(prev: Option<Seq<Tok>>, next: Option<Seq<Tok>>) -> Option<Seq<Tok>> {
    match prev {
        Some(p) => Some(p + match next { Some(n) => n, None => Seq::<Tok>::empty() }),
        None => next,
    }
}

/// Rust precedence: expression kinds that bind looser than a method call / field access
pub open spec fn low_prec(e: Expr) -> bool {
    e is Assign || e is AssignOp || e is Binary || e is Box || e is Break || e is Cast || e is Closure
        || e is Range || e is Reference || e is Return || e is Type || e is Unary || e is Yield
}

/// what one action appends to the step stream of its branch (C01), given the expression actually printed
pub open spec fn step_toks(is_async: bool, prev: Seq<Tok>, e: ActionExpr) -> Seq<Tok> {
    match e {
        ActionExpr::Process(p) => expanded(is_async, prev, p),
        ActionExpr::Err(x) => prev + x.toks(),
        // the initial value starts the chain; parenthesised when it binds looser than `.method()` (fix 0941b1e)
        ActionExpr::Initial(x) => if low_prec(initial_operands(x)[0]) { group(Delim::Paren, x.toks()) } else { x.toks() },
    }
}

/// `x` is what the action `e` at (branch b, position i) is printed as: `e` itself, or its hoisted form
pub open spec fn printed_as(e: ActionExpr, x: ActionExpr, b: usize, i: usize) -> bool {
    x == e || match (e, x) {
        (ActionExpr::Process(p), ActionExpr::Process(q)) => hoisted_form(p, q, b, i),
        (ActionExpr::Err(p), ActionExpr::Err(q)) => hoisted_form(p, q, b, i),
        (ActionExpr::Initial(p), ActionExpr::Initial(q)) => hoisted_form(p, q, b, i),
        _ => false,
    }
}

/// the definitions an action contributes, given what it was printed as
pub open spec fn defs_of(e: ActionExpr, x: ActionExpr, b: usize, i: usize) -> Option<Seq<Tok>> {
    if x == e { None } else { Some(defs_toks(e.operands(), b, i, e.operands().len() as int)) }
}

/// C11: an action whose block operands MUST be hoisted: `<|`, `<=`, the initial value, and every `ProcessExpr`
/// that takes expression operands and is not member access
pub open spec fn hoists(e: ActionExpr) -> bool {
    any_block(e.operands()) && match e {
        ActionExpr::Process(p) => must_hoist(p.ctor_of(), p.operands().len() as int),
        _ => true,
    }
}

/// one action against the definition stream and the step stream (C01/C10/C11/C17)
pub open spec fn gdss_ok(is_async: bool, prev_def: Option<Seq<Tok>>, prev_step: Seq<Tok>, e: ActionExpr, b: usize, i: usize,
                         x: ActionExpr, r: (Option<TokenStream>, TokenStream)) -> bool {
    &&& (hoists(e) ==> x != e)
    &&& ((e matches ActionExpr::Process(p) && must_not_hoist(p.ctor_of())) ==> x == e)
    &&& opt_view(r.0) == opt_append(prev_def, defs_of(e, x, b, i))
    &&& r.1@ == step_toks(is_async, prev_step, x)
}

pub open spec fn opt_toks(o: Option<TokenStream>) -> Seq<Tok> {
    match o { Some(t) => t@, None => Seq::<Tok>::empty() }
}

// ---------------------------------------------------------------- the wrapper stack (C02, C15)

/// a recorded wrapper is an operator that can take the inner chain as a closure: one expression
/// operand, not a member access (the ten wrapper-capable operators all have this shape)
pub open spec fn frame_wrapper_ok<'a>(p: ActionExprPos<'a>) -> bool {
    p.expr.expr.operands().len() == 1 && !must_not_hoist(p.expr.expr.ctor_of()) && !(p.expr.expr is Initial)
}

/// representation invariant of `StepAcc::step_streams`: at least one frame; every frame below the top
/// records the wrapper it is waiting for; the top frame records none
pub open spec fn stack_wf<'a>(st: Seq<(TokenStream, Option<ActionExprPos<'a>>)>) -> bool {
    &&& st.len() >= 1
    &&& st.last().1 is None
    &&& forall|k: int| 0 <= k < st.len() - 1 ==> (#[trigger] st[k]).1 is Some && frame_wrapper_ok(st[k].1->0)
}

/// C01 at token level for operators with exactly one expression operand
pub open spec fn step_toks1(is_async: bool, prev: Seq<Tok>, c: Ctor, operand: Seq<Tok>) -> Seq<Tok> {
    match meaning_of_ctor(c) {
        DocMeaning::Method1(m) => prev + call_toks(method_name(m), operand),
        DocMeaning::CallWithValue => call_with_value_toks(callee_block(qi_ProcessExpr_to_tokens()[0], operand), prev),
        DocMeaning::Inspect => if is_async { prev + call_toks("inspect"@, operand) }
            else { seq![Tok::Ident(construct_inspect_fn_name_spec())] + group(Delim::Paren, operand + comma() + prev) },
        DocMeaning::Member => prev + seq![Tok::Punct('.')] + operand,
        _ => Seq::<Tok>::empty(),
    }
}

/// C02: `X >>> inner <<<` is `.x(|v| v inner)`: the recorded wrapper X applied to the closure whose body is the
/// inner chain (which starts from the placeholder value v)
pub open spec fn spliced(is_async: bool, cur: Seq<Tok>, wrapper: Ctor, inner: Seq<Tok>) -> Seq<Tok> {
    step_toks1(is_async, cur, wrapper, closure_toks(construct_internal_value_name_spec(), inner))
}

pub broadcast proof fn lemma_step_toks1(is_async: bool, prev: Seq<Tok>, e: ActionExpr)
    requires e.operands().len() == 1, !must_not_hoist(e.ctor_of()), !(e is Initial),
    ensures #[trigger] step_toks(is_async, prev, e) == step_toks1(is_async, prev, e.ctor_of(), e.operands()[0].toks()),
{
    match e {
        ActionExpr::Process(p) => {
            assert(step_toks(is_async, prev, e) =~= step_toks1(is_async, prev, e.ctor_of(), e.operands()[0].toks()));
        }
        ActionExpr::Err(x) => {
            assert(step_toks(is_async, prev, e) =~= step_toks1(is_async, prev, e.ctor_of(), e.operands()[0].toks()));
        }
        ActionExpr::Initial(x) => {}
    }
}

/// an expression without block operands is printed as it is (nothing to hoist)
pub broadcast proof fn lemma_not_hoisted(e: ActionExpr, x: ActionExpr, b: usize, i: usize)
    requires #[trigger] printed_as(e, x, b, i), !any_block(e.operands()),
    ensures x == e,
{
}

/// the top of the stack after closing the innermost wrapper
pub open spec fn wrapped_top<'a>(is_async: bool, st: Seq<(TokenStream, Option<ActionExprPos<'a>>)>) -> Seq<Tok> {
    spliced(is_async, st[st.len() - 2].0@, st[st.len() - 2].1->0.expr.expr.ctor_of(), st[st.len() - 1].0@)
}

// ---------------------------------------------------------------- one branch of one step (generate_step, R15)

/// number of wrappers open after the first n actions of a step
pub open spec fn wdepth<'a>(acts: Seq<&'a ExprGroup<ActionExpr>>, n: int) -> int
    decreases n
{
    if n <= 0 { 0 }
    else {
        wdepth(acts, n - 1) + match acts[n - 1].action.move_type { MoveType::Wrap => 1int, MoveType::Unwrap => -1int, MoveType::None => 0int }
    }
}

/// what the parser guarantees about the actions of one step of one branch (builder: `balanced`; parser: `group_wf`,
/// `lemma_wrapper_frame`): a `<<<` only closes a `>>>` of the same step, a `>>>` sits on a wrapper-capable operator,
/// everything else is printable
pub open spec fn step_acts_ok<'a>(acts: Seq<&'a ExprGroup<ActionExpr>>) -> bool {
    &&& forall|n: int| 0 <= n <= acts.len() ==> #[trigger] wdepth(acts, n) >= 0
    &&& forall|k: int| 0 <= k < acts.len() ==> match (#[trigger] acts[k]).action.move_type {
            MoveType::Wrap => acts[k].expr.operands().len() == 1 && !must_not_hoist(acts[k].expr.ctor_of()) && !(acts[k].expr is Initial),
            MoveType::Unwrap => true,
            MoveType::None => printable(acts[k].expr),
        }
}

pub proof fn lemma_wdepth_step<'a>(acts: Seq<&'a ExprGroup<ActionExpr>>, n: int)
    requires step_acts_ok(acts), 0 <= n < acts.len(),
    ensures
        wdepth(acts, n + 1) == wdepth(acts, n) + match acts[n].action.move_type { MoveType::Wrap => 1int, MoveType::Unwrap => -1int, MoveType::None => 0int },
        wdepth(acts, n + 1) >= 0, wdepth(acts, n) >= 0,
{
    assert(wdepth(acts, n + 1) >= 0);
    assert(wdepth(acts, n) >= 0);
}

/// invariant of the fold over a step's actions: the stack is well formed and as deep as the open wrappers
pub open spec fn frame_inv<'a>(st: Seq<(TokenStream, Option<ActionExprPos<'a>>)>, acts: Seq<&'a ExprGroup<ActionExpr>>, n: int) -> bool {
    stack_wf(st) && st.len() == 1 + wdepth(acts, n)
}

// ---------------------------------------------------------------- C03: where a step begins (JoinOutput::new, R15)

pub open spec fn deep<'a>(v: Seq<Vec<&'a ExprGroup<ActionExpr>>>) -> Seq<Seq<&'a ExprGroup<ActionExpr>>> {
    Seq::new(v.len(), |i: int| v[i]@)
}

/// the steps of a branch: a new step begins at every member carrying the `~` mark (Deferred), and nowhere else;
/// members keep their order
pub open spec fn split_steps<'a>(ms: Seq<ExprGroup<ActionExpr>>, n: int) -> Seq<Seq<&'a ExprGroup<ActionExpr>>>
    decreases n
{
    if n <= 0 { seq![Seq::<&'a ExprGroup<ActionExpr>>::empty()] }
    else {
        let prev = split_steps(ms, n - 1);
        if ms[n - 1].action.application_type == ApplicationType::Deferred { prev.push(seq![&ms[n - 1]]) }
        else { prev.update(prev.len() - 1, prev.last().push(&ms[n - 1])) }
    }
}

pub proof fn lemma_split_nonempty(ms: Seq<ExprGroup<ActionExpr>>, n: int)
    requires 0 <= n,
    ensures split_steps(ms, n).len() >= 1, split_steps(ms, n).len() <= n + 1,
    decreases n,
{
    if n > 0 { lemma_split_nonempty(ms, n - 1); }
}

// ---------------------------------------------------------------- how one branch of a step is started (C07 / C08 / C09 / C16)

pub open spec fn is_toks(c: Seq<Tok>) -> bool { true }

/// `move || chain` iff the branches are lazy
pub open spec fn lazy_wrap(lazy: bool, chain: Seq<Tok>) -> Seq<Tok> {
    if lazy { Seq::<Tok>::empty().push(Tok::Ident("move"@)).push(Tok::Punct('|')).push(Tok::Punct('|')) + chain } else { chain }
}

/// a branch of a step with ONE active branch is the bare chain (runs on the caller); with several active branches it is
/// the (possibly lazy) chain, handed - in the spawning kinds - exactly once to the branch's OWN thread builder
/// `__join_thread_builder_{branch_index}.spawn(..).unwrap()` resp. to the tokio helper `(Box::pin(..))`
pub open spec fn spawn_wrap(lazy: bool, is_spawn: bool, is_async: bool, multi: bool, branch_index: usize, chain: Seq<Tok>) -> Seq<Tok> {
    if !multi { chain } else {
        let c = lazy_wrap(lazy, chain);
        if !is_spawn { c }
        else if is_async {
            Seq::<Tok>::empty() + group(Delim::Brace,
                (Seq::<Tok>::empty() + seq![Tok::Ident(construct_spawn_tokio_fn_name_spec())])
                + group(Delim::Paren, Seq::<Tok>::empty().push(Tok::Ident("Box"@)).push(Tok::Punct(':')).push(Tok::Punct(':')).push(Tok::Ident("pin"@))
                    + group(Delim::Paren, Seq::<Tok>::empty() + c)))
        } else {
            Seq::<Tok>::empty() + group(Delim::Brace,
                (((Seq::<Tok>::empty() + seq![Tok::Ident(construct_thread_builder_name_spec(branch_index))]).push(Tok::Punct('.')).push(Tok::Ident("spawn"@))
                    + group(Delim::Paren, Seq::<Tok>::empty() + c)).push(Tok::Punct('.')).push(Tok::Ident("unwrap"@)))
                + group(Delim::Paren, Seq::<Tok>::empty()))
        }
    }
}

#[verifier::opaque]
pub open spec fn started_as(t: Seq<Tok>, lazy: bool, is_spawn: bool, is_async: bool, multi: bool, b: usize) -> bool {
    exists|c: Seq<Tok>| #[trigger] is_toks(c) && t == spawn_wrap(lazy, is_spawn, is_async, multi, b, c)
}

/// `step_acts_ok`, hidden: `generate_step` only passes it on to `generate_step_branch`
#[verifier::opaque]
pub open spec fn acts_ok_o<'a>(acts: Seq<&'a ExprGroup<ActionExpr>>) -> bool { step_acts_ok(acts) }

/// what the generator needs to know about one branch as the parser hands it over: every step the split produces has at
/// least one action and is a step the parser can produce.  PROVED from the postcondition of `build_from_parse_stream`
/// (`balanced` + `members_ok`) by `lemma_accepted_branch` (module `gen`).
pub open spec fn branch_steps_ok(ms: Seq<ExprGroup<ActionExpr>>) -> bool {
    forall|s: int| 0 <= s < split_steps(ms, ms.len() as int).len() ==>
        (#[trigger] split_steps(ms, ms.len() as int)[s]).len() > 0 && acts_ok_o(split_steps(ms, ms.len() as int)[s])
}

/// what `JoinOutput::new` establishes about `chains` (its step split is verified as `split_branch_steps`; that the
/// fields are filled from it is read off the code, see assumptions): `chains[b]` has `depths[b]` steps, every step has
/// at least one action and is something the parser can produce
pub open spec fn chains_wf_f<'a>(branch_count: usize, depths: Seq<usize>, chains: Seq<Vec<Vec<&'a ExprGroup<ActionExpr>>>>) -> bool {
    &&& chains.len() == branch_count
    &&& depths.len() == branch_count
    &&& forall|b: int| 0 <= b < branch_count ==> (#[trigger] chains[b])@.len() == depths[b]
    &&& forall|b: int, s: int| 0 <= b < branch_count && 0 <= s < depths[b] ==> (#[trigger] chains[b]@[s])@.len() > 0 && acts_ok_o(chains[b]@[s]@)
}
pub open spec fn chains_wf(jo: JoinOutput) -> bool { chains_wf_f(jo.branch_count, jo.depths@, jo.chains@) }

/// position of branch `b` among the branches active in `step` (hidden: the proofs below only need its two lemmas)
#[verifier::opaque]
pub open spec fn apos(depths: Seq<usize>, step: int, b: int) -> int { count_active(depths.take(b), step) }

pub proof fn lemma_apos_step(depths: Seq<usize>, step: int, i: int)
    requires 0 <= i < depths.len(),
    ensures apos(depths, step, i + 1) == apos(depths, step, i) + if depths[i] > step { 1int } else { 0int },
            apos(depths, step, i) >= 0,
    decreases i
{
    reveal(apos);
    assert(depths.take(i + 1).drop_last() =~= depths.take(i));
    assert(depths.take(i + 1).last() == depths[i]);
    if i > 0 { lemma_apos_step(depths, step, i - 1); } else { assert(depths.take(0).len() == 0); }
}

pub proof fn lemma_apos_ends(depths: Seq<usize>, step: int)
    ensures apos(depths, step, 0) == 0, apos(depths, step, depths.len() as int) == count_active(depths, step),
{
    reveal(apos);
    assert(depths.take(0).len() == 0);
    assert(depths.take(depths.len() as int) =~= depths);
}

/// C03 / C04 / C09: the streams of a step, looking at the first `upto` branches: one per branch ACTIVE in the step, in
/// branch order (branch b sits at position apos(b)), each started as `spawn_wrap` says for ITS OWN branch index
pub open spec fn step_streams_ok(ds: Seq<Option<TokenStream>>, ss: Seq<TokenStream>, jo: JoinOutput, step: int, is_async: bool, is_spawn: bool, upto: int) -> bool {
    &&& ds.len() == ss.len()
    &&& ss.len() == apos(jo.depths@, step, upto)
    &&& forall|b: int| 0 <= b < upto && jo.depths@[b] > step ==>
            0 <= #[trigger] apos(jo.depths@, step, b) < ss.len()
            && started_as(ss[apos(jo.depths@, step, b)]@, jo.lazy_branches, is_spawn, is_async, count_active(jo.depths@, step) > 1, b as usize)
}
