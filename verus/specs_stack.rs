// ======================================================================================
// C02 / C11 / C15 / C17: definition streams, step streams and the wrapper stack (hand-written specs)
// ======================================================================================

/// whether `separate_block_expr` hoists the operands of this expression (a function of the expression;
/// its meaning for ProcessExpr is pinned by V-C11a on `is_replaceable`)
pub uninterp spec fn hoist_decision<E: InnerExpr>(e: E) -> bool;
/// the expression `separate_block_expr` hands back with the hoisted operands replaced
pub uninterp spec fn sep_replaced<E: InnerExpr>(e: E, b: usize, i: usize) -> E;

pub open spec fn any_block(ops: Seq<Expr>) -> bool {
    exists|k: int| 0 <= k < ops.len() && (#[trigger] ops[k]) is Block
}

pub open spec fn wrapper_name_toks(b: usize, i: usize, k: usize) -> Seq<Tok> {
    seq![Tok::Ident(construct_expr_wrapper_name_spec(b, i, k))]
}

/// `let __ew{b}_{i}_{k} = <operand k> ;`
pub open spec fn def_toks(b: usize, i: usize, k: usize, operand: Seq<Tok>) -> Seq<Tok> {
    seq![Tok::Ident("let"@)] + wrapper_name_toks(b, i, k) + seq![Tok::Punct('=')] + operand + seq![Tok::Punct(';')]
}

/// C11: one definition per block operand, in operand order (both operands of fold / try_fold)
pub open spec fn defs_toks(ops: Seq<Expr>, b: usize, i: usize, upto: int) -> Seq<Tok>
    decreases upto
{
    if upto <= 0 { Seq::<Tok>::empty() }
    else {
        defs_toks(ops, b, i, upto - 1)
            + if ops[upto - 1] is Block { def_toks(b, i, (upto - 1) as usize, ops[upto - 1].toks()) } else { Seq::<Tok>::empty() }
    }
}

pub open spec fn hoisted<E: InnerExpr>(e: E) -> bool { hoist_decision(e) && any_block(e.operands()) }

/// contract of `separate_block_expr` (ASSUMED: enumerate/fold/unzip are outside Verus; exercised by K-C11/K-C17)
pub open spec fn sep_ok<E: InnerExpr>(e: E, b: usize, i: usize, r: (Option<TokenStream>, Option<E>)) -> bool {
    let ops = e.operands();
    if hoisted(e) {
        &&& r.0 is Some && r.0->0@ == defs_toks(ops, b, i, ops.len() as int)
        &&& r.1 == Some(sep_replaced(e, b, i))
        &&& sep_replaced(e, b, i).ctor_of() == e.ctor_of()
        &&& sep_replaced(e, b, i).operands().len() == ops.len()
        &&& forall|k: int| 0 <= k < ops.len() ==> (#[trigger] sep_replaced(e, b, i).operands()[k]).toks()
                == if ops[k] is Block { wrapper_name_toks(b, i, k as usize) } else { ops[k].toks() }
    } else {
        r.0 is None && r.1 is None
    }
}

pub open spec fn opt_view(o: Option<TokenStream>) -> Option<Seq<Tok>> {
    match o { Some(t) => Some(t@), None => None }
}

/// definitions accumulate in order: previous ones first (C11: branch-then-position order)
pub open spec fn opt_append(prev: Option<Seq<Tok>>, next: Option<Seq<Tok>>) -> Option<Seq<Tok>> {
    match prev {
        Some(p) => Some(p + match next { Some(n) => n, None => Seq::<Tok>::empty() }),
        None => next,
    }
}

/// Rust precedence: expression kinds that bind looser than a method call / field access
pub open spec fn low_prec(e: Expr) -> bool {
    e is Assign || e is AssignOp || e is Binary || e is Box || e is Break || e is Cast || e is Closure
        || e is Range || e is Reference || e is Return || e is Type || e is Unary || e is Yield
}

/// what one action appends to the step stream of its branch (C01), given the expression actually printed
pub open spec fn step_toks(is_async: bool, prev: Seq<Tok>, e: ActionExpr) -> Seq<Tok> {
    match e {
        ActionExpr::Process(p) => expanded(is_async, prev, p),
        ActionExpr::Err(x) => prev + x.toks(),
        // the initial value starts the chain; parenthesised when it binds looser than `.method()` (fix 0941b1e)
        ActionExpr::Initial(x) => if low_prec(initial_operands(x)[0]) { group(Delim::Paren, x.toks()) } else { x.toks() },
    }
}

pub open spec fn printed(e: ActionExpr, b: usize, i: usize) -> ActionExpr {
    match e {
        ActionExpr::Process(p) => ActionExpr::Process(if hoisted(p) { sep_replaced(p, b, i) } else { p }),
        ActionExpr::Err(x) => ActionExpr::Err(if hoisted(x) { sep_replaced(x, b, i) } else { x }),
        ActionExpr::Initial(x) => ActionExpr::Initial(if hoisted(x) { sep_replaced(x, b, i) } else { x }),
    }
}

pub open spec fn action_defs(e: ActionExpr, b: usize, i: usize) -> Option<Seq<Tok>> {
    match e {
        ActionExpr::Process(p) => if hoisted(p) { Some(defs_toks(p.operands(), b, i, p.operands().len() as int)) } else { None },
        ActionExpr::Err(x) => if hoisted(x) { Some(defs_toks(x.operands(), b, i, x.operands().len() as int)) } else { None },
        ActionExpr::Initial(x) => if hoisted(x) { Some(defs_toks(x.operands(), b, i, x.operands().len() as int)) } else { None },
    }
}

/// an action the generator can print: everything but a bare `<<<`
pub open spec fn printable(e: ActionExpr) -> bool {
    !(e matches ActionExpr::Process(p) && p is UNWRAP)
}

pub open spec fn opt_toks(o: Option<TokenStream>) -> Seq<Tok> {
    match o { Some(t) => t@, None => Seq::<Tok>::empty() }
}

// ---------------------------------------------------------------- the wrapper stack (C02, C15)

/// a recorded wrapper is an operator that can take the inner chain as a closure: one expression
/// operand, not a member access (the ten wrapper-capable operators all have this shape)
pub open spec fn frame_wrapper_ok<'a>(p: ActionExprPos<'a>) -> bool {
    p.expr.expr.operands().len() == 1 && !must_not_hoist(p.expr.expr.ctor_of())
}

/// representation invariant of `StepAcc::step_streams`: at least one frame; every frame below the top
/// records the wrapper it is waiting for; the top frame records none
pub open spec fn stack_wf<'a>(st: Seq<(TokenStream, Option<ActionExprPos<'a>>)>) -> bool {
    &&& st.len() >= 1
    &&& st.last().1 is None
    &&& forall|k: int| 0 <= k < st.len() - 1 ==> (#[trigger] st[k]).1 is Some && frame_wrapper_ok(st[k].1->0)
}

/// C01 at token level for operators with exactly one expression operand
pub open spec fn step_toks1(is_async: bool, prev: Seq<Tok>, c: Ctor, operand: Seq<Tok>) -> Seq<Tok> {
    match meaning_of_ctor(c) {
        DocMeaning::Method1(m) => prev + call_toks(method_name(m), operand),
        DocMeaning::CallWithValue => call_with_value_toks(callee_block(qi_ProcessExpr_to_tokens()[0], operand), prev),
        DocMeaning::Inspect => if is_async { prev + call_toks("inspect"@, operand) }
            else { seq![Tok::Ident(construct_inspect_fn_name_spec())] + group(Delim::Paren, operand + comma() + prev) },
        DocMeaning::Member => prev + seq![Tok::Punct('.')] + operand,
        _ => Seq::<Tok>::empty(),
    }
}

/// C02: `X >>> inner <<<` is `.x(|v| v inner)`: the recorded wrapper X applied to the closure whose body is the
/// inner chain (which starts from the placeholder value v)
pub open spec fn spliced(is_async: bool, cur: Seq<Tok>, wrapper: Ctor, inner: Seq<Tok>) -> Seq<Tok> {
    step_toks1(is_async, cur, wrapper, closure_toks(construct_internal_value_name_spec(), inner))
}

pub broadcast proof fn lemma_step_toks1(is_async: bool, prev: Seq<Tok>, e: ActionExpr)
    requires e.operands().len() == 1, !must_not_hoist(e.ctor_of()), !(e is Initial),
    ensures #[trigger] step_toks(is_async, prev, e) == step_toks1(is_async, prev, e.ctor_of(), e.operands()[0].toks()),
{
    match e {
        ActionExpr::Process(p) => {
            assert(step_toks(is_async, prev, e) =~= step_toks1(is_async, prev, e.ctor_of(), e.operands()[0].toks()));
        }
        ActionExpr::Err(x) => {
            assert(step_toks(is_async, prev, e) =~= step_toks1(is_async, prev, e.ctor_of(), e.operands()[0].toks()));
        }
        ActionExpr::Initial(x) => {}
    }
}

/// an expression whose single operand is not a block is printed as it is (nothing to hoist)
pub broadcast proof fn lemma_not_hoisted(e: ActionExpr, b: usize, i: usize)
    requires e.operands().len() == 1, !(e.operands()[0] is Block),
    ensures #[trigger] printed(e, b, i) == e, action_defs(e, b, i) is None,
{
    match e {
        ActionExpr::Process(p) => { assert(!any_block(p.operands())); }
        ActionExpr::Err(x) => { assert(!any_block(x.operands())); }
        ActionExpr::Initial(x) => { assert(!any_block(x.operands())); }
    }
}

/// the top of the stack after closing the innermost wrapper
pub open spec fn wrapped_top<'a>(is_async: bool, st: Seq<(TokenStream, Option<ActionExprPos<'a>>)>) -> Seq<Tok> {
    spliced(is_async, st[st.len() - 2].0@, st[st.len() - 2].1->0.expr.expr.ctor_of(), st[st.len() - 1].0@)
}
