// ======================================================================================
// C15: `<<<` balance per step (hand-written spec)
// ======================================================================================

pub open spec fn groups_of(ms: Seq<ExprGroup<ActionExpr>>) -> Seq<ActionGroup> {
    ms.map_values(|m: ExprGroup<ActionExpr>| m.action)
}

pub open spec fn delta(g: ActionGroup) -> int {
    match g.move_type { MoveType::Wrap => 1, MoveType::Unwrap => -1, MoveType::None => 0 }
}

/// number of wrappers open after the first `n` actions of a branch; wrappers still open at the end of a
/// step are closed there (C02), so a deferred action starts from 0
pub open spec fn balance(gs: Seq<ActionGroup>, n: int) -> int
    decreases n
{
    if n <= 0 { 0 } else {
        (if gs[n - 1].application_type == ApplicationType::Deferred { 0 } else { balance(gs, n - 1) }) + delta(gs[n - 1])
    }
}

/// the balance never goes negative: every `<<<` has a matching `>>>` in the same step
pub open spec fn balanced(gs: Seq<ActionGroup>, n: int) -> bool
    decreases n
{
    if n <= 0 { true } else { balanced(gs, n - 1) && balance(gs, n) >= 0 }
}

pub open spec fn step_with(b: int, g: ActionGroup) -> int {
    (if g.application_type == ApplicationType::Deferred { 0 } else { b }) + delta(g)
}

pub broadcast proof fn lemma_groups_push(ms: Seq<ExprGroup<ActionExpr>>, m: ExprGroup<ActionExpr>)
    ensures #[trigger] groups_of(ms.push(m)) =~= groups_of(ms).push(m.action),
{
}

pub broadcast proof fn lemma_balance_prefix(gs: Seq<ActionGroup>, g: ActionGroup, n: int)
    requires 0 <= n <= gs.len(),
    ensures #[trigger] balance(gs.push(g), n) == balance(gs, n),
    decreases n,
{
    if n > 0 {
        lemma_balance_prefix(gs, g, n - 1);
        assert(gs.push(g)[n - 1] == gs[n - 1]);
    }
}

pub broadcast proof fn lemma_balanced_prefix(gs: Seq<ActionGroup>, g: ActionGroup, n: int)
    requires 0 <= n <= gs.len(),
    ensures #[trigger] balanced(gs.push(g), n) == balanced(gs, n),
    decreases n,
{
    if n > 0 {
        lemma_balanced_prefix(gs, g, n - 1);
        lemma_balance_prefix(gs, g, n);
    }
}

/// what appending one member does to the balance (used as the postcondition of `append_member`)
pub open spec fn append_facts(old_m: Seq<ExprGroup<ActionExpr>>, new_m: Seq<ExprGroup<ActionExpr>>, a: ActionGroup) -> bool {
    let n = old_m.len() as int;
    &&& balance(groups_of(new_m), n + 1) == step_with(balance(groups_of(old_m), n), a)
    &&& balanced(groups_of(new_m), n + 1) == (balanced(groups_of(old_m), n) && step_with(balance(groups_of(old_m), n), a) >= 0)
}

pub proof fn lemma_append_facts(old_m: Seq<ExprGroup<ActionExpr>>, m: ExprGroup<ActionExpr>)
    ensures append_facts(old_m, old_m.push(m), m.action),
{
    broadcast use lemma_groups_push, lemma_balance_prefix, lemma_balanced_prefix;
    let n = old_m.len() as int;
    let g = groups_of(old_m);
    assert(g.len() == n);
    assert(groups_of(old_m.push(m)) =~= g.push(m.action));
    assert(g.push(m.action)[n] == m.action);
    assert(balance(g.push(m.action), n) == balance(g, n));
    assert(balanced(g.push(m.action), n) == balanced(g, n));
}

/// L-C02/C15: under a balanced sequence the generator's per-step stack (depth = 1 + balance) has a frame to pop
/// at every `<<<`
pub proof fn lemma_balanced_depth(gs: Seq<ActionGroup>, n: int)
    requires balanced(gs, n), 0 < n <= gs.len(), gs[n - 1].move_type == MoveType::Unwrap,
    ensures (if gs[n - 1].application_type == ApplicationType::Deferred { 0 } else { balance(gs, n - 1) }) + 1 >= 2,
{
}
