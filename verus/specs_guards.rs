// ======================================================================================
// C13 (kind/handler compatibility) and C16 (option defaults), transcribed from the statements
// ======================================================================================

pub enum HKind { NoHandler, Map, Then, AndThen }

pub open spec fn handler_kind(h: Option<&Handler>) -> HKind {
    match h {
        None => HKind::NoHandler,
        Some(x) => match *x { Handler::Map(_) => HKind::Map, Handler::Then(_) => HKind::Then, Handler::AndThen(_) => HKind::AndThen },
    }
}

/// C13: "A handler of the wrong kind for the macro ... is rejected": `map`/`and_then` belong to try macros,
/// `then` to non-try macros.  (futures path only on async macros; at least one branch.)
/// 0 = accepted; otherwise the ordinal of the rejecting guard
pub open spec fn doc_guard(is_try: bool, is_async: bool, h: HKind, has_futures_path: bool, branches: int) -> u8 {
    if !is_try && (h == HKind::Map || h == HKind::AndThen) { 1 }
    else if is_try && h == HKind::Then { 2 }
    else if !is_async && has_futures_path { 3 }
    else if branches == 0 { 4 }
    else { 0 }
}

/// C16: "defaults: lazy for thread-spawning macros, transpose for sync try macros"
pub open spec fn doc_lazy_default(given: Option<bool>, is_spawn: bool, is_async: bool) -> bool {
    match given { Some(b) => b, None => is_spawn && !is_async }
}
pub open spec fn doc_transpose_default(given: Option<bool>, is_try: bool, is_async: bool) -> bool {
    match given { Some(b) => b, None => is_try && !is_async }
}
