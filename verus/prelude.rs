// ======================================================================================
// PRELUDE (hand-written, trusted; DESIGN.md 3.1).  An abstract header for the parts of
// proc_macro2 / quote / syn that the extracted functions touch.  Everything marked
// external_body / assume_specification below is an ASSUMPTION and is listed as such in
// every evidence file (mechanical scan of the generated file).
// ======================================================================================

pub enum Delim { Paren, Brace, Bracket, NoDelim }

/// Abstract token: spelling, order and nesting are kept; spans and spacing are dropped.
/// A delimited group is written flat as `Open(d) .. Close(d)` (same information as a tree for
/// well-bracketed sequences; keeps all equalities first-order sequence equalities).
pub enum Tok {
    Ident(Seq<char>),
    Punct(char),
    Lit(Seq<char>),
    Open(Delim),
    Close(Delim),
}

pub open spec fn group(d: Delim, inner: Seq<Tok>) -> Seq<Tok> {
    seq![Tok::Open(d)] + inner + seq![Tok::Close(d)]
}

#[verifier::external_body]
#[verifier::accept_recursive_types(T)]
pub struct Opaque<T> { _p: core::marker::PhantomData<T> }

// ------------------------------------------------------------------ TokenStream

#[verifier::external_body]
pub struct TokenStream { _p: () }

impl View for TokenStream {
    type V = Seq<Tok>;
    uninterp spec fn view(&self) -> Seq<Tok>;
}

impl TokenStream {
    #[verifier::external_body]
    pub fn new() -> (r: TokenStream)
        ensures r@ == Seq::<Tok>::empty(),
    { unimplemented!() }

    #[verifier::external_body]
    pub fn push_ident(&mut self, s: &str)
        ensures final(self)@ == old(self)@.push(Tok::Ident(s@)),
    { unimplemented!() }

    #[verifier::external_body]
    pub fn push_punct(&mut self, c: char)
        ensures final(self)@ == old(self)@.push(Tok::Punct(c)),
    { unimplemented!() }

    #[verifier::external_body]
    pub fn push_lit(&mut self, s: &str)
        ensures final(self)@ == old(self)@.push(Tok::Lit(s@)),
    { unimplemented!() }

    #[verifier::external_body]
    pub fn push_group(&mut self, d: Delim, g: TokenStream)
        ensures final(self)@ == old(self)@ + group(d, g@),
    { unimplemented!() }

    /// `Extend<TokenTree>` / `Extend<TokenStream>`
    #[verifier::external_body]
    pub fn extend(&mut self, o: TokenStream)
        ensures final(self)@ == old(self)@ + o@,
    { unimplemented!() }

    #[verifier::external_body]
    pub fn is_empty(&self) -> (r: bool)
        ensures r == (self@.len() == 0),
    { unimplemented!() }
}

impl Clone for TokenStream {
    #[verifier::external_body]
    fn clone(&self) -> (r: Self) ensures r@ == self@ { unimplemented!() }
}

// ------------------------------------------------------------------ ToTokens

pub trait ToTokens {
    /// the token sequence this value prints as
    spec fn toks(&self) -> Seq<Tok>;
    /// values for which printing is defined (the real impls panic otherwise)
    spec fn tokenizable(&self) -> bool;

    fn to_tokens(&self, output: &mut TokenStream)
        requires self.tokenizable(),
        ensures final(output)@ == old(output)@ + self.toks();

    /// provided methods of `quote::ToTokens`
    fn into_token_stream(self) -> (r: TokenStream) where Self: Sized
        requires self.tokenizable(),
        ensures r@ == self.toks(),
    {
        let mut s = TokenStream::new();
        self.to_tokens(&mut s);
        assert(Seq::<Tok>::empty() + self.toks() =~= self.toks());
        s
    }

    fn to_token_stream(&self) -> (r: TokenStream)
        requires self.tokenizable(),
        ensures r@ == self.toks(),
    {
        let mut s = TokenStream::new();
        self.to_tokens(&mut s);
        assert(Seq::<Tok>::empty() + self.toks() =~= self.toks());
        s
    }
}

/// `quote::ToTokens::{into_token_stream, to_token_stream}` (provided methods of the real trait)
pub fn into_token_stream_of<T: ToTokens>(x: &T) -> (r: TokenStream)
    requires x.tokenizable(),
    ensures r@ == x.toks(),
{
    let mut s = TokenStream::new();
    x.to_tokens(&mut s);
    assert(Seq::<Tok>::empty() + x.toks() =~= x.toks());
    s
}

impl<T: ToTokens> ToTokens for &T {
    open spec fn toks(&self) -> Seq<Tok> { (**self).toks() }
    open spec fn tokenizable(&self) -> bool { (**self).tokenizable() }
    fn to_tokens(&self, output: &mut TokenStream) { (**self).to_tokens(output) }
}

impl ToTokens for TokenStream {
    open spec fn toks(&self) -> Seq<Tok> { self@ }
    open spec fn tokenizable(&self) -> bool { true }
    #[verifier::external_body]
    fn to_tokens(&self, output: &mut TokenStream) { unimplemented!() }
}

impl<T: ToTokens> ToTokens for Option<T> {
    open spec fn toks(&self) -> Seq<Tok> {
        match self { Some(x) => x.toks(), None => Seq::<Tok>::empty() }
    }
    open spec fn tokenizable(&self) -> bool {
        match self { Some(x) => x.tokenizable(), None => true }
    }
    fn to_tokens(&self, output: &mut TokenStream) {
        match self {
            Some(x) => x.to_tokens(output),
            None => { assert(old(output)@ + Seq::<Tok>::empty() =~= old(output)@); }
        }
    }
}

/// canonical decimal spelling of a natural number (assumption A3: `usize: Display`)
pub open spec fn dec_digit(d: nat) -> char {
    if d == 0 { '0' } else if d == 1 { '1' } else if d == 2 { '2' } else if d == 3 { '3' }
    else if d == 4 { '4' } else if d == 5 { '5' } else if d == 6 { '6' } else if d == 7 { '7' }
    else if d == 8 { '8' } else { '9' }
}

pub open spec fn dec(n: nat) -> Seq<char>
    decreases n
{
    if n < 10 { seq![dec_digit(n)] } else { dec(n / 10).push(dec_digit(n % 10)) }
}

pub open spec fn is_digit(c: char) -> bool {
    c == '0' || c == '1' || c == '2' || c == '3' || c == '4' || c == '5' || c == '6' || c == '7'
        || c == '8' || c == '9'
}

/// `usize` interpolated by `quote!` prints as the suffixed literal `<n>usize`
pub open spec fn usize_lit(n: usize) -> Seq<char> { dec(n as nat) + "usize"@ }

impl ToTokens for usize {
    open spec fn toks(&self) -> Seq<Tok> { seq![Tok::Lit(usize_lit(*self))] }
    open spec fn tokenizable(&self) -> bool { true }
    #[verifier::external_body]
    fn to_tokens(&self, output: &mut TokenStream) { unimplemented!() }
}

// ------------------------------------------------------------------ Ident / Span

pub struct Span { _p: () }
impl Span {
    pub fn call_site() -> Span { Span { _p: () } }
}

#[verifier::external_body]
pub struct Ident { _p: () }

impl Ident {
    pub uninterp spec fn name(&self) -> Seq<char>;

    #[verifier::external_body]
    pub fn new(s: &str, _span: Span) -> (r: Ident)
        ensures r.name() == s@,
    { unimplemented!() }

    /// the spelling stays, the identifier is no longer THE SAME identifier (its span carries the hygiene context that
    /// decides which binding it resolves to), so nothing is promised beyond the name
    #[verifier::external_body]
    pub fn set_span(&mut self, _span: Span)
        ensures final(self).name() == old(self).name(),
    { unimplemented!() }
}

impl Clone for Ident {
    #[verifier::external_body]
    fn clone(&self) -> (r: Self) ensures r == *self { unimplemented!() }
}

impl ToTokens for Ident {
    open spec fn toks(&self) -> Seq<Tok> { seq![Tok::Ident(self.name())] }
    open spec fn tokenizable(&self) -> bool { true }
    #[verifier::external_body]
    fn to_tokens(&self, output: &mut TokenStream) { unimplemented!() }
}

/// R4: `format_ident!("p0{}p1", a0)`
#[verifier::external_body]
pub fn ident_fmt1(p0: &str, a0: usize, p1: &str) -> (r: Ident)
    ensures r.name() == p0@ + dec(a0 as nat) + p1@,
{ unimplemented!() }

/// R4: `format_ident!("p0{}p1{}p2{}p3", a0, a1, a2)`
#[verifier::external_body]
pub fn ident_fmt3(p0: &str, a0: usize, p1: &str, a1: usize, p2: &str, a2: usize, p3: &str) -> (r: Ident)
    ensures r.name() == p0@ + dec(a0 as nat) + p1@ + dec(a1 as nat) + p2@ + dec(a2 as nat) + p3@,
{ unimplemented!() }

/// `syn::Index::from(n)`: prints as the unsuffixed literal `<n>`
#[verifier::external_body]
pub struct Index { _p: () }
impl Index {
    pub uninterp spec fn idx(&self) -> usize;
    #[verifier::external_body]
    pub fn from(n: usize) -> (r: Index) ensures r.idx() == n, { unimplemented!() }
}
impl ToTokens for Index {
    open spec fn toks(&self) -> Seq<Tok> { seq![Tok::Lit(dec(self.idx() as nat))] }
    open spec fn tokenizable(&self) -> bool { true }
    #[verifier::external_body]
    fn to_tokens(&self, output: &mut TokenStream) { unimplemented!() }
}

// ------------------------------------------------------------------ syn header: Expr / Type / Path / Pat

/// Opaque payload of a syn node: an ARBITRARY token sequence (so every contract proved over
/// the prelude holds for any operand the user can write).
#[verifier::external_body]
pub struct Node { _p: () }
impl Node {
    pub uninterp spec fn ntoks(&self) -> Seq<Tok>;
}
impl Clone for Node {
    #[verifier::external_body]
    fn clone(&self) -> (r: Self) ensures r == *self { unimplemented!() }
}

pub struct ExprLet { pub pat: Pat, pub expr: Box<Expr>, pub rest: Node }
pub struct PatIdent { pub ident: Ident, pub rest: Node }
pub enum Pat { Ident(PatIdent), Other(Node) }

/// `syn::Expr` with exactly the variants the repository distinguishes.
pub enum MacroDelimiter { Paren(Node), Brace(Node), Bracket(Node) }
pub struct Macro { pub delimiter: MacroDelimiter, pub rest: Node }
pub struct ExprMacro { pub mac: Macro, pub rest: Node }
pub struct Label { pub rest: Node }
pub struct ExprBlock { pub label: Option<Label>, pub rest: Node }
pub enum UnOp { Deref(Node), Not(Node), Neg(Node) }
pub struct ExprUnary { pub op: UnOp, pub expr: Box<Expr>, pub rest: Node }
pub enum Expr {
    Let(ExprLet),
    Block(ExprBlock),
    Macro(ExprMacro),
    Assign(Node), AssignOp(Node), Binary(Node), Box(Node), Break(Node), Cast(Node), Closure(Node),
    Range(Node), Reference(Node), Return(Node), Type(Node), Unary(ExprUnary), Yield(Node),
    Lit(Node),
    Other(Node),
}

impl Expr {
    pub uninterp spec fn etoks(&self) -> Seq<Tok>;
}

// A5: `#[derive(Clone)]` is structural
impl Clone for Expr {
    #[verifier::external_body]
    fn clone(&self) -> (r: Self) ensures r == *self { unimplemented!() }
}
impl Clone for Pat {
    #[verifier::external_body]
    fn clone(&self) -> (r: Self) ensures r == *self { unimplemented!() }
}
impl Clone for PatIdent {
    #[verifier::external_body]
    fn clone(&self) -> (r: Self) ensures r == *self { unimplemented!() }
}
impl Clone for ExprLet {
    #[verifier::external_body]
    fn clone(&self) -> (r: Self) ensures r == *self { unimplemented!() }
}

impl ToTokens for Expr {
    open spec fn toks(&self) -> Seq<Tok> { self.etoks() }
    open spec fn tokenizable(&self) -> bool { true }
    #[verifier::external_body]
    fn to_tokens(&self, output: &mut TokenStream) { unimplemented!() }
}

impl ToTokens for PatIdent {
    uninterp spec fn toks(&self) -> Seq<Tok>;
    open spec fn tokenizable(&self) -> bool { true }
    #[verifier::external_body]
    fn to_tokens(&self, output: &mut TokenStream) { unimplemented!() }
}

#[verifier::external_body]
pub struct Type { _p: () }
impl Type { pub uninterp spec fn ttoks(&self) -> Seq<Tok>; }
impl Clone for Type {
    #[verifier::external_body]
    fn clone(&self) -> (r: Self) ensures r == *self { unimplemented!() }
}
impl ToTokens for Type {
    open spec fn toks(&self) -> Seq<Tok> { self.ttoks() }
    open spec fn tokenizable(&self) -> bool { true }
    #[verifier::external_body]
    fn to_tokens(&self, output: &mut TokenStream) { unimplemented!() }
}

#[verifier::external_body]
pub struct Path { _p: () }
impl Path { pub uninterp spec fn ptoks(&self) -> Seq<Tok>; }
impl ToTokens for Path {
    open spec fn toks(&self) -> Seq<Tok> { self.ptoks() }
    open spec fn tokenizable(&self) -> bool { true }
    #[verifier::external_body]
    fn to_tokens(&self, output: &mut TokenStream) { unimplemented!() }
}

/// R3: `parse_quote!{ T }` yields a node that prints as exactly the tokens T
/// (assumption: syn's parser followed by its printer is the identity on token spelling)
pub trait FromTokens: Sized + ToTokens {
    spec fn parsed_ok(r: Self, ts: Seq<Tok>) -> bool;
    fn from_tokens(ts: TokenStream) -> (r: Self)
        ensures r.toks() == ts@, r.tokenizable(), Self::parsed_ok(r, ts@);
}
/// an expression is `Expr::Block` iff its tokens are one brace group (unlabelled, no attributes)
pub open spec fn starts_with_brace(t: Seq<Tok>) -> bool { t.len() > 0 && t[0] == Tok::Open(Delim::Brace) }
impl FromTokens for Expr {
    open spec fn parsed_ok(r: Self, ts: Seq<Tok>) -> bool { (r is Block) ==> starts_with_brace(ts) }
    #[verifier::external_body]
    fn from_tokens(ts: TokenStream) -> (r: Self) { unimplemented!() }
}

impl FromTokens for Path {
    open spec fn parsed_ok(r: Self, ts: Seq<Tok>) -> bool { true }
    #[verifier::external_body]
    fn from_tokens(ts: TokenStream) -> (r: Self) { unimplemented!() }
}

pub assume_specification<'a, T: Copy> [Option::<&'a T>::copied] (o: Option<&'a T>) -> (r: Option<T>)
    ensures r == (match o { Some(x) => Some(*x), None => None });

/// `<[T]>::to_vec`: element-wise clone
pub assume_specification<T: Clone> [<[T]>::to_vec] (s: &[T]) -> (r: Vec<T>)
    ensures r@.len() == s@.len(), forall|i: int| 0 <= i < s@.len() ==> call_ensures(T::clone, (&s@[i],), #[trigger] r@[i]);

/// `Option::as_ref` as a spec function
pub open spec fn opt_ref<T>(o: &Option<T>) -> Option<&T> { match o { Some(x) => Some(x), None => None } }

// ------------------------------------------------------------------ quote! repetition

pub open spec fn seq_toks<T: ToTokens>(s: Seq<T>) -> Seq<Tok>
    decreases s.len()
{
    if s.len() == 0 { Seq::<Tok>::empty() } else { seq_toks(s.drop_last()) + s.last().toks() }
}

pub open spec fn seq_toks_sep<T: ToTokens>(s: Seq<T>, sep: char) -> Seq<Tok>
    decreases s.len()
{
    if s.len() == 0 { Seq::<Tok>::empty() }
    else if s.len() == 1 { s[0].toks() }
    else { seq_toks_sep(s.drop_last(), sep) + seq![Tok::Punct(sep)] + s.last().toks() }
}

pub open spec fn all_tokenizable<T: ToTokens>(s: Seq<T>) -> bool {
    forall|i: int| 0 <= i < s.len() ==> (#[trigger] s[i]).tokenizable()
}

/// things `#( #x )*` can iterate over
pub trait Repeatable {
    type Item: ToTokens;
    spec fn items(&self) -> Seq<Self::Item>;
}
impl<T: ToTokens> Repeatable for &[T] {
    type Item = T;
    open spec fn items(&self) -> Seq<T> { (**self)@ }
}
impl<T: ToTokens> Repeatable for Vec<T> {
    type Item = T;
    open spec fn items(&self) -> Seq<T> { self@ }
}
impl<T: ToTokens, const N: usize> Repeatable for [T; N] {
    type Item = T;
    open spec fn items(&self) -> Seq<T> { self@ }
}
impl<R: Repeatable> Repeatable for &R {
    type Item = R::Item;
    open spec fn items(&self) -> Seq<R::Item> { (**self).items() }
}

/// R2: `#( #xs )*`
#[verifier::external_body]
pub fn quote_rep<R: Repeatable>(xs: &R, output: &mut TokenStream)
    requires all_tokenizable(xs.items()),
    ensures final(output)@ == old(output)@ + seq_toks(xs.items()),
{ unimplemented!() }

/// R2: `#( #xs ),*`
#[verifier::external_body]
pub fn quote_rep_sep<R: Repeatable>(xs: &R, sep: char, output: &mut TokenStream)
    requires all_tokenizable(xs.items()),
    ensures final(output)@ == old(output)@ + seq_toks_sep(xs.items(), sep),
{ unimplemented!() }

// ------------------------------------------------------------------ std shims

/// R6: mirrors `impl<T> From<T> for Option<T>` / `impl<T> From<T> for T`
pub trait IntoOpt<T> {
    spec fn opt(&self) -> Option<T>;
    fn into_opt(self) -> (r: Option<T>) ensures r == self.opt();
}
impl<T> IntoOpt<T> for T {
    open spec fn opt(&self) -> Option<T> { Some(*self) }
    fn into_opt(self) -> (r: Option<T>) { Some(self) }
}
impl<T> IntoOpt<T> for Option<T> {
    open spec fn opt(&self) -> Option<T> { *self }
    fn into_opt(self) -> (r: Option<T>) { self }
}

/// R12 helper: `v.last_mut().unwrap().push(x)` (Verus has no `&mut`-returning methods): pushes onto the last inner vector.
/// The body below is verified; that it is what `last_mut().unwrap().push(x)` does is the definition of `last_mut`.
pub fn vec_last_push<T>(v: &mut Vec<Vec<T>>, x: T)
    requires old(v)@.len() > 0,
    ensures
        final(v)@.len() == old(v)@.len(),
        forall|i: int| 0 <= i < old(v)@.len() - 1 ==> final(v)@[i] == old(v)@[i],
        final(v)@.last()@ == old(v)@.last()@.push(x),
{
    let mut last = v.pop().unwrap();
    last.push(x);
    v.push(last);
}

/// R12 helper: `v.get(i)` on a vector (slice::get with a usize index), written out; the body is verified
pub fn vec_get<T>(v: &Vec<T>, i: usize) -> (r: Option<&T>)
    ensures r == (if i < v@.len() { Some(&v@[i as int]) } else { None::<&T> }),
{
    if i < v.len() { Some(&v[i]) } else { None }
}

/// R12 helper: `v.into_iter().unzip()` into two vectors, written out for `Copy` pairs; the body is verified
pub fn vec_unzip<A: Copy, B: Copy>(v: Vec<(A, B)>) -> (r: (Vec<A>, Vec<B>))
    ensures r.0@.len() == v@.len(), r.1@.len() == v@.len(),
            forall|i: int| #![trigger r.0@[i]] #![trigger r.1@[i]] #![trigger v@[i]] 0 <= i < v@.len() ==> r.0@[i] == v@[i].0 && r.1@[i] == v@[i].1,
{
    let mut a: Vec<A> = Vec::new();
    let mut b: Vec<B> = Vec::new();
    let mut i: usize = 0;
    while i < v.len()
        invariant i <= v@.len(), a@.len() == i, b@.len() == i,
                  forall|k: int| 0 <= k < i ==> a@[k] == (#[trigger] v@[k]).0 && b@[k] == v@[k].1,
        decreases v@.len() - i,
    {
        let t = v[i];
        a.push(t.0);
        b.push(t.1);
        i += 1;
    }
    (a, b)
}

/// R12 helper: `v.iter().max()` on `usize` elements, written out; the body is verified
pub fn vec_max(v: &Vec<usize>) -> (r: Option<&usize>)
    ensures r is Some <==> v@.len() > 0,
            r is Some ==> (forall|i: int| 0 <= i < v@.len() ==> v@[i] <= *r->0) && (exists|i: int| 0 <= i < v@.len() && v@[i] == *r->0),
{
    if v.len() == 0 { return None; }
    let mut m: usize = 0;
    let mut i: usize = 1;
    while i < v.len()
        invariant 1 <= i <= v@.len(), m < i, forall|k: int| 0 <= k < i ==> v@[k] <= v@[m as int],
        decreases v@.len() - i,
    {
        if v[i] >= v[m] { m = i; }
        i += 1;
    }
    Some(&v[m])
}

/// R12 helper: `x.into()` where the target is `Option<X>` (std: `impl<T> From<T> for Option<T>`)
pub trait IntoSome: Sized { fn into_some(self) -> (r: Option<Self>) ensures r == Some(self); }
impl IntoSome for TokenStream { fn into_some(self) -> (r: Option<Self>) { Some(self) } }

/// R11: `format!(..)` in error paths: value irrelevant
#[verifier::external_body]
pub fn opaque_string() -> String { unimplemented!() }

/// A6 extension: std functions used by the extracted code that vstd does not specify yet
pub assume_specification<T>[Option::<T>::or](a: Option<T>, b: Option<T>) -> (r: Option<T>)
    where T: core::marker::Destruct,
    ensures r == (if a is Some { a } else { b });
pub assume_specification<T>[<Option<T> as core::convert::From<T>>::from](t: T) -> (r: Option<T>)
    ensures r == Some(t);
pub assume_specification<T, U, F>[Option::<T>::map_or](a: Option<T>, d: U, f: F) -> (r: U)
    where F: FnOnce(T) -> U + core::marker::Destruct, U: core::marker::Destruct,
    requires a is Some ==> f.requires((a->0,)),
    ensures
        a is Some ==> f.ensures((a->0,), r),
        a is None ==> r == d;
pub assume_specification<T, U, D, F>[Option::<T>::map_or_else](a: Option<T>, d: D, f: F) -> (r: U)
    where D: FnOnce() -> U + core::marker::Destruct, F: FnOnce(T) -> U + core::marker::Destruct,
    requires a is Some ==> f.requires((a->0,)), a is None ==> d.requires(()),
    ensures
        a is Some ==> f.ensures((a->0,), r),
        a is None ==> d.ensures((), r);
pub assume_specification<T, F>[Option::<T>::or_else](a: Option<T>, f: F) -> (r: Option<T>)
    where F: FnOnce() -> Option<T> + core::marker::Destruct, T: core::marker::Destruct,
    requires a is None ==> f.requires(()),
    ensures a is Some ==> r == a, a is None ==> f.ensures((), r);
pub assume_specification<T, E, U, F>[Result::<T, E>::and_then](a: Result<T, E>, f: F) -> (r: Result<U, E>)
    where F: FnOnce(T) -> Result<U, E> + core::marker::Destruct,
    requires a is Ok ==> f.requires((a->Ok_0,)),
    ensures
        a is Ok ==> f.ensures((a->Ok_0,), r),
        a is Err ==> r is Err && r->Err_0 == a->Err_0;
