// ======================================================================================
// Bridge between three verified contracts (C02 / C15):
//   build_from_parse_stream  ensures  balanced(groups_of(members), len)          (module `builder`)
//   split_branch_steps       ensures  deep(steps) == split_steps(members, len)   (module `gen`, from JoinOutput::new)
//   generate_step_branch     requires step_acts_ok(step)  (its depth clause)     (module `gen`, from generate_step)
// The balance the parser keeps per step IS the depth of the generator's stack in that step, so for a chain the builder
// accepted no step handed to the generator can pop an empty stack.
// ======================================================================================

pub proof fn lemma_wdepth_push<'a>(s: Seq<&'a ExprGroup<ActionExpr>>, m: &'a ExprGroup<ActionExpr>, k: int)
    requires 0 <= k <= s.len(),
    ensures wdepth(s.push(m), k) == wdepth(s, k),
    decreases k,
{
    if k > 0 {
        lemma_wdepth_push(s, m, k - 1);
        assert(s.push(m)[k - 1] == s[k - 1]);
    }
}

pub open spec fn steps_nonneg<'a>(ss: Seq<Seq<&'a ExprGroup<ActionExpr>>>) -> bool {
    forall|s: int, k: int| 0 <= s < ss.len() && 0 <= k <= ss[s].len() ==> #[trigger] wdepth(ss[s], k) >= 0
}

pub proof fn lemma_split_balance(ms: Seq<ExprGroup<ActionExpr>>, n: int)
    requires 0 <= n <= ms.len(), balanced(groups_of(ms), n),
    ensures
        split_steps(ms, n).len() >= 1,
        wdepth(split_steps(ms, n).last(), split_steps(ms, n).last().len() as int) == balance(groups_of(ms), n),
        steps_nonneg(split_steps(ms, n)),
    decreases n,
{
    let gs = groups_of(ms);
    if n > 0 {
        lemma_split_balance(ms, n - 1);
        let prev = split_steps(ms, n - 1);
        let cur = split_steps(ms, n);
        let m = &ms[n - 1];
        assert(gs[n - 1] == ms[n - 1].action);
        if ms[n - 1].action.application_type == ApplicationType::Deferred {
            let one = seq![m];
            assert(cur == prev.push(one));
            assert(wdepth(one, 0) == 0);
            assert(wdepth(one, 1) == delta(gs[n - 1]));
            assert forall|s: int, k: int| 0 <= s < cur.len() && 0 <= k <= cur[s].len() implies #[trigger] wdepth(cur[s], k) >= 0 by {
                if s < prev.len() { assert(cur[s] == prev[s]); } else { assert(cur[s] == one); assert(k == 0 || k == 1); }
            }
        } else {
            let last = prev.last();
            let last2 = last.push(m);
            assert(cur == prev.update(prev.len() - 1, last2));
            lemma_wdepth_push(last, m, last.len() as int);
            assert(last2[last.len() as int] == m);
            assert(wdepth(last2, last.len() as int + 1) == wdepth(last, last.len() as int) + delta(gs[n - 1]));
            assert forall|s: int, k: int| 0 <= s < cur.len() && 0 <= k <= cur[s].len() implies #[trigger] wdepth(cur[s], k) >= 0 by {
                if s < prev.len() - 1 { assert(cur[s] == prev[s]); }
                else {
                    assert(cur[s] == last2);
                    if k <= last.len() { lemma_wdepth_push(last, m, k); assert(wdepth(prev[prev.len() - 1], k) >= 0); }
                }
            }
        }
    } else {
        let cur = split_steps(ms, 0);
        assert(cur.len() == 1 && cur[0].len() == 0);
        assert forall|s: int, k: int| 0 <= s < cur.len() && 0 <= k <= cur[s].len() implies #[trigger] wdepth(cur[s], k) >= 0 by {}
    }
}

/// the statement over the contracts
pub proof fn lemma_accepted_chain_never_underflows(ms: Seq<ExprGroup<ActionExpr>>)
    requires balanced(groups_of(ms), ms.len() as int),
    ensures steps_nonneg(split_steps(ms, ms.len() as int)),
{
    lemma_split_balance(ms, ms.len() as int);
}

// ---------------------------------------------------------------------------------------------------------------------
// ... and the per-member clause: every action of every step `split_steps` produces is a member of the chain, and the
// builder's postcondition `members_ok` says what each member is.  Together with the balance this is ALL the generator
// requires of a branch (`branch_steps_ok`), so nothing about the parser's output is assumed at the boundary
// `JoinInputDefault::parse` -> `JoinOutput::new` any more.

pub open spec fn steps_members_ok<'a>(ss: Seq<Seq<&'a ExprGroup<ActionExpr>>>) -> bool {
    forall|s: int| 0 <= s < ss.len() ==> (#[trigger] ss[s]).len() > 0 && step_members_ok(ss[s])
}
pub open spec fn step_members_ok<'a>(st: Seq<&'a ExprGroup<ActionExpr>>) -> bool {
    forall|k: int| 0 <= k < st.len() ==> member_ok(*(#[trigger] st[k]))
}

pub proof fn lemma_split_members(ms: Seq<ExprGroup<ActionExpr>>, n: int)
    requires 1 <= n <= ms.len(), members_ok(ms),
    ensures steps_members_ok(split_steps(ms, n)),
    decreases n,
{
    let cur = split_steps(ms, n);
    let prev = split_steps(ms, n - 1);
    let m = &ms[n - 1];
    assert(member_ok(ms[n - 1]));
    if n == 1 {
        let e = Seq::<&ExprGroup<ActionExpr>>::empty();
        assert(prev == seq![e]);
        assert(ms[0].action.application_type == ApplicationType::Instant);
        let one = e.push(m);
        assert(cur == prev.update(0, one));
        assert forall|s: int| 0 <= s < cur.len() implies (#[trigger] cur[s]).len() > 0 && step_members_ok(cur[s]) by {
            assert(cur[s] == one);
            assert forall|k: int| 0 <= k < one.len() implies member_ok(*(#[trigger] one[k])) by { assert(one[k] == m); }
        }
    } else {
        lemma_split_members(ms, n - 1);
        lemma_split_nonempty(ms, n - 1);
        if ms[n - 1].action.application_type == ApplicationType::Deferred {
            let one = seq![m];
            assert(cur == prev.push(one));
            assert forall|s: int| 0 <= s < cur.len() implies (#[trigger] cur[s]).len() > 0 && step_members_ok(cur[s]) by {
                if s < prev.len() { assert(cur[s] == prev[s]); } else {
                    assert(cur[s] == one);
                    assert forall|k: int| 0 <= k < one.len() implies member_ok(*(#[trigger] one[k])) by { assert(one[k] == m); }
                }
            }
        } else {
            let last = prev.last();
            let last2 = last.push(m);
            assert(cur == prev.update(prev.len() - 1, last2));
            assert forall|s: int| 0 <= s < cur.len() implies (#[trigger] cur[s]).len() > 0 && step_members_ok(cur[s]) by {
                if s < prev.len() - 1 { assert(cur[s] == prev[s]); } else {
                    assert(cur[s] == last2);
                    assert(step_members_ok(prev[prev.len() - 1]));
                    assert forall|k: int| 0 <= k < last2.len() implies member_ok(*(#[trigger] last2[k])) by {
                        if k < last.len() { assert(last2[k] == last[k]); } else { assert(last2[k] == m); }
                    }
                }
            }
        }
    }
}

/// the statement over the contracts: what `build_from_parse_stream` ensures is what `JoinOutput::new` requires
pub proof fn lemma_accepted_branch(ms: Seq<ExprGroup<ActionExpr>>)
    requires balanced(groups_of(ms), ms.len() as int), members_ok(ms),
    ensures branch_steps_ok(ms),
{
    let n = ms.len() as int;
    lemma_split_balance(ms, n);
    lemma_split_members(ms, n);
    let ss = split_steps(ms, n);
    assert forall|s: int| 0 <= s < ss.len() implies (#[trigger] ss[s]).len() > 0 && acts_ok_o(ss[s]) by {
        reveal(acts_ok_o);
        let acts = ss[s];
        assert(step_members_ok(acts));
        assert forall|k: int| 0 <= k <= acts.len() implies #[trigger] wdepth(acts, k) >= 0 by {}
        assert forall|k: int| 0 <= k < acts.len() implies match (#[trigger] acts[k]).action.move_type {
            MoveType::Wrap => acts[k].expr.operands().len() == 1 && !must_not_hoist(acts[k].expr.ctor_of()) && !(acts[k].expr is Initial),
            MoveType::Unwrap => true,
            MoveType::None => printable(acts[k].expr),
        } by { assert(member_ok(*acts[k])); }
    }
}
