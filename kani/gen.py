"""Harness generator for engine K (DESIGN.md 3.2).

Every harness is a Hoare triple around a REAL macro invocation (expanded by the proc-macro built
from /repo's working tree):
    { inputs, callback behaviour, failure flags, readiness schedule : kani::any() }
        r = <macro>!{ program P }
    { r == Spec_P(inputs)  /\\  trace in TraceSpec_P }
Spec_P is written from the PROPERTY STATEMENT (documented method chain, staged step evaluation,
first failing step / lowest failing branch, element i is branch i, ...), never from the generator.

families(pid, tier) -> list of Harness(name, code, covers, program, bounded_note)
"""
import itertools


class Harness:
    def __init__(self, name, code, program, unwind=None, note=""):
        self.name = name
        self.code = code
        self.program = program
        self.unwind = unwind
        self.note = note


def profiles(ns, dmax):
    out = []
    for n in ns:
        out += list(itertools.product(range(1, dmax + 1), repeat=n))
    return out


def pname(ds):
    return "".join(str(d) for d in ds)


def K(i, s):
    """distinct odd constant per (branch, step) so that any swap of same-typed values is visible"""
    return (17 * i + 5 * s + 3) % 251


def tup(xs):
    xs = list(xs)
    if len(xs) == 1:
        return xs[0]
    return "(" + ", ".join(xs) + ")"


def tupty(t, n):
    return t if n == 1 else "(" + ", ".join([t] * n) + ")"


HDR = "#[cfg_attr(kani, kani::proof)]\n"


def harness_fn(name, body, unwind=None):
    u = "#[cfg_attr(kani, kani::unwind(%d))]\n" % unwind if unwind else ""
    return HDR + u + "pub fn %s() {\n    reset();\n%s}\n" % (name, body)


def trace_eq(nmax):
    """exact trace equality macro-run vs reference-run (sync programs have one schedule)"""
    s = "    assert!(tlen() == elen(), \"trace length differs from the staged reference\");\n"
    for k in range(nmax):
        s += "    assert!(%d >= tlen() || tr(%d) == etr(%d), \"event %d differs from the staged reference\");\n" % (k, k, k, k)
    return s


# ======================================================================================
# Family TRY  (C05, C06): all failure placements, all depth profiles
# ======================================================================================

def fam_try(prop, tier):
    out = []
    if tier == "quick":
        profs = profiles([1, 2, 3], 2) + [(3,), (3, 2), (2, 3), (3, 3), (1, 3, 2), (3, 1, 2), (2, 3, 1), (1, 2, 3), (3, 2, 3)]
        aprofs = [(1,), (2,), (1, 1), (2, 1), (1, 2), (2, 2)]
    else:
        profs = profiles([1, 2, 3], 3) + [(1, 2, 2, 3), (3, 1, 2, 2), (2, 2, 1, 3), (1, 3, 1, 2), (2, 1, 3, 3)]
        aprofs = [(1,), (2,), (1, 1), (2, 1), (1, 2), (2, 2), (3,), (3, 2), (2, 3), (2, 1, 2), (1, 2, 2), (2, 2, 1)]
    for flavour in ("res", "opt"):
        for ds in profs:
            out.append(_try_harness(prop, flavour, ds))
    for ds in aprofs:
        out.append(_try_async_harness(prop, ds))
    # steps made ONLY of an operator that keeps a success "most of the time": `~?>` on Option values can still fail
    for ds in [(3,), (3, 2), (3, 3), (1, 3), (2, 3, 3)] + ([] if tier == "quick" else [(4,), (3, 3, 3), (4, 3)]):
        out.append(_try_harness(prop, "opt", ds, force_kind="filter"))
    return out


def _try_async_harness(prop, ds):
    """try_join_async!: gates (symbolic pending count <= 1) at the initial position, failure flags symbolic at every
    (branch, step), payloads distinct constants.  Spec (C05/C06, async clause): Ok(tuple) iff no evaluated position
    fails; otherwise the Err of SOME branch failing in the earliest failing step; no event of a later step."""
    n = len(ds)
    b = ""
    for i in range(n):
        b += "    let p%d: u8 = kani::any(); kani::assume(p%d <= 1);\n" % (i, i)
        for s in range(ds[i]):
            b += "    let f_%d_%d: bool = kani::any();\n" % (i, s)

    def E(i, s):
        return 100 + 10 * i + s
    brs = []
    for i in range(n):
        t = "gate(p%d, code(K_POLL, %d, 0, 0), if f_%d_0 { Err::<u8, u8>(%d) } else { Ok(%d) })" % (i, i, i, E(i, 0), K(i, 0))
        for s in range(1, ds[i]):
            t += " ~=> |x: u8| { ev(code(K_CALL, %d, %d, 0)); core::future::ready(if f_%d_%d { Err::<u8, u8>(%d) } else { Ok(x.wrapping_add(%d)) }) }" % (
                i, s, i, s, E(i, s), K(i, s))
        brs.append(t)
    prog = "try_join_async! { %s }" % ", ".join(brs)
    rty = "Result<%s, u8>" % tupty("u8", n)
    b += "    let fut = %s;\n" % prog
    b += "    assert!(tlen() == 0, \"nothing may be evaluated before the first poll\");\n"
    b += "    let (out, polls) = run(fut, 2);\n"
    b += "    assert!(out.is_some(), \"future did not complete\");\n"
    b += "    let r: %s = out.unwrap();\n" % rty
    vals = []
    for i in range(n):
        v = K(i, 0)
        for s in range(1, ds[i]):
            v = (v + K(i, s)) % 256
        vals.append(str(v))
    prev = "true"
    b += "    let mut fail_step: i32 = -1;\n"
    for s in range(max(ds)):
        act = [i for i in range(n) if ds[i] > s]
        anyf = " || ".join("f_%d_%d" % (i, s) for i in act)
        b += "    let any%d = %s;\n" % (s, anyf)
        b += "    if %s && any%d {\n        fail_step = %d;\n" % (prev, s, s)
        if prop == "C05":
            b += "        assert!(%s, \"C05: Err payload is not that of a branch failing in the earliest failing step\");\n" % " || ".join(
                "(f_%d_%d && r == Err(%d))" % (i, s, E(i, s)) for i in act)
        else:
            b += "        assert!(r.is_err());\n"
        b += "    }\n"
        prev += " && !any%d" % s
    b += "    if %s { assert!(r == Ok(%s), \"C05: all positions succeed but the result is not Ok(tuple)\"); }\n" % (prev, tup(vals))
    if prop == "C06":
        nmaxev = 2 * n + sum(ds)
        b += "    assert!(tlen() <= %d);\n" % nmaxev
        for k in range(nmaxev):
            b += "    assert!(%d >= tlen() || fail_step < 0 || (step_of(tr(%d)) as i32) <= fail_step, \"C06: event of a step after the failing one\");\n" % (k, k)
    b += "    kani_cover!(r.is_ok());\n    kani_cover!(polls == 2);\n"
    if max(ds) > 1:
        b += "    kani_cover!(fail_step == 1);\n"
    name = "%s_try_ares_%s" % (prop.lower(), pname(ds))
    return Harness(name, harness_fn(name, b, unwind=4), prog, note="profile %s, async Result; pending count <= 1 per initial gate" % (ds,))


def _try_harness(prop, flavour, ds, mac=None, force_kind=None):
    """mac: a thread-spawning try macro (native sweeps only): branches of a step run in parallel, so traces are compared
    as multisets"""
    spawn_mac = mac
    n = len(ds)
    is_async = flavour == "ares"
    opt = flavour == "opt"
    OK, ER = ("Some", "None") if opt else ("Ok", "Err")
    ty = "Option<u8>" if opt else "Result<u8, u8>"
    b = ""
    nev = 0
    # ---- inputs
    for i in range(n):
        if opt:
            b += "    let a%d: %s = if kani::any::<bool>() { Some(kani::any()) } else { None };\n" % (i, ty)
        else:
            b += "    let a%d: %s = if kani::any::<bool>() { Ok(kani::any()) } else { Err(kani::any()) };\n" % (i, ty)
        for s in range(ds[i]):
            b += "    let f_%d_%d: bool = kani::any();" % (i, s)
            if not opt:
                b += " let e_%d_%d: u8 = kani::any();" % (i, s)
            if is_async:
                b += " let p_%d_%d: u8 = kani::any(); kani::assume(p_%d_%d <= 1);" % (i, s, i, s)
            b += "\n"

    def fail(i, s):
        return "None" if opt else "Err(e_%d_%d)" % (i, s)

    def cb_body(i, s, x):
        return "if f_%d_%d { %s } else { %s(%s.wrapping_add(%d)) }" % (i, s, fail(i, s), OK, x, K(i, s))

    # later steps rotate over operator kinds: in a try macro a step only starts when the previous one succeeded,
    # so recovery operators (`~<=`, `~<|`, `~!>`) of a later step are never applied to a failure
    def later_kind(i, s):
        # force_kind: EVERY later step of EVERY branch uses this one operator (e.g. `~?>` on Option values: a step made
        # only of operators that "usually" keep a success can still fail); the last step recovers, so that a skipped
        # failure check of a middle step changes the result
        if force_kind:
            return force_kind if s < ds[i] - 1 or ds[i] == 2 else "or_else"
        # odd steps can fail (and_then); even steps rotate over recovery / pass-through operators, so that a failure in a
        # non-final step is always followed by an operator that would "repair" it if the step check were skipped
        if s % 2 == 1:
            # every other one as a deferred WRAPPER (`~=> >>> -> f <<<` is `.and_then(|v| f(v))`): it must open the step too
            return "wrap_and_then" if (i + s // 2) % 2 == 1 else "and_then"
        return ["or_else", "then", "map_err" if not opt else "or", "and_then", "or_else"][(i + len(ds) + s // 2) % 5]

    def later_macro(i, s):
        k = later_kind(i, s)
        c = "code(K_CALL, %d, %d, 0)" % (i, s)
        if k == "and_then":
            return "~=> |x: u8| { ev(%s); %s }" % (c, cb_body(i, s, "x"))
        if k == "wrap_and_then":
            return "~=> >>> -> |x: u8| { ev(%s); %s } <<<" % (c, cb_body(i, s, "x"))
        if k == "filter":
            return "~?> |x: &u8| { ev(%s); let _ = x; !f_%d_%d }" % (c, i, s)
        if k == "or_else":
            return ("~<= || { ev(%s); Some(%du8) }" % (c, K(i, s))) if opt else ("~<= |e: u8| { ev(%s); Ok::<u8, u8>(e.wrapping_add(%d)) }" % (c, K(i, s)))
        if k == "or":
            return "~<| tag(%s, Some(%du8))" % (c, K(i, s))
        if k == "map_err":
            return "~!> |e: u8| { ev(%s); e.wrapping_add(%d) }" % (c, K(i, s))
        if k == "then":
            return "~-> |r: %s| { ev(%s); r.and_then(|x: u8| %s) }" % (ty, c, cb_body(i, s, "x"))
        raise KeyError(k)

    def later_ref(i, s):
        """reference for one later step of branch i, whose current value v_i is a success"""
        k = later_kind(i, s)
        if k == "filter":
            return "ev(code(K_CALL, %d, %d, 0)); let r%d: %s = if f_%d_%d { None } else { Some(v%d) };" % (i, s, i, ty, i, s, i)
        if k in ("and_then", "then", "wrap_and_then"):
            return "ev(code(K_CALL, %d, %d, 0)); let r%d: %s = %s;" % (i, s, i, ty, cb_body(i, s, "v%d" % i))
        if k == "or":
            # `.or(operand)`: the operand expression is evaluated (eagerly), the value stays
            return "ev(code(K_CALL, %d, %d, 0)); let r%d: %s = %s(v%d);" % (i, s, i, ty, OK, i)
        # or_else / map_err callbacks are not invoked on a success
        return "let r%d: %s = %s(v%d);" % (i, ty, OK, i)

    # ---- program
    brs = []
    for i in range(n):
        if is_async:
            t = "gate(p_%d_0, code(K_POLL, %d, 0, 0), a%d)" % (i, i, i)
            t += " => |x: u8| { ev(code(K_CALL, %d, 0, 0)); core::future::ready::<%s>(%s) }" % (i, ty, cb_body(i, 0, "x"))
            for s in range(1, ds[i]):
                t += " ~=> |x: u8| { ev(code(K_CALL, %d, %d, 0)); gate(p_%d_%d, code(K_POLL, %d, %d, 1), %s) }" % (
                    i, s, i, s, i, s, cb_body(i, s, "x"))
        else:
            t = "a%d => |x: u8| { ev(code(K_CALL, %d, 0, 0)); %s }" % (i, i, cb_body(i, 0, "x"))
            for s in range(1, ds[i]):
                t += " " + later_macro(i, s)
        brs.append(t)
        nev += ds[i]
    mac = spawn_mac or ("try_join_async" if is_async else "try_join")
    prog = "%s! { %s }" % (mac, ", ".join(brs))
    rty = "%s<%s%s>" % ("Option" if opt else "Result", tupty("u8", n), "" if opt else ", u8")
    if is_async:
        maxpoll = 1 + max(ds)
        b += "    let fut = %s;\n" % prog
        b += "    assert!(tlen() == 0, \"C09: nothing may be evaluated before the first poll\");\n"
        b += "    let (out, polls) = run(fut, %d);\n" % (maxpoll + 1)
        b += "    assert!(out.is_some(), \"future did not complete\");\n"
        b += "    let r: %s = out.unwrap();\n" % rty
    else:
        b += "    let r: %s = %s;\n" % (rty, prog)
    # ---- reference: staged evaluation, straight from C05/C06
    b += "    reference_mode();\n"
    b += "    let mut fail_step: i32 = -1;\n"
    b += "    let exp: %s = (|| {\n" % rty
    for i in range(n):
        b += "        let mut v%d: u8 = 0;\n" % i
    for s in range(max(ds)):
        act = [i for i in range(n) if ds[i] > s]
        b += "        // step %d: every active branch runs the step to its end ...\n" % s
        for i in act:
            if s == 0:
                b += "        let r%d: %s = match a%d { %s(x) => { ev(code(K_CALL, %d, 0, 0)); %s } other => other };\n" % (
                    i, ty, i, OK, i, cb_body(i, 0, "x"))
            else:
                b += "        %s\n" % later_ref(i, s)
        b += "        // ... then the lowest-numbered failing branch decides\n"
        for i in act:
            if opt:
                b += "        if r%d.is_none() { fail_step = %d; return None; }\n" % (i, s)
            else:
                b += "        if let Err(e) = r%d { fail_step = %d; return Err(e); }\n" % (i, s)
        for i in act:
            b += "        v%d = r%d.unwrap();\n" % (i, i)
    b += "        %s(%s)\n    })();\n" % (OK, tup("v%d" % i for i in range(n)))
    if not is_async:
        if prop == "C05":
            b += "    assert!(r == exp, \"C05: result differs from the staged reference\");\n"
        elif spawn_mac:
            b += "    assert!(r.is_%s() == exp.is_%s());\n" % (("some", "some") if opt else ("ok", "ok"))
            b += "    assert!(traces_same_multiset(), \"C06: the events differ from the staged reference (order within a step disregarded)\");\n"
        else:
            b += "    assert!(r.is_%s() == exp.is_%s());\n" % (("some", "some") if opt else ("ok", "ok"))
            b += trace_eq(nev)
    else:
        # async: any failing branch of the earliest failing step; nothing of a later step runs
        b += "    assert!(r.is_ok() == exp.is_ok(), \"C05: success iff no evaluated position fails\");\n"
        if prop == "C05":
            b += "    if let Ok(t) = r { assert!(Ok(t) == exp); }\n"
            b += "    if let Err(e) = r {\n        let mut found = false;\n"
            for s in range(max(ds)):
                for i in [i for i in range(n) if ds[i] > s]:
                    if s == 0:
                        b += "        if fail_step == 0 && ((a%d.is_err() && a%d == Err(e)) || (a%d.is_ok() && f_%d_0 && e_%d_0 == e)) { found = true; }\n" % (i, i, i, i, i)
                    else:
                        b += "        if fail_step == %d && f_%d_%d && e_%d_%d == e { found = true; }\n" % (s, i, s, i, s)
            b += "        assert!(found, \"C05: Err payload is not that of a branch failing in the earliest failing step\");\n    }\n"
        else:
            nmaxev = sum(ds) * 4
            b += "    assert!(tlen() <= %d);\n" % nmaxev
            for k in range(nmaxev):
                b += "    assert!(%d >= tlen() || fail_step < 0 || (step_of(tr(%d)) as i32) <= fail_step, \"C06: event of a step after the failing one\");\n" % (k, k)
    # ---- covers (vacuity guards)
    b += "    kani_cover!(r.is_%s());\n" % ("some" if opt else "ok")
    if any(later_kind(i, s) in ("and_then", "then", "wrap_and_then", "filter") for i in range(n) for s in range(1, ds[i])):
        b += "    kani_cover!(fail_step >= 1);\n"
    name = "%s_try_%s_%s%s%s" % (prop.lower(), flavour, pname(ds), ("_" + spawn_mac) if spawn_mac else "", ("_all_" + force_kind) if force_kind else "")
    return Harness(name, harness_fn(name, b, unwind=((3 + max(ds)) if is_async else None)), prog,
                   note="profile %s, %s" % (ds, flavour))


TMAX_UNWIND = 50
TMAX = 48


# ======================================================================================
# Family POS  (C04): result positions for all depth profiles, handlers, let patterns
# ======================================================================================

def fam_pos(prop, tier):
    out = []
    if tier == "quick":
        # (3,1) (1,3) (1,3,1) (4,1,2): a non-final step in which exactly ONE branch is still running
        profs = profiles([1, 2, 3], 2) + [(1, 3, 2), (3, 1, 2), (2, 3, 1), (1, 2, 3), (3, 2, 3), (1, 2, 2, 1), (2, 1, 2, 2), (3, 1), (1, 3), (1, 3, 1), (4, 1, 2)]
    else:
        profs = profiles([1, 2, 3], 3) + profiles([4], 2) + [(1, 3, 2, 3), (3, 1, 2, 2), (2, 2, 1, 3), (1, 3, 1, 2), (4, 1, 2), (1, 4, 2), (4, 1), (1, 4)]
    variants = [("join", "plain"), ("try_join", "plain"), ("join", "then"), ("try_join", "map"), ("try_join", "and_then"),
                ("join", "let"), ("try_join", "let"), ("join_async", "plain"), ("try_join_async", "plain"),
                ("join_async", "then"), ("try_join_async", "map")]
    for mac, var in variants:
        for ds in profs:
            if tier == "quick" and var != "plain" and len(ds) > 3:
                continue
            if tier == "quick" and mac.endswith("async") and (len(ds) > 3 or (len(ds) == 3 and max(ds) > 2 and var != "plain")):
                continue
            out.append(_pos_harness(prop, mac, var, ds))
    return out


def _pos_harness(prop, mac, var, ds):
    n = len(ds)
    is_async = mac.endswith("async")
    is_try = mac.startswith("try")
    wrap_opt = (not is_async) and (not is_try)      # join!: branch values are Option<u8> so that `|>` is `.map`
    et = "Option<u8>" if wrap_opt else "u8"           # element type of the result tuple / handler arguments
    b = ""
    for i in range(n):
        b += "    let a%d: u8 = kani::any();\n" % i

    def f(i, s, x):
        return "%s.wrapping_mul(3).wrapping_add(%d)" % (x, K(i, s))
    brs = []
    for i in range(n):
        init = "Ok::<u8, u8>(a%d)" % i if is_try else ("Some(a%d)" % i if wrap_opt else "a%d" % i)
        if is_async:
            t = "gate(0, code(K_POLL, %d, 0, 0), %s)" % (i, init)
        else:
            t = init
        if var == "let":
            t = "let %sn%d = %s" % ("mut " if i % 2 else "", i, t)
        for s in range(1, ds[i]):
            if is_async and is_try:
                t += " ~=> |x: u8| core::future::ready(Ok::<u8, u8>(%s))" % f(i, s, "x")
            elif is_async:
                t += " ~|> |x: u8| %s" % f(i, s, "x")
            else:
                t += " ~|> |x: u8| %s" % f(i, s, "x")
        brs.append(t)
    args = ", ".join("x%d: %s" % (i, et) for i in range(n))
    tupx = "(" + ", ".join("x%d" % i for i in range(n)) + ("," if n == 1 else "") + ")"
    hty = "(" + ", ".join([et] * n) + ("," if n == 1 else "") + ")"
    handler = ""
    if var == "then":
        handler = ", then => |%s| { ev(code(K_HANDLER, 0, 0, 0)); %s }" % (args, ("core::future::ready(%s)" % tupx) if is_async else tupx)
    elif var == "map":
        handler = ", map => |%s| { ev(code(K_HANDLER, 0, 0, 0)); %s }" % (args, tupx)
    elif var == "and_then":
        handler = ", and_then => |%s| { ev(code(K_HANDLER, 0, 0, 0)); Ok::<%s, u8>(%s) }" % (args, hty, tupx)
    prog = "%s! { %s%s }" % (mac, ", ".join(brs), handler)
    has_h = var in ("then", "map", "and_then")
    vty = hty if has_h else tupty(et, n)
    rty = "Result<%s, u8>" % vty if is_try else vty
    if is_async:
        b += "    let fut = %s;\n" % prog
        b += "    let (out, _polls) = run(fut, 1);\n"
        b += "    assert!(out.is_some(), \"future did not complete in one poll although no gate is pending\");\n"
        b += "    let r: %s = out.unwrap();\n" % rty
    else:
        b += "    let r: %s = %s;\n" % (rty, prog)
    # ---- reference: C04 "branch i's final value is element i"
    vals = []
    for i in range(n):
        e = "a%d" % i
        for s in range(1, ds[i]):
            e = f(i, s, e)
        vals.append("Some(%s)" % e if wrap_opt else e)
    expv = ("(" + ", ".join(vals) + ("," if n == 1 else "") + ")") if has_h else tup(vals)
    b += "    let exp: %s = %s;\n" % (rty, ("Ok(%s)" % expv) if is_try else expv)
    b += "    assert!(r == exp, \"C04: element i of the result is not branch i's final value\");\n"
    if has_h:
        b += "    assert!(tlen() >= 1);\n"
    name = "%s_pos_%s_%s_%s" % (prop.lower(), mac, var, pname(ds))
    return Harness(name, harness_fn(name, b, unwind=(3 if is_async else None)), prog,
                   note="profile %s, %s, %s" % (ds, mac, var))


# ======================================================================================
# Family BARRIER (C03 sync/async) and ASYNC (C09)
# ======================================================================================

# the last two are wrappers (`X >>> inner <<<`): as the deferred action of a step they must open the step like any other
SYNC_OPS = ["map", "or_else", "and_then", "map_err", "or", "inspect", "then", "wrap_map", "wrap_and_then"]


def _sync_op(kind, i, s, pos):
    """(macro text, reference method-call text applied to `cur`) for one deferred operator with logging callback"""
    c = "code(K_CALL, %d, %d, %d)" % (i, s, pos)
    k = K(i, s)
    if kind == "map":
        cl = "|x: u8| { ev(%s); x.wrapping_add(%d) }" % (c, k)
        return "|> " + cl, ".map(%s)" % cl
    if kind == "and_then":
        cl = "|x: u8| { ev(%s); if x & 1 == 0 { Ok::<u8, u8>(x.wrapping_add(%d)) } else { Err::<u8, u8>(x) } }" % (c, k)
        return "=> " + cl, ".and_then(%s)" % cl
    if kind == "or_else":
        cl = "|e: u8| { ev(%s); if e & 1 == 0 { Ok::<u8, u8>(e.wrapping_add(%d)) } else { Err::<u8, u8>(e.wrapping_add(1)) } }" % (c, k)
        return "<= " + cl, ".or_else(%s)" % cl
    if kind == "map_err":
        cl = "|e: u8| { ev(%s); e.wrapping_add(%d) }" % (c, k)
        return "!> " + cl, ".map_err(%s)" % cl
    if kind == "or":
        ex = "tag(%s, Ok::<u8, u8>(%d))" % (c, k)
        return "<| " + ex, ".or(%s)" % ex
    if kind == "inspect":
        cl = "|r: &Result<u8, u8>| { ev(%s); let _ = r; }" % c
        return "?? " + cl, "@inspect@" + cl
    if kind == "then":
        cl = "|r: Result<u8, u8>| { ev(%s); r.map(|x| x.wrapping_add(%d)) }" % (c, k)
        return "-> " + cl, "@call@" + cl
    if kind == "wrap_map":
        cl = "|x: u8| { ev(%s); x.wrapping_add(%d) }" % (c, k)
        return "|> >>> -> " + cl + " <<<", ".map(%s)" % cl
    if kind == "wrap_and_then":
        cl = "|x: u8| { ev(%s); if x & 1 == 0 { Ok::<u8, u8>(x.wrapping_add(%d)) } else { Err::<u8, u8>(x) } }" % (c, k)
        return "=> >>> -> " + cl + " <<<", ".and_then(%s)" % cl
    raise KeyError(kind)


def _apply_ref(cur, ref):
    if ref.startswith("@inspect@"):
        return "{ let t = %s; (%s)(&t); t }" % (cur, ref[len("@inspect@"):])
    if ref.startswith("@call@"):
        return "(%s)(%s)" % (ref[len("@call@"):], cur)
    return cur + ref


def _barrier_operandless_harnesses(prop):
    """C03: a `~` in front of an operator that takes NO operand (`^^>` flatten, `|n>` enumerate) starts a step like any other"""
    out = []
    E = lambda i, s, p: "ev(code(K_CALL, %d, %d, %d));" % (i, s, p)
    progs = [
        ("flatten", "    let a: u8 = kani::any(); let c: u8 = kani::any();\n",
         "join! { Some(Some(a)) ~^^> |> |x: u8| { %s x.wrapping_add(1) }, Some(c) |> |x: u8| { %s x.wrapping_add(2) } ~|> |x: u8| { %s x.wrapping_add(3) } }" % (E(0, 1, 1), E(1, 0, 1), E(1, 1, 1)),
         "(Option<u8>, Option<u8>)",
         ["let s1 = Some(c).map(|x: u8| { %s x.wrapping_add(2) });" % E(1, 0, 1),
          "let e0 = Some(Some(a)).flatten().map(|x: u8| { %s x.wrapping_add(1) });" % E(0, 1, 1),
          "let e1 = s1.map(|x: u8| { %s x.wrapping_add(3) });" % E(1, 1, 1)], "(e0, e1)", 0),
        ("enumerate", "    let a: [u8; 2] = [kani::any(), kani::any()]; let c: u8 = kani::any();\n",
         "join! { a.into_iter() ~|n> |> |(i, x): (usize, u8)| { %s x.wrapping_add(i as u8) } ^@ 0u8, |acc: u8, x: u8| acc.wrapping_mul(3).wrapping_add(x), Some(c) |> |x: u8| { %s x.wrapping_add(2) } ~|> |x: u8| { %s x.wrapping_add(3) } }" % (E(0, 1, 1), E(1, 0, 1), E(1, 1, 1)),
         "(u8, Option<u8>)",
         ["let s1 = Some(c).map(|x: u8| { %s x.wrapping_add(2) });" % E(1, 0, 1),
          "let e0 = a.into_iter().enumerate().map(|(i, x): (usize, u8)| { %s x.wrapping_add(i as u8) }).fold(0u8, |acc: u8, x: u8| acc.wrapping_mul(3).wrapping_add(x));" % E(0, 1, 1),
          "let e1 = s1.map(|x: u8| { %s x.wrapping_add(3) });" % E(1, 1, 1)], "(e0, e1)", 4),
        ("flatten_try", "    let a: u8 = kani::any(); let c: u8 = kani::any();\n",
         "try_join! { Some(Some(a)) ~^^> ~|> |x: u8| { %s x.wrapping_add(1) }, Some(c) |> |x: u8| { %s x.wrapping_add(2) } ~?> |x: &u8| { %s *x > 9 } ~|> |x: u8| { %s x } }" % (E(0, 2, 1), E(1, 0, 1), E(1, 1, 1), E(1, 2, 1)),
         "Option<(u8, u8)>",
         ["let s1 = Some(c).map(|x: u8| { %s x.wrapping_add(2) });" % E(1, 0, 1),
          "let f0 = Some(Some(a)).flatten();",
          "let s1b = s1.filter(|x: &u8| { %s *x > 9 });" % E(1, 1, 1),
          "let res = if f0.is_none() || s1b.is_none() { None } else { let e0 = f0.map(|x: u8| { %s x.wrapping_add(1) }); let e1 = s1b.map(|x: u8| { %s x }); Some((e0.unwrap(), e1.unwrap())) };" % (E(0, 2, 1), E(1, 2, 1))], "res", 0),
    ]
    for (name, inp, prog, rty, ref, exp, uw) in progs:
        b = inp + "    let r: %s = %s;\n    reference_mode();\n" % (rty, prog)
        for l in ref:
            b += "    %s\n" % l
        b += "    let exp: %s = %s;\n    assert!(r == exp, \"C03: value differs from the staged reference\");\n" % (rty, exp)
        b += trace_eq(6)
        hn = "%s_barrier_operandless_%s" % (prop.lower(), name)
        out.append(Harness(hn, harness_fn(hn, b, unwind=uw or None), prog, note="deferred operand-less operator"))
    return out


def fam_barrier_sync(prop, tier):
    out = _barrier_operandless_harnesses(prop)
    if tier == "quick":
        profs = [(2,), (3,), (2, 2), (1, 2), (2, 1), (3, 2), (2, 3), (1, 2, 2), (2, 1, 2), (3, 2, 1), (1, 3, 2), (2, 2, 2)]
    else:
        profs = [p for p in profiles([1, 2, 3], 3) if max(p) > 1] + [(1, 2, 2, 3), (3, 1, 2, 2)]
    for rot in range(len(SYNC_OPS) if tier == "thorough" else 3):
        for ds in profs:
            out.append(_barrier_sync_harness(prop, ds, rot * 2 if tier == "quick" else rot))
    return out


def _barrier_sync_harness(prop, ds, rot, mac="join"):
    n = len(ds)
    b = ""
    for i in range(n):
        b += "    let a%d: Result<u8, u8> = if kani::any::<bool>() { Ok(kani::any()) } else { Err(kani::any()) };\n" % i
    brs = []
    refs = {}
    nev = 0
    for i in range(n):
        t = "a%d" % i
        for s in range(ds[i]):
            # two actions per step: one deferred (opens the step, except step 0) and one instant
            for pos in range(2):
                if s == 0 and pos == 0:
                    continue
                kind = SYNC_OPS[(rot + 3 * i + 2 * s + pos) % len(SYNC_OPS)]
                m, r = _sync_op(kind, i, s, pos)
                t += " %s%s" % ("~" if pos == 0 else "", m)
                refs.setdefault((s, i), []).append(r)
                nev += 1
        brs.append(t)
    prog = "%s! { %s }" % (mac, ", ".join(brs))
    b += "    let r: %s = %s;\n" % (tupty("Result<u8, u8>", n), prog)
    b += "    reference_mode();\n"
    for i in range(n):
        b += "    let c%d: Result<u8, u8> = a%d;\n" % (i, i)
    for s in range(max(ds)):
        b += "    // step %d of every active branch, branch by branch, each continuing from its own value\n" % s
        for i in range(n):
            for r in refs.get((s, i), []):
                b += "    let c%d: Result<u8, u8> = %s;\n" % (i, _apply_ref("c%d" % i, r))
    b += "    let exp = %s;\n" % tup("c%d" % i for i in range(n))
    b += "    assert!(r == exp, \"C03: a branch did not continue from its own previous step value\");\n"
    if mac == "join":
        b += trace_eq(nev)
    else:
        b += "    assert!(traces_same_multiset(), \"C03: the events differ from the staged reference\");\n"
        b += "    assert!(trace_steps_monotone(), \"C03: an event of step k+1 was recorded before an event of step k\");\n"
    b += "    kani_cover!(tlen() >= %d);\n" % max(1, nev // 2)
    name = "%s_barrier_sync_%s_r%d%s" % (prop.lower(), pname(ds), rot, "" if mac == "join" else "_" + mac)
    return Harness(name, harness_fn(name, b), prog, note="profile %s, operator rotation %d" % (ds, rot))


def fam_async(prop, tier):
    """join_async!/try_join_async! with harness-controlled gates: all readiness patterns (pending count <= 1 per gate)"""
    out = []
    if tier == "quick":
        profs = [(1,), (2,), (1, 1), (2, 1), (1, 2), (2, 2), (2, 1, 2), (1, 2, 2)]
    else:
        profs = [(1,), (2,), (1, 1), (2, 1), (1, 2), (2, 2), (2, 1, 2), (1, 2, 2), (3,), (3, 2), (2, 3), (2, 2, 1), (2, 2, 2), (1, 1, 1), (1, 2, 2, 1)]
    for mac in ("join_async", "try_join_async"):
        for ds in profs:
            if mac == "try_join_async" and tier == "quick" and len(ds) > 2:
                continue
            out.append(_async_harness(prop, mac, ds))
    # later steps that BEGIN with an operator that cannot suspend (`~|>`, `~??`) and go on, in the same step, with one that can
    for starter in ("map", "inspect"):
        for mac, ds in [("join_async", (2, 2)), ("join_async", (2, 1, 2)), ("try_join_async", (2, 2))] + (
                [("join_async", (3, 2)), ("join_async", (2, 2, 2)), ("try_join_async", (1, 2, 2))] if tier != "quick" else []):
            out.append(_async_harness(prop, mac, ds, starter))
    return out


def _async_lazy_harnesses(prop):
    """C09 laziness: NOTHING the user wrote is evaluated before the first poll - initial values, block operands of any
    step, and a handler written as a block (then / map / and_then)"""
    out = []
    progs = [
        ("then_block", "join_async", "u8",
         "tag(code(K_INIT, 0, 0, 0), gate(0, code(K_POLL, 0, 0, 0), 1u8)), gate(0, code(K_POLL, 1, 0, 0), 2u8) |> { ev(code(K_CAP, 1, 0, 1)); |x: u8| x + 1 }, then => { ev(code(K_HANDLER, 0, 0, 1)); |a: u8, b: u8| core::future::ready(a + b) }", "4"),
        ("map_block", "try_join_async", "Result<u8, u8>",
         "gate(0, code(K_POLL, 0, 0, 0), Ok::<u8, u8>(1)) ~|> { ev(code(K_CAP, 0, 1, 0)); |r: Result<u8, u8>| r }, { ev(code(K_INIT, 1, 0, 0)); gate(0, code(K_POLL, 1, 0, 0), Ok::<u8, u8>(2)) }, map => { ev(code(K_HANDLER, 0, 0, 1)); |a: u8, b: u8| a + b }", "Ok(3)"),
        ("and_then_block", "try_join_async", "Result<u8, u8>",
         "gate(0, code(K_POLL, 0, 0, 0), Ok::<u8, u8>(1)), and_then => { ev(code(K_HANDLER, 0, 0, 1)); |a: u8| core::future::ready(Ok::<u8, u8>(a + 5)) }", "Ok(6)"),
    ]
    # the smallest shapes: ONE branch, ONE step, no handler (nothing to join, transpose or handle) - still nothing runs early
    progs += [
        ("single_bare", "join_async", "u8", "tag(code(K_INIT, 0, 0, 0), gate(0, code(K_POLL, 0, 0, 0), 1u8))", "1"),
        ("single_pipeline", "join_async", "u8", "tag(code(K_INIT, 0, 0, 0), gate(0, code(K_POLL, 0, 0, 0), 1u8)) |> { ev(code(K_CAP, 0, 0, 1)); |x: u8| x + 1 }", "2"),
        ("single_bare_try", "try_join_async", "Result<u8, u8>", "tag(code(K_INIT, 0, 0, 0), gate(0, code(K_POLL, 0, 0, 0), Ok::<u8, u8>(1)))", "Ok(1)"),
        ("single_two_steps", "join_async", "u8", "tag(code(K_INIT, 0, 0, 0), gate(0, code(K_POLL, 0, 0, 0), 1u8)) ~|> { ev(code(K_CAP, 0, 1, 1)); |x: u8| x + 1 }", "2"),
    ]
    for (name, mac, rty, body, exp) in progs:
        b = "    let fut = %s! { %s };\n" % (mac, body)
        b += "    assert!(tlen() == 0, \"C09: something was evaluated before the first poll\");\n"
        b += "    let (out, polls) = run(fut, 1);\n    assert!(out.is_some());\n    let r: %s = out.unwrap();\n    assert!(r == %s);\n" % (rty, exp)
        if "_block" in name:
            b += "    assert!(tlen_kind(K_HANDLER) == 1);\n"
        hn = "%s_lazy_%s" % (prop.lower(), name)
        out.append(Harness(hn, harness_fn(hn, b, unwind=TMAX + 2), "%s! { %s }" % (mac, body), note="laziness incl. block handler / block operands"))
    return out


def _async_temporaries_harnesses(prop):
    """C09 `always complete`: the temporaries of a `->` operand expression (here a guard with a Drop) must be dropped
    before the operand's result is awaited; the continuation can only finish once the guard is gone.  The step in which
    the operand sits has ONE active branch (awaited directly) or several (handed to the joiner)."""
    out = []
    progs = [
        ("one_branch", "join_async", "u8", "gate(p, code(K_POLL, 0, 0, 0), a) -> hold_guard().cont(3)", "a.wrapping_add(3)"),
        ("lone_last_step", "join_async", "(u8, u8)", "gate(p, code(K_POLL, 0, 0, 0), a) ~-> hold_guard().cont(3), gate(0, code(K_POLL, 1, 0, 0), 7u8)", "(a.wrapping_add(3), 7)"),
        ("both_active", "join_async", "(u8, u8)", "gate(p, code(K_POLL, 0, 0, 0), a) -> hold_guard().cont(3), gate(0, code(K_POLL, 1, 0, 0), 7u8) -> hold_guard().cont(1)", "(a.wrapping_add(3), 8)"),
        ("try_lone_last_step", "try_join_async", "Result<(u8, u8), u8>", "gate(p, code(K_POLL, 0, 0, 0), Ok::<u8, u8>(a)) ~-> hold_guard().cont_r(3), gate(0, code(K_POLL, 1, 0, 0), Ok::<u8, u8>(7))", "Ok((a.wrapping_add(3), 7))"),
    ]
    for (name, mac, rty, body, exp) in progs:
        b = "    let a: u8 = kani::any();\n    let p: u8 = kani::any(); kani::assume(p <= 1);\n    unsafe { HELD = 0; }\n"
        b += "    let fut = %s! { %s };\n" % (mac, body)
        b += "    let (out, _polls) = run(fut, 6);\n"
        b += "    assert!(out.is_some(), \"C09: future did not complete although every branch could (a temporary of an operand expression was kept alive across an await)\");\n"
        b += "    let r: %s = out.unwrap();\n    assert!(r == %s);\n" % (rty, exp)
        hn = "%s_temporaries_%s" % (prop.lower(), name)
        out.append(Harness(hn, harness_fn(hn, b, unwind=8), "%s! { %s }" % (mac, body), note="drop scope of operand temporaries vs await"))
    return out


def _async_harness(prop, mac, ds, starter="then"):
    """starter: the deferred operator a later step begins with; `then`: `~-> |f| gate-continuation`; `map` / `inspect`:
    `~|> g` resp. `~?? g` (cannot suspend themselves) followed IN THE SAME STEP by the gate continuation"""
    n = len(ds)
    is_try = mac.startswith("try")
    b = ""
    for i in range(n):
        for s in range(ds[i]):
            b += "    let p_%d_%d: u8 = kani::any(); kani::assume(p_%d_%d <= 1);\n" % (i, s, i, s)
    brs = []
    for i in range(n):
        v0 = "Ok::<u8, u8>(%d)" % K(i, 0) if is_try else "%du8" % K(i, 0)
        t = "gate(p_%d_0, code(K_POLL, %d, 0, 0), %s)" % (i, i, v0)
        for s in range(1, ds[i]):
            cont = "|f| %s(f, p_%d_%d, code(K_CALL, %d, %d, 0), %d)" % ("then_gate_r" if is_try else "then_gate", i, s, i, s, K(i, s))
            if starter == "then":
                t += " ~-> " + cont
            elif starter == "map":
                t += (" ~|> |r: Result<u8, u8>| r -> " if is_try else " ~|> |x: u8| x -> ") + cont
            else:
                t += (" ~?? |r: &Result<u8, u8>| { let _ = r; } -> " if is_try else " ~?? |x: &u8| { let _ = x; } -> ") + cont
        brs.append(t)
    prog = "%s! { %s }" % (mac, ", ".join(brs))
    b += "    let fut = %s;\n" % prog
    b += "    assert!(tlen() == 0, \"C09: evaluated something before the first poll\");\n"
    # polls needed when all active branches of a step progress concurrently: 1 + sum_s max_i p_is
    need = "1u8"
    for s in range(max(ds)):
        act = [i for i in range(n) if ds[i] > s]
        m = "p_%d_%d" % (act[0], s)
        for i in act[1:]:
            m = "core::cmp::max(%s, p_%d_%d)" % (m, i, s)
        need += " + " + m
    b += "    let need: u8 = %s;\n" % need
    maxp = 1 + max(ds)
    b += "    let (out, polls) = run(fut, %d);\n" % maxp
    vals = []
    for i in range(n):
        v = K(i, 0)
        for s in range(1, ds[i]):
            v = (v + K(i, s)) % 256
        vals.append(str(v))
    if is_try:
        rty = "Result<%s, u8>" % tupty("u8", n)
        exp = "Ok(%s)" % tup(vals)
    else:
        rty = tupty("u8", n)
        exp = tup(vals)
    if prop == "C09":
        b += "    assert!(out.is_some(), \"C09: future did not complete although every branch could\");\n"
        b += "    assert!(polls <= need, \"C09: a pending branch blocked a ready sibling (more polls than concurrent progress needs)\");\n"
        b += "    assert!(wake_ok(), \"C09: a Pending answer without a wake-up of the macro's future\");\n"
        b += "    let r: %s = out.unwrap();\n    assert!(r == %s);\n" % (rty, exp)
    else:
        b += "    assert!(out.is_some());\n    let r: %s = out.unwrap();\n" % rty
        b += "    assert!(r == %s, \"C03: a branch did not continue from its own previous step value\");\n" % exp
        nmaxev = 3 * sum(ds)
        b += "    assert!(tlen() <= %d);\n" % nmaxev
        for k in range(1, nmaxev):
            b += "    assert!(%d >= tlen() || step_of(tr(%d)) <= step_of(tr(%d)), \"C03: an event of step k+1 precedes an event of step k\");\n" % (k, k - 1, k)
    b += "    kani_cover!(polls == %d);\n" % maxp
    if n >= 2:
        b += "    kani_cover!(p_0_0 == 1 && p_1_0 == 0);\n    kani_cover!(p_0_0 == 0 && p_1_0 == 1);\n"
    name = "%s_async_%s_%s%s" % (prop.lower(), mac, pname(ds), "" if starter == "then" else "_" + starter)
    return Harness(name, harness_fn(name, b, unwind=(2 + maxp)), prog, note="profile %s, pending count <= 1 per gate (one gate per branch and step), later steps start with %s" % (ds, starter))


# ======================================================================================

FAMILIES = {
    # + named branches (`let n0 = ..`, `let mut n1 = ..`) whose later steps read the names: a step starts from the branch's NAME
    "C03": [fam_barrier_sync, fam_async, lambda p, t: [_let_harness(p, mac, ds, mask) for mac in ("join", "try_join", "join_async")
                                                       for (ds, mask) in [((2, 2), 3), ((2, 3, 1), 7)] if not (mac == "join_async" and len(ds) > 2)]],
    # + the grids of C17 with a block capture on every action: every element of the result is still its own branch's value
    "C04": [fam_pos, lambda p, t: [h for h in fam_names(p, t) if h.name.startswith("c17_names_")]],
    "C05": [fam_try],
    "C06": [fam_try],
    "C09": [fam_async],
}


def families(pid, tier):
    out = []
    for f in FAMILIES.get(pid, []):
        out += f(pid, tier)
    return out


def dedup(hs):
    seen = set()
    out = []
    for h in hs:
        if h.name not in seen:
            seen.add(h.name)
            out.append(h)
    return out


def render(hs):
    hs = dedup(hs)
    s = "#![allow(unused, unused_mut, unused_parens, unused_braces, static_mut_refs, clippy::all)]\n"
    s += "pub mod support;\npub use support::*;\nuse join::*;\n\n"
    for h in hs:
        s += "// program: %s\n%s\n" % (h.program.replace("\n", " "), h.code)
    s += "#[cfg(not(kani))]\npub fn run_harness(name: &str) -> bool {\n    match name {\n"
    for h in hs:
        s += "        \"%s\" => %s(),\n" % (h.name, h.name)
    s += "        _ => return false,\n    }\n    true\n}\n"
    return s


# ======================================================================================
# Family OPS (C01 values, C10 traces): every operator == its documented method call
# ======================================================================================

OPT = "    let o: Option<u8> = if kani::any::<bool>() { Some(kani::any()) } else { None };\n"
RES = "    let r0: Result<u8, u8> = if kani::any::<bool>() { Ok(kani::any()) } else { Err(kani::any()) };\n"
ARR = "    let a: [u8; 3] = [kani::any(), kani::any(), kani::any()];\n"
ARR2 = "    let b2: [u8; 2] = [kani::any(), kani::any()];\n"


def C(k):
    return "code(K_CALL, 0, 0, %d)" % k


# name, inputs, macro branch, documented chain, result type, needs unwinding (iterators)
OPS = [
    ("map", OPT, "o |> |x: u8| { ev(%s); x.wrapping_add(1) }" % C(1), "o.map(|x: u8| { ev(%s); x.wrapping_add(1) })" % C(1), "Option<u8>", 0),
    ("and_then", OPT, "o => |x: u8| { ev(%s); if x > 3 { Some(x) } else { None } }" % C(1), "o.and_then(|x: u8| { ev(%s); if x > 3 { Some(x) } else { None } })" % C(1), "Option<u8>", 0),
    ("filter", OPT, "o ?> |x: &u8| { ev(%s); *x > 3 }" % C(1), "o.filter(|x: &u8| { ev(%s); *x > 3 })" % C(1), "Option<u8>", 0),
    ("dot", OPT, "o .. is_some()", "o.is_some()", "bool", 0),
    ("dot_gt", OPT, "o >. unwrap_or(7)", "o.unwrap_or(7)", "u8", 0),
    ("then", OPT, "o -> |v: Option<u8>| { ev(%s); v.unwrap_or(9) }" % C(1), "(|v: Option<u8>| { ev(%s); v.unwrap_or(9) })(o)" % C(1), "u8", 0),
    ("or", OPT, "o <| tag(%s, Some(5u8))" % C(1), "o.or(tag(%s, Some(5u8)))" % C(1), "Option<u8>", 0),
    ("or_else", OPT, "o <= || { ev(%s); Some(6u8) }" % C(1), "o.or_else(|| { ev(%s); Some(6u8) })" % C(1), "Option<u8>", 0),
    ("or_else_res", RES, "r0 <= |e: u8| { ev(%s); if e > 3 { Ok::<u8, u8>(e) } else { Err(e.wrapping_add(1)) } }" % C(1),
     "r0.or_else(|e: u8| { ev(%s); if e > 3 { Ok::<u8, u8>(e) } else { Err(e.wrapping_add(1)) } })" % C(1), "Result<u8, u8>", 0),
    ("map_err", RES, "r0 !> |e: u8| { ev(%s); e.wrapping_add(1) }" % C(1), "r0.map_err(|e: u8| { ev(%s); e.wrapping_add(1) })" % C(1), "Result<u8, u8>", 0),
    ("inspect", OPT, "o ?? |v: &Option<u8>| { ev(code(K_CALL, 0, 0, v.is_some() as u16)); }",
     "{ let t = o; (|v: &Option<u8>| { ev(code(K_CALL, 0, 0, v.is_some() as u16)); })(&t); t }", "Option<u8>", 0),
    ("collect", ARR, "a.into_iter() =>[] Vec<u8>", "a.into_iter().collect::<Vec<u8>>()", "Vec<u8>", 5),
    ("collect_bare", ARR, "a.into_iter() =>[]", "a.into_iter().collect()", "Vec<u8>", 5),
    ("chain", ARR + ARR2, "a.into_iter() >@> b2.into_iter() ^@ 0u8, |acc: u8, x: u8| acc.wrapping_mul(3).wrapping_add(x)",
     "a.into_iter().chain(b2.into_iter()).fold(0u8, |acc: u8, x: u8| acc.wrapping_mul(3).wrapping_add(x))", "u8", 7),
    ("find_map", ARR, "a.into_iter() ?|>@ |x: u8| { ev(%s); if x > 3 { Some(x.wrapping_add(1)) } else { None } }" % C(1),
     "a.into_iter().find_map(|x: u8| { ev(%s); if x > 3 { Some(x.wrapping_add(1)) } else { None } })" % C(1), "Option<u8>", 5),
    ("filter_map", ARR, "a.into_iter() ?|> |x: u8| { ev(%s); if x > 3 { Some(x.wrapping_add(1)) } else { None } } ^@ 0u8, |acc: u8, x: u8| acc.wrapping_mul(3).wrapping_add(x)" % C(1),
     "a.into_iter().filter_map(|x: u8| { ev(%s); if x > 3 { Some(x.wrapping_add(1)) } else { None } }).fold(0u8, |acc: u8, x: u8| acc.wrapping_mul(3).wrapping_add(x))" % C(1), "u8", 5),
    ("enumerate", ARR, "a.into_iter() |n> ^@ 0u8, |acc: u8, (i, x): (usize, u8)| acc.wrapping_mul(3).wrapping_add(x).wrapping_add(i as u8)",
     "a.into_iter().enumerate().fold(0u8, |acc: u8, (i, x): (usize, u8)| acc.wrapping_mul(3).wrapping_add(x).wrapping_add(i as u8))", "u8", 5),
    ("partition", ARR, "a.into_iter() ?&!> |x: &u8| { ev(%s); *x > 3 }" % C(1), "a.into_iter().partition(|x: &u8| { ev(%s); *x > 3 })" % C(1), "(Acc, Acc)", 5),
    ("flatten", ARR + ARR2, "[b2, b2, [a[0], a[1]]].into_iter() ^^> ^@ 0u8, |acc: u8, x: u8| acc.wrapping_mul(3).wrapping_add(x)",
     "[b2, b2, [a[0], a[1]]].into_iter().flatten().fold(0u8, |acc: u8, x: u8| acc.wrapping_mul(3).wrapping_add(x))", "u8", 8),
    ("fold", ARR, "a.into_iter() ^@ tag(%s, 1u8), |acc: u8, x: u8| { ev(%s); acc.wrapping_mul(3).wrapping_add(x) }" % (C(1), C(2)),
     "a.into_iter().fold(tag(%s, 1u8), |acc: u8, x: u8| { ev(%s); acc.wrapping_mul(3).wrapping_add(x) })" % (C(1), C(2)), "u8", 5),
    ("try_fold", ARR, "a.into_iter() ?^@ 0u8, |acc: u8, x: u8| { ev(%s); acc.checked_add(x) }" % C(1),
     "a.into_iter().try_fold(0u8, |acc: u8, x: u8| { ev(%s); acc.checked_add(x) })" % C(1), "Option<u8>", 5),
    ("find", ARR, "a.into_iter() ?@ |x: &u8| { ev(%s); *x > 3 }" % C(1), "a.into_iter().find(|x: &u8| { ev(%s); *x > 3 })" % C(1), "Option<u8>", 5),
    ("zip", ARR + ARR2, "a.into_iter() >^> b2.into_iter() ^@ 0u8, |acc: u8, (x, y): (u8, u8)| acc.wrapping_mul(3).wrapping_add(x).wrapping_sub(y)",
     "a.into_iter().zip(b2.into_iter()).fold(0u8, |acc: u8, (x, y): (u8, u8)| acc.wrapping_mul(3).wrapping_add(x).wrapping_sub(y))", "u8", 5),
    ("unzip", ARR + ARR2, "[(a[0], b2[0]), (a[1], b2[1])].into_iter() <-> u8, u8, Vec<u8>, Vec<u8>",
     "[(a[0], b2[0]), (a[1], b2[1])].into_iter().unzip::<u8, u8, Vec<u8>, Vec<u8>>()", "(Vec<u8>, Vec<u8>)", 5),
    # four DIFFERENT type operands: each must land in its own generic slot
    ("unzip_asym", ARR + ARR2, "[(a[0], b2[0] as u16), (a[1], b2[1] as u16)].into_iter() <-> u8, u16, Vec<u8>, Vec<u16>",
     "[(a[0], b2[0] as u16), (a[1], b2[1] as u16)].into_iter().unzip::<u8, u16, Vec<u8>, Vec<u16>>()", "(Vec<u8>, Vec<u16>)", 5),
    ("unzip_bare", ARR + ARR2, "[(a[0], b2[0]), (a[1], b2[1])].into_iter() <->", "[(a[0], b2[0]), (a[1], b2[1])].into_iter().unzip()", "(Vec<u8>, Vec<u8>)", 5),
]

# chains mixing operators, and operand / initial-value shapes (binds-looser initial values: fix 0941b1e)
CHAINS = [
    ("chain_opt4", OPT, "o |> |x: u8| x.wrapping_add(1) => |x: u8| if x > 3 { Some(x) } else { None } ?> |x: &u8| *x < 200 <| Some(1u8)",
     "o.map(|x: u8| x.wrapping_add(1)).and_then(|x: u8| if x > 3 { Some(x) } else { None }).filter(|x: &u8| *x < 200).or(Some(1u8))", "Option<u8>", 0),
    ("chain_res4", RES, "r0 !> |e: u8| e.wrapping_add(1) <= |e: u8| if e > 9 { Ok::<u8, u8>(e) } else { Err(e) } |> |x: u8| x.wrapping_mul(2) .. ok()",
     "r0.map_err(|e: u8| e.wrapping_add(1)).or_else(|e: u8| if e > 9 { Ok::<u8, u8>(e) } else { Err(e) }).map(|x: u8| x.wrapping_mul(2)).ok()", "Option<u8>", 0),
    ("chain_iter5", ARR, "a.into_iter() ?> |x: &u8| *x > 1 |> |x: u8| x.wrapping_mul(2) |n> ?|> |(i, x): (usize, u8)| if i < 2 { Some(x) } else { None } ^@ 0u8, |acc: u8, x: u8| acc.wrapping_add(x)",
     "a.into_iter().filter(|x: &u8| *x > 1).map(|x: u8| x.wrapping_mul(2)).enumerate().filter_map(|(i, x): (usize, u8)| if i < 2 { Some(x) } else { None }).fold(0u8, |acc: u8, x: u8| acc.wrapping_add(x))", "u8", 5),
    ("chain_deferred", OPT, "o |> |x: u8| x.wrapping_add(1) ~=> |x: u8| if x > 3 { Some(x) } else { None } ~?> |x: &u8| *x < 200 ~<| Some(1u8)",
     "o.map(|x: u8| x.wrapping_add(1)).and_then(|x: u8| if x > 3 { Some(x) } else { None }).filter(|x: &u8| *x < 200).or(Some(1u8))", "Option<u8>", 0),
    ("operand_blocks_opt", OPT, "{ o } |> { |x: u8| x.wrapping_add(1) } <| { Some(2u8) } ?> { |x: &u8| *x > 1 } <= { || Some(3u8) }",
     "({ o }).map({ |x: u8| x.wrapping_add(1) }).or({ Some(2u8) }).filter({ |x: &u8| *x > 1 }).or_else({ || Some(3u8) })", "Option<u8>", 0),
    ("operand_blocks_res_steps", RES, "r0 !> { |e: u8| e.wrapping_add(1) } <= { |e: u8| if e > 9 { Ok::<u8, u8>(e) } else { Err(e) } } ~<| { Err::<u8, u8>(7) } ~!> { |e: u8| e.wrapping_mul(2) } => { |x: u8| Ok::<u8, u8>(x) }",
     "r0.map_err({ |e: u8| e.wrapping_add(1) }).or_else({ |e: u8| if e > 9 { Ok::<u8, u8>(e) } else { Err(e) } }).or({ Err::<u8, u8>(7) }).map_err({ |e: u8| e.wrapping_mul(2) }).and_then({ |x: u8| Ok::<u8, u8>(x) })", "Result<u8, u8>", 0),
    ("init_binary", "    let x: u8 = kani::any();\n", "x & 0x0f | 1 .. pow(2)", "(x & 0x0f | 1).pow(2)", "u8", 0),
    ("init_unary", "    let y: i8 = kani::any(); kani::assume(y > -11 && y < 11);\n", "-y .. pow(2)", "(-y).pow(2)", "i8", 0),
    # literal operands of the unary / binary / range kinds (a `-2` is `Unary(Neg, Lit)`, not a literal)
    ("init_neg_literal", "    let k: u32 = kani::any(); kani::assume(k < 3);\n", "-2i8 .. pow(k)", "(-2i8).pow(k)", "i8", 4),
    ("init_neg_literal_abs", "", "-7i8 .. abs() .. wrapping_add(3)", "(-7i8).abs().wrapping_add(3)", "i8", 0),
    ("init_not_literal", "", "!1u8 .. count_ones()", "(!1u8).count_ones()", "u32", 0),
    ("init_binary_literals", "    let k: u32 = kani::any(); kani::assume(k < 3);\n", "1u8 + 2u8 .. pow(k)", "(1u8 + 2u8).pow(k)", "u8", 4),
    ("init_cast", "    let x: u8 = kani::any();\n", "x as u16 .. wrapping_mul(300)", "(x as u16).wrapping_mul(300)", "u16", 0),
    ("init_ref", "    let x: u8 = kani::any();\n", "&x .. wrapping_add(1)", "(&x).wrapping_add(1)", "u8", 0),
    ("init_if", "    let x: u8 = kani::any();\n", "if x > 5 { Some(x) } else { None } |> |v: u8| v.wrapping_add(1)", "(if x > 5 { Some(x) } else { None }).map(|v: u8| v.wrapping_add(1))", "Option<u8>", 0),
    ("init_match", "    let x: u8 = kani::any();\n", "match x { 0 => None, v => Some(v) } |> |v: u8| v.wrapping_add(1)", "(match x { 0 => None, v => Some(v) }).map(|v: u8| v.wrapping_add(1))", "Option<u8>", 0),
    ("init_block", "    let x: u8 = kani::any();\n", "{ let t = x.wrapping_add(1); Some(t) } |> |v: u8| v.wrapping_add(1)", "({ let t = x.wrapping_add(1); Some(t) }).map(|v: u8| v.wrapping_add(1))", "Option<u8>", 0),
    ("init_call_chain", "    let x: u8 = kani::any();\n", "Some(x).filter(|v| *v > 2).or(Some(9)) |> |v: u8| v.wrapping_add(1)", "Some(x).filter(|v| *v > 2).or(Some(9)).map(|v: u8| v.wrapping_add(1))", "Option<u8>", 0),
    ("init_macro", "    let x: u8 = kani::any();\n", "core::cmp::max(x, 3u8).checked_add(250) |> |v: u8| v.wrapping_add(1)", "core::cmp::max(x, 3u8).checked_add(250).map(|v: u8| v.wrapping_add(1))", "Option<u8>", 0),
    ("operand_closure_ret", OPT, "o |> |x: u8| -> u8 { x.wrapping_add(1) } => |x: u8| -> Option<u8> { Some(x) }", "o.map(|x: u8| -> u8 { x.wrapping_add(1) }).and_then(|x: u8| -> Option<u8> { Some(x) })", "Option<u8>", 0),
    ("operand_turbofish", OPT, "o |> core::convert::identity::<u8> => Some::<u8>", "o.map(core::convert::identity::<u8>).and_then(Some::<u8>)", "Option<u8>", 0),
    ("operand_shift", OPT, "o |> |x: u8| x >> 1 |> |x: u8| (x << 1) | (x >> 7)", "o.map(|x: u8| x >> 1).map(|x: u8| (x << 1) | (x >> 7))", "Option<u8>", 0),
    ("operand_lookalikes", OPT, "o |> |x: u8| { let t = (|y: u8| -> u8 { y })(x); let _s = \"|> => ~ <<< ,\"; [t, 0][(t > 200) as usize] } ?> |x: &u8| matches!(*x, 0..=9 | 20..=255)",
     "o.map(|x: u8| { let t = (|y: u8| -> u8 { y })(x); let _s = \"|> => ~ <<< ,\"; [t, 0][(t > 200) as usize] }).filter(|x: &u8| matches!(*x, 0..=9 | 20..=255))", "Option<u8>", 0),
    ("collect_after_closure_ret", ARR, "a.into_iter() |> |x: u8| -> u8 { x.wrapping_add(1) } =>[] Vec<u8>", "a.into_iter().map(|x: u8| -> u8 { x.wrapping_add(1) }).collect::<Vec<u8>>()", "Vec<u8>", 5),
]

OPT_OPS_POOL = [
    ("|> |x: u8| { ev(%s); x.wrapping_add(1) }", ".map(|x: u8| { ev(%s); x.wrapping_add(1) })"),
    ("=> |x: u8| { ev(%s); if x > 3 { Some(x) } else { None } }", ".and_then(|x: u8| { ev(%s); if x > 3 { Some(x) } else { None } })"),
    ("?> |x: &u8| { ev(%s); *x < 200 }", ".filter(|x: &u8| { ev(%s); *x < 200 })"),
    ("<| tag(%s, Some(5u8))", ".or(tag(%s, Some(5u8)))"),
    ("<= || { ev(%s); Some(6u8) }", ".or_else(|| { ev(%s); Some(6u8) })"),
    ("?? |v: &Option<u8>| { ev(%s); let _ = v; }", "@inspect@|v: &Option<u8>| { ev(%s); let _ = v; }"),
    ("-> |v: Option<u8>| { ev(%s); v.or(Some(2)) }", "@call@|v: Option<u8>| { ev(%s); v.or(Some(2)) }"),
]


def _ops_harness(prop, name, inputs, mac_branch, chain, rty, unwind, mac="join", with_trace=False, nev=8):
    b = inputs
    prog = "%s! { %s }" % (mac, mac_branch)
    b += "    let r: %s = %s;\n" % (rty, prog)
    b += "    reference_mode();\n"
    b += "    let exp: %s = %s;\n" % (rty, chain)
    b += "    assert!(r == exp, \"C01: macro result differs from the documented method chain\");\n"
    if with_trace:
        b += trace_eq(nev)
    hn = "%s_ops_%s_%s" % (prop.lower(), mac, name)
    return Harness(hn, harness_fn(hn, b, unwind=unwind or None), prog, note="operator program `%s` vs `%s`" % (mac_branch, chain))


def fam_ops(prop, tier):
    out = []
    tr_ = prop == "C10"
    for (name, inputs, m, c, rty, uw) in OPS:
        out.append(_ops_harness(prop, name, inputs, m, c, rty, uw, "join", tr_))
    if prop == "C01":
        for (name, inputs, m, c, rty, uw) in CHAINS:
            out.append(_ops_harness(prop, name, inputs, m, c, rty, uw, "join", False))
    # try_join!: the chain must end in Option/Result; the single-branch result is that value
    for (name, inputs, m, c, rty, uw) in OPS:
        if rty in ("Option<u8>", "Result<u8, u8>"):
            out.append(_ops_harness(prop, name, inputs, m, c, rty, uw, "try_join", tr_))
    # adjacency: ordered pairs of Option->Option operators, second one instant or deferred
    pool = OPT_OPS_POOL
    pairs = [(i, j) for i in range(len(pool)) for j in range(len(pool))]
    if tier == "quick":
        pairs = [(i, (i * 3 + 1) % len(pool)) for i in range(len(pool))] + [(i, i) for i in range(0, len(pool), 2)]
    for (i, j) in pairs:
        for deferred in (False, True):
            if tier == "quick" and deferred and (i + j) % 2:
                continue
            m1, c1 = pool[i]
            m2, c2 = pool[j]
            mb = "o " + (m1 % C(1)) + (" ~" if deferred else " ") + (m2 % C(2))
            ch = _apply_ref(_apply_ref("o", c1 % C(1)), c2 % C(2))
            out.append(_ops_harness(prop, "pair_%d_%d_%s" % (i, j, "d" if deferred else "i"), OPT, mb, ch, "Option<u8>", 0, "join", tr_))
    return out


# ======================================================================================
# Family WRAP (C02): `X >>> inner <<< rest`  ==  `.x(|v| v inner) rest`
# ======================================================================================

OO = "    let oo: Option<Option<u8>> = if kani::any::<bool>() { Some(if kani::any::<bool>() { Some(kani::any()) } else { None }) } else { None };\n"
OOO = "    let ooo: Option<Option<Option<u8>>> = if kani::any::<bool>() { Some(if kani::any::<bool>() { Some(if kani::any::<bool>() { Some(kani::any()) } else { None }) } else { None }) } else { None };\n"
RR = "    let rr: Result<u8, Result<u8, u8>> = if kani::any::<bool>() { Ok(kani::any()) } else { Err(if kani::any::<bool>() { Ok(kani::any()) } else { Err(kani::any()) }) };\n"
OARR = "    let oa: [Option<u8>; 3] = [if kani::any::<bool>() { Some(kani::any()) } else { None }, if kani::any::<bool>() { Some(kani::any()) } else { None }, Some(kani::any())];\n"
F1 = "|x: u8| { ev(%s); x.wrapping_add(1) }"
SUM = "^@ 0u8, |acc: u8, x: u8| acc.wrapping_mul(3).wrapping_add(x)"
SUMC = ".fold(0u8, |acc: u8, x: u8| acc.wrapping_mul(3).wrapping_add(x))"

WRAPS = [
    # name, inputs, macro branch, hand-nested reference, type, unwind
    ("map", OO, "oo |> >>> |> %s <<< |> |v: Option<u8>| v.or(Some(7))" % (F1 % C(1)), "oo.map(|v| v.map(%s)).map(|v: Option<u8>| v.or(Some(7)))" % (F1 % C(1)), "Option<Option<u8>>", 0),
    ("and_then", OO, "oo => >>> ?> |x: &u8| { ev(%s); *x > 3 } <<< |> |x: u8| x.wrapping_add(2)" % C(1), "oo.and_then(|v| v.filter(|x: &u8| { ev(%s); *x > 3 })).map(|x: u8| x.wrapping_add(2))" % C(1), "Option<u8>", 0),
    ("filter", OO, "oo ?> >>> .. is_some() <<< |> |v: Option<u8>| v.unwrap_or(1)", "oo.filter(|v| v.is_some()).map(|v: Option<u8>| v.unwrap_or(1))", "Option<u8>", 0),
    ("inspect", OO, "oo ?? >>> -> |v: &Option<Option<u8>>| { ev(code(K_CALL, 0, 0, v.is_some() as u16)); } <<< |> |v: Option<u8>| v.unwrap_or(1)",
     "{ let t = oo; (|v| ((|v: &Option<Option<u8>>| { ev(code(K_CALL, 0, 0, v.is_some() as u16)); })(v)))(&t); t }.map(|v: Option<u8>| v.unwrap_or(1))", "Option<u8>", 0),
    ("filter_map", OARR, "oa.into_iter() ?|> >>> |> %s <<< %s" % (F1 % C(1), SUM), "oa.into_iter().filter_map(|v| v.map(%s))%s" % (F1 % C(1), SUMC), "u8", 5),
    ("find", ARR, "a.into_iter() ?@ >>> .. gt(&3) <<< |> |x: u8| x.wrapping_add(2)", "a.into_iter().find(|v| v.gt(&3)).map(|x: u8| x.wrapping_add(2))", "Option<u8>", 5),
    ("find_map", OARR, "oa.into_iter() ?|>@ >>> |> %s <<< |> |x: u8| x.wrapping_add(2)" % (F1 % C(1)), "oa.into_iter().find_map(|v| v.map(%s)).map(|x: u8| x.wrapping_add(2))" % (F1 % C(1)), "Option<u8>", 5),
    ("partition", ARR, "a.into_iter() ?&!> >>> .. gt(&3) <<<", "a.into_iter().partition(|v| v.gt(&3))", "(Acc, Acc)", 5),
    ("or_else", RR, "rr <= >>> !> |e: u8| { ev(%s); e.wrapping_add(1) } <<< |> |x: u8| x.wrapping_add(2)" % C(1), "rr.or_else(|v| v.map_err(|e: u8| { ev(%s); e.wrapping_add(1) })).map(|x: u8| x.wrapping_add(2))" % C(1), "Result<u8, u8>", 0),
    ("map_err", RR, "rr !> >>> <| Ok::<u8, u8>(4) <<< |> |x: u8| x.wrapping_add(2)", "rr.map_err(|v| v.or(Ok::<u8, u8>(4))).map(|x: u8| x.wrapping_add(2))", "Result<u8, Result<u8, u8>>", 0),
    # closing positions
    ("map_implicit_end", OO, "oo |> >>> |> %s" % (F1 % C(1)), "oo.map(|v| v.map(%s))" % (F1 % C(1)), "Option<Option<u8>>", 0),
    ("map_implicit_step", OO, "oo |> >>> |> %s ~|> |v: Option<u8>| v.or(Some(7))" % (F1 % C(1)), "oo.map(|v| v.map(%s)).map(|v: Option<u8>| v.or(Some(7)))" % (F1 % C(1)), "Option<Option<u8>>", 0),
    ("map_empty_inner", OO, "oo |> >>> <<< |> |v: Option<u8>| v.or(Some(7))", "oo.map(|v| v).map(|v: Option<u8>| v.or(Some(7)))", "Option<Option<u8>>", 0),
    ("map_deferred_wrapper", OO, "oo ~|> >>> |> %s <<< |> |v: Option<u8>| v.or(Some(7))" % (F1 % C(1)), "oo.map(|v| v.map(%s)).map(|v: Option<u8>| v.or(Some(7)))" % (F1 % C(1)), "Option<Option<u8>>", 0),
    # several explicit `<<<` directly before a `~` operator in ONE branch (three steps, a wrapper closed explicitly at the end of two)
    ("two_closes_before_deferred", OO, "oo |> >>> |> %s <<< ~|> >>> |> |x: u8| x.wrapping_mul(3) <<< ~|> |v: Option<u8>| v.or(Some(7)) |> |v: Option<u8>| v.map(|x| x.wrapping_add(1))" % (F1 % C(1)),
     "oo.map(|v| v.map(%s)).map(|v| v.map(|x: u8| x.wrapping_mul(3))).map(|v: Option<u8>| v.or(Some(7))).map(|v: Option<u8>| v.map(|x| x.wrapping_add(1)))" % (F1 % C(1)), "Option<Option<u8>>", 0),
    ("three_closes_before_deferred", OO, "oo |> >>> |> %s <<< ~|> >>> ?> |x: &u8| *x > 3 <<< ~|> >>> |> |x: u8| x.wrapping_mul(3) <<< ~|> |v: Option<u8>| v.or(Some(7))" % (F1 % C(1)),
     "oo.map(|v| v.map(%s)).map(|v| v.filter(|x: &u8| *x > 3)).map(|v| v.map(|x: u8| x.wrapping_mul(3))).map(|v: Option<u8>| v.or(Some(7)))" % (F1 % C(1)), "Option<Option<u8>>", 0),
    ("map_block_capture_inside", OO, "oo |> >>> |> { let k = tag(code(K_CAP, 0, 0, 1), 3u8); move |x: u8| x.wrapping_add(k) } <<<", "{ let k = tag(code(K_CAP, 0, 0, 1), 3u8); oo.map(|v| v.map(move |x: u8| x.wrapping_add(k))) }", "Option<Option<u8>>", 0),
    # block captures of ERROR operators inside the inner chain: evaluated once, before the step, also when the closure is
    # never called or called once per item
    ("err_block_capture_inside", OO, "oo |> >>> <| { tag(code(K_CAP, 0, 0, 1), Some(9u8)) } <<<",
     "{ let k = tag(code(K_CAP, 0, 0, 1), Some(9u8)); oo.map(|v| v.or(k)) }", "Option<Option<u8>>", 0),
    ("err_block_capture_inside_or_else", OO, "oo |> >>> <= { let k = tag(code(K_CAP, 0, 0, 2), 5u8); move || Some(k) } <<< |> |v: Option<u8>| v.or(Some(7))",
     "{ let f = { let k = tag(code(K_CAP, 0, 0, 2), 5u8); move || Some(k) }; oo.map(|v| v.or_else(f)).map(|v: Option<u8>| v.or(Some(7))) }", "Option<Option<u8>>", 0),
    ("err_block_capture_inside_per_item", OARR, "oa.into_iter() |> >>> <| { tag(code(K_CAP, 0, 0, 1), Some(9u8)) } <<< =>[] Vec<Option<u8>>",
     "{ let k = tag(code(K_CAP, 0, 0, 1), Some(9u8)); oa.into_iter().map(|v| v.or(k)).collect::<Vec<Option<u8>>>() }", "Vec<Option<u8>>", 5),
    ("err_block_capture_inside_map_err", RR, "rr !> >>> !> { let k = tag(code(K_CAP, 0, 0, 3), 2u8); move |e: u8| e.wrapping_add(k) } <<<",
     "{ let f = { let k = tag(code(K_CAP, 0, 0, 3), 2u8); move |e: u8| e.wrapping_add(k) }; rr.map_err(|v| v.map_err(f)) }", "Result<u8, Result<u8, u8>>", 0),
    # depth 2 and 3
    ("depth2", OOO, "ooo |> >>> |> >>> |> %s <<< |> |v: Option<u8>| v.or(Some(7)) <<< |> |v: Option<Option<u8>>| v.or(Some(Some(8)))" % (F1 % C(1)),
     "ooo.map(|v| v.map(|v| v.map(%s)).map(|v: Option<u8>| v.or(Some(7)))).map(|v: Option<Option<u8>>| v.or(Some(Some(8))))" % (F1 % C(1)), "Option<Option<Option<u8>>>", 0),
    ("depth2_implicit", OOO, "ooo |> >>> |> >>> |> %s" % (F1 % C(1)), "ooo.map(|v| v.map(|v| v.map(%s)))" % (F1 % C(1)), "Option<Option<Option<u8>>>", 0),
    ("depth2_mixed", OOO, "ooo => >>> |> >>> ?> |x: &u8| *x > 3 <<< <<< |> |v: Option<u8>| v.or(Some(7))", "ooo.and_then(|v| v.map(|v| v.filter(|x: &u8| *x > 3))).map(|v: Option<u8>| v.or(Some(7)))", "Option<Option<u8>>", 0),
    ("depth2_state", OOO, "ooo |> >>> |> >>> |> |x: u8| { hits += 1; x.wrapping_add(1) } <<< <<<", "@state@", "Option<Option<Option<u8>>>", 0),
]


def fam_wrap(prop, tier):
    out = []
    for (name, inputs, m, c, rty, uw) in WRAPS:
        for mac in ("join", "try_join"):
            if mac == "try_join" and not (rty.startswith("Option") or rty.startswith("Result")):
                continue
            if c == "@state@":
                # the wrapper closures borrow (not move) the caller's state: C02 desugaring is `|v| v inner`, not `move |v| ..`
                b = inputs + "    let mut hits: u8 = 0;\n"
                prog = "%s! { %s }" % (mac, m)
                b += "    let r: %s = %s;\n" % (rty, prog)
                b += "    let exp: %s = ooo.map(|v| v.map(|v| v.map(|x: u8| x.wrapping_add(1))));\n" % rty
                b += "    assert!(r == exp);\n"
                b += "    assert!(hits == (matches!(ooo, Some(Some(Some(_)))) as u8), \"C02: the inner chain did not run in the caller's environment (closure captured by move?)\");\n"
                hn = "%s_wrap_%s_%s" % (prop.lower(), mac, name)
                out.append(Harness(hn, harness_fn(hn, b), prog, note="nested wrappers mutate a caller local"))
                continue
            h = _ops_harness(prop, name, inputs, m, c, rty, uw, mac, True, 8)
            h.name = "%s_wrap_%s_%s" % (prop.lower(), mac, name)
            h.code = h.code.replace("%s_ops_%s_%s" % (prop.lower(), mac, name), h.name).replace("C01: macro result differs from the documented method chain", "C02: result differs from the hand-nested closures")
            out.append(h)
    return out


# both operands of fold / try_fold as stateful blocks: the documented call evaluates its arguments left to right
FAMILIES["C01"] = [fam_ops, lambda p, t: [h for h in _capture_special(p) if "fold2" in h.name]]
FAMILIES["C02"] = [fam_wrap]
FAMILIES["C10"] = [fam_ops]


# ======================================================================================
# Family TOK (C10, C19): move-only values are moved, never cloned, dropped exactly once
# ======================================================================================

def fam_tok(prop, tier):
    out = []
    progs = [
        ("join2", "join", "(Option<Tok>, Option<Tok>)",
         "Some(Tok::new(a)) |> |t: Tok| Tok::new(t.0.wrapping_add(1)) ~=> |t: Tok| if keep { Some(t) } else { None } ~|> |t: Tok| t, Some(Tok::new(2)) ~?> |t: &Tok| t.0 > 1",
         "r.0.is_some() as i32 + r.1.is_some() as i32", "(Some(x), _) => x.0 == a.wrapping_add(1), _ => !keep"),
        ("try3", "try_join", "Option<(Tok, Tok, Tok)>",
         "Some(Tok::new(a)) ~|> |t: Tok| t ~=> |t: Tok| if keep { Some(t) } else { None }, Some(Tok::new(2)), Some(Tok::new(3)) ~|> |t: Tok| Tok::new(t.0 + 1)",
         "if r.is_some() { 3 } else { 0 }", "Some((x, y, z)) => keep && x.0 == a && y.0 == 2 && z.0 == 4, None => !keep"),
        ("try_map_handler", "try_join", "Option<Tok>",
         "Some(Tok::new(a)) ~|> |t: Tok| t, if keep { Some(Tok::new(2)) } else { None }, map => |x: Tok, y: Tok| Tok::new(x.0.wrapping_add(y.0))",
         "r.is_some() as i32", "Some(x) => keep && x.0 == a.wrapping_add(2), None => !keep"),
        ("join_then_handler", "join", "Tok",
         "Some(Tok::new(a)) ~|> |t: Tok| t, Tok::new(5) -> |t: Tok| t, then => |x: Option<Tok>, y: Tok| Tok::new(x.map(|t| t.0).unwrap_or(0).wrapping_add(y.0))",
         "1", "x => x.0 == a.wrapping_add(5)"),
        ("wrapper_moves", "join", "Option<Option<Tok>>",
         "Some(Some(Tok::new(a))) |> >>> |> |t: Tok| Tok::new(t.0.wrapping_add(1)) <<< ~|> |v: Option<Tok>| if keep { v } else { None }",
         "matches!(r, Some(Some(_))) as i32", "Some(Some(x)) => keep && x.0 == a.wrapping_add(1), Some(None) => !keep, None => false"),
        ("let_names_borrowed", "join", "(Option<Tok>, Option<u8>)",
         "let t0 = Some(Tok::new(a)) ~|> |t: Tok| t, Some(1u8) ~|> { let seen = t0.as_ref().map(|t| t.0); move |x: u8| x.wrapping_add(seen.unwrap_or(0)) }",
         "r.0.is_some() as i32", "(Some(x), Some(y)) => x.0 == a && *y == a.wrapping_add(1), _ => false"),
        ("borrow_caller_stack", "join", "(Option<u8>, Option<u8>)",
         "Some(a) |> |x: u8| { *cnt_ref += 1; x } ~|> |x: u8| x, Some(local.0) ~|> |x: u8| x.wrapping_add(local.0)",
         "0", "(Some(x), Some(y)) => *x == a && *y == 14, _ => false"),
    ]
    # options that must not change what is evaluated: the documented defaults written out, and `transpose_results` on a
    # macro that has nothing to transpose
    progs += [
        ("opt_transpose_noop_join", "join", "(Option<Tok>, Option<Tok>)",
         "transpose_results(true) Some(Tok::new(a)) |> |t: Tok| Tok::new(t.0.wrapping_add(1)) ~=> |t: Tok| if keep { Some(t) } else { None }, Some(Tok::new(2)) ~?> |t: &Tok| t.0 > 1",
         "r.0.is_some() as i32 + r.1.is_some() as i32", "(Some(x), _) => x.0 == a.wrapping_add(1), _ => !keep"),
        ("opt_defaults_written_out_try", "try_join", "Option<(Tok, Tok)>",
         "lazy_branches(false) transpose_results(true) Some(Tok::new(a)) ~=> |t: Tok| if keep { Some(t) } else { None }, Some(Tok::new(2)) ~|> |t: Tok| Tok::new(t.0 + 1)",
         "if r.is_some() { 2 } else { 0 }", "Some((x, y)) => keep && x.0 == a && y.0 == 3, None => !keep"),
        ("opt_lazy_false_join", "join", "(Option<Tok>, Option<Tok>)",
         "lazy_branches(false) Some(Tok::new(a)) ~=> |t: Tok| if keep { Some(t) } else { None }, Some(Tok::new(2))",
         "r.0.is_some() as i32 + r.1.is_some() as i32", "(Some(x), Some(y)) => keep && x.0 == a && y.0 == 2, (None, Some(_)) => !keep, _ => false"),
    ]
    if prop == "C19":
        # non-Send (Rc) values and non-'static borrows in the non-spawning kinds, sync and async
        extra = [
            ("rc_non_send", "    let rc = std::rc::Rc::new(a);\n",
             "join! { Some(rc.clone()) |> |r: std::rc::Rc<u8>| *r ~|> |x: u8| x, Some(std::rc::Rc::new(1u8)) ~|> |r: std::rc::Rc<u8>| *r }",
             "(Option<u8>, Option<u8>)", "r == (Some(a), Some(1))"),
            ("borrow_non_static_try", "    let local = [a, 2u8];\n    let mut out = 0u8;\n    let out_ref = &mut out;\n",
             "try_join! { Some(&local) |> |l: &[u8; 2]| l[0] ~|> |x: u8| { *out_ref = x; x }, local.get(1) ~|> |x: &u8| *x }",
             "Option<(u8, u8)>", "r == Some((a, 2))"),
            ("async_borrow_non_send", "    let local = std::rc::Rc::new(a);\n    let lref = &local;\n",
             "run(join_async! { gate(0, 1, lref) |> |r: &std::rc::Rc<u8>| **r, gate(0, 2, std::rc::Rc::new(3u8)) ~|> |r: std::rc::Rc<u8>| *r }, 1).0",
             "Option<(u8, u8)>", "r == Some((a, 3))"),
            ("try_async_borrow_mut", "    let mut cnt = 0u8;\n    let cnt_ref = &mut cnt;\n",
             "run(try_join_async! { gate(0, 1, Ok::<u8, u8>(a)) ~=> |x: u8| { *cnt_ref += 1; core::future::ready(Ok::<u8, u8>(x)) } }, 1).0",
             "Option<Result<u8, u8>>", "r == Some(Ok(a))"),
        ]
        # an initial value that is a DEREFERENCE of a borrowed move-only value stays a place expression: `(*r).len()` reborrows,
        # `{ *r }.len()` would move out of the borrow
        extra += [
            ("deref_initial_reborrows", "    let tok = Tok::new(a);\n    let tr = &tok;\n    let bx = vec![a, 2u8];\n    let br = &bx;\n",
             "join! { *br .. len(), *tr .. 0.wrapping_add(1), *br .. first() |> |x: &u8| *x }", "(usize, u8, Option<u8>)", "r == (2, a.wrapping_add(1), Some(a)) && tok.0 == a && bx.len() == 2"),
            ("deref_initial_mut_reborrows", "    let mut bx = vec![a, 2u8];\n    let bm = &mut bx;\n",
             "{ let r = try_join! { Some(()) |> |_| 1u8, { (*bm).push(4); Some(2u8) } }; (r, (*bm).len()) }", "(Option<(u8, u8)>, usize)", "r == (Some((1, 2)), 3)"),
        ]
        extra += [
            ("wrapper_scope_borrows_mut", "    let mut seen = 0u8;\n",
             "join! { Some(Some(a)) |> >>> |> |v: u8| { seen = seen.wrapping_add(1); v } <<< }",
             "Option<Option<u8>>", "r == Some(Some(a)) && seen == 1"),
            ("wrapper_scope_borrows_move_only", "    let s = Tok::new(7);\n",
             "try_join! { Some(Some(a)) ~|> >>> |> |v: u8| v.wrapping_add(s.0) <<<, Some(Some(1u8)) |> >>> |> |v: u8| v.wrapping_add(s.0) }",
             "Option<(Option<u8>, Option<u8>)>", "r == Some((Some(a.wrapping_add(7)), Some(8))) && s.0 == 7"),
        ]
        extra += [
            ("block_capture_in_wrapper_not_clone", "    let mut seen = 0u8;\n",
             "try_join! { Some(Some(a)) => >>> |> { let t = Tok::new(1); move |v: u8| v.wrapping_add(t.0) } <<<, Some(Some(2u8)) |> >>> |> { let s = &mut seen; move |v: u8| { *s = v; v } } }",
             "Option<(u8, Option<u8>)>", "r == Some((a.wrapping_add(1), Some(2))) && seen == 2"),
        ]
        # branch RESULTS that hold fresh mutable reborrows of the caller's locals (created inside the macro), with and
        # without a final handler: the expansion must evaluate the steps in the caller's own scope
        reb = "    let mut v = [a, 2u8];\n    let mut s = [10u8, 20u8];\n"
        extra += [
            ("reborrow_results_then_handler", reb,
             "join! { v.iter_mut(), s.first_mut(), then => |it: core::slice::IterMut<u8>, f: Option<&mut u8>| { for x in it { *x = x.wrapping_add(1); } if let Some(f) = f { *f = 5; } 1u8 } }",
             "u8", "r == 1 && v == [a.wrapping_add(1), 3] && s == [5, 20]"),
            ("reborrow_results_no_handler", reb,
             "{ let t: (core::slice::IterMut<u8>, Option<&mut u8>) = join! { v.iter_mut(), s.first_mut() }; for x in t.0 { *x = x.wrapping_add(1); } if let Some(f) = t.1 { *f = 5; } 1u8 }",
             "u8", "r == 1 && v == [a.wrapping_add(1), 3] && s == [5, 20]"),
            ("reborrow_carried_steps_then_handler", "    let mut c = a;\n    let mut s = [10u8, 20u8];\n",
             "join! { &mut c ~-> bump_mut ~-> bump_mut, s.iter_mut() ~|> |x: &mut u8| { *x = x.wrapping_add(1); *x } ~..fold(0u8, |p, q| p.wrapping_add(q)), then => |m: &mut u8, t: u8| { *m = m.wrapping_add(t); *m } }",
             "u8", "r == a.wrapping_add(34) && c == r && s == [11, 21]"),
            ("reborrow_results_try_map_handler", reb,
             "try_join! { v.first_mut(), s.last_mut() ~|> |y: &mut u8| { *y = y.wrapping_add(1); y }, map => |x: &mut u8, y: &mut u8| { *x = x.wrapping_add(*y); 1u8 } }",
             "Option<u8>", "r == Some(1) && v == [a.wrapping_add(21), 2] && s == [10, 21]"),
            ("reborrow_results_try_and_then_handler", reb,
             "try_join! { v.first_mut(), s.get_mut(1), and_then => |x: &mut u8, y: &mut u8| { core::mem::swap(x, y); Some(1u8) } }",
             "Option<u8>", "r == Some(1) && v == [20, 2] && s == [10, a]"),
            ("reborrow_results_async_then_handler", reb + "    let (vr, sr) = (&mut v, &mut s);\n",
             "run(join_async! { gate(0, 1, vr.first_mut()), gate(0, 2, sr.last_mut()), then => |x: Option<&mut u8>, y: Option<&mut u8>| { if let (Some(x), Some(y)) = (x, y) { core::mem::swap(x, y); } core::future::ready(1u8) } }, 4).0",
             "Option<u8>", "r == Some(1) && v == [20, 2] && s == [10, a]"),
            ("reborrow_results_try_async_map_handler", reb + "    let (vr, sr) = (&mut v, &mut s);\n",
             "run(try_join_async! { gate(0, 1, vr.first_mut().ok_or(0u8)), gate(0, 2, sr.last_mut().ok_or(0u8)), map => |x: &mut u8, y: &mut u8| { core::mem::swap(x, y); 1u8 } }, 4).0",
             "Option<Result<u8, u8>>", "r == Some(Ok(1)) && v == [20, 2] && s == [10, a]"),
        ]
        # operands that are NAMED closures (paths), FnOnce (they consume a move-only capture) or FnMut (they borrow the
        # caller's stack mutably): an operand is moved into its documented call, the macro adds no `Fn` bound
        extra += [
            ("named_fnonce_then", "    let tok = Tok::new(a);\n    let finish = move |v: u8| { let t = tok; v.wrapping_add(t.0) };\n",
             "join! { 1u8 -> finish }", "u8", "r == a.wrapping_add(1)"),
            ("named_fnmut_then", "    let mut seen = 0u8;\n    let mut record = |v: u8| { seen = v; v };\n",
             "try_join! { Some(2u8) |> |v: u8| v + 1, 5u8 -> record -> Some }", "Option<(u8, u8)>", "r == Some((3, 5)) && seen == 5"),
            ("named_fnmut_map_and_inspect", "    let mut cnt = 0u8;\n    let mut seen = 0u8;\n    let bump = |v: u8| { cnt += 1; v.wrapping_add(1) };\n    let look = |v: &Option<u8>| { let _ = v; };\n",
             "join! { Some(a) |> bump ?? look ~|> |v: u8| { seen = v; v } }", "Option<u8>", "r == Some(a.wrapping_add(1)) && cnt == 1 && seen == a.wrapping_add(1)"),
            ("named_fnonce_or_else_and_then", "    let t1 = Tok::new(4);\n    let t2 = Tok::new(a);\n    let fallback = move || { let t = t1; Some(t.0) };\n    let next = move |v: u8| { let t = t2; Some(v.wrapping_add(t.0)) };\n",
             "join! { None::<u8> <= fallback => next }", "Option<u8>", "r == Some(a.wrapping_add(4))"),
            ("named_fnonce_then_async", "    let tok = Tok::new(a);\n    let finish = move |f: Gate<u8>| { let t = tok; then_gate(f, 0, 3, t.0) };\n",
             "run(join_async! { gate(0, 1, 1u8) -> finish }, 4).0", "Option<u8>", "r == Some(a.wrapping_add(1))"),
        ]
        for (name, pre, prog, rty, ok) in extra:
            b = "    let a: u8 = kani::any();\n" + pre
            b += "    let r: %s = %s;\n    assert!(%s);\n" % (rty, prog, ok)
            hn = "c19_bounds_%s" % name
            out.append(Harness(hn, harness_fn(hn, b, unwind=3), prog, note="no Send / 'static / Clone requirement in non-spawning kinds"))
    for (name, mac, rty, body, live_expr, okpat) in progs:
        b = "    let a: u8 = kani::any();\n    let keep: bool = kani::any();\n"
        if name == "borrow_caller_stack":
            b += "    let mut cnt: u8 = 0;\n    let cnt_ref = &mut cnt;\n    let local = Tok::new(7);\n"
        prog = "%s! { %s }" % (mac, body)
        b += "    {\n        let r: %s = %s;\n" % (rty, prog)
        if name == "borrow_caller_stack":
            b += "        assert!(*cnt_ref == 1);\n        assert!(local.0 == 7);\n"
        b += "        assert!(match &r { %s }, \"C10: value changed on the way\");\n" % okpat
        if name == "borrow_caller_stack":
            b += "        assert!(live() == 1, \"C10: a value was duplicated or leaked\");\n    }\n    drop(local);\n"
        else:
            b += "        assert!(live() == %s, \"C10: a value was duplicated or dropped early\");\n    }\n" % live_expr
        b += "    assert!(live() == 0, \"C10: a value was not dropped exactly once\");\n"
        b += "    kani_cover!(keep);\n    kani_cover!(!keep);\n"
        hn = "%s_tok_%s" % (prop.lower(), name)
        out.append(Harness(hn, harness_fn(hn, b), prog, note="move-only Tok (no Clone, counting Drop)"))
    return out


# ======================================================================================
# Family CAPTURE (C11, also C10/C12 inputs): `{..}` operands evaluated once, before their step
# ======================================================================================

def cap(i, s, p, k, body):
    return "{ ev(code(K_CAP, %d, %d, %d)); %s }" % (i, s, 2 * p + k, body)


def cl(i, s, p, body, params="x: u8"):
    return "|%s| { ev(code(K_CALL, %d, %d, %d)); %s }" % (params, i, s, p, body)


# hoisting operators on Option<u8> (type preserving): macro text with {B0}/{B1}, reference with {0}/{1}, operand bodies
def HOIST_OPT(i, s, p):
    return [
        ("map", "|> {B0}", ".map({0})", [cl(i, s, p, "x.wrapping_add(%d)" % K(i, s))]),
        ("and_then", "=> {B0}", ".and_then({0})", [cl(i, s, p, "if x > 3 { Some(x) } else { None }")]),
        ("filter", "?> {B0}", ".filter({0})", [cl(i, s, p, "*x < 250", "x: &u8")]),
        ("then", "-> {B0}", "@call@{0}", [cl(i, s, p, "v.or(Some(2))", "v: Option<u8>")]),
        ("or", "<| {B0}", ".or({0})", ["Some(%du8)" % K(i, s)]),
        ("or_else", "<= {B0}", ".or_else({0})", [cl(i, s, p, "Some(%du8)" % K(i, s), "")]),
        ("inspect", "?? {B0}", "@inspect@{0}", [cl(i, s, p, "let _ = v;", "v: &Option<u8>")]),
        # the same operators with the operand inside a wrapper (`X >>> -> f <<<` is `.x(|v| f(v))`)
        ("wrap_map", "|> >>> -> {B0} <<<", ".map({0})", [cl(i, s, p, "x.wrapping_mul(3).wrapping_add(%d)" % K(i, s))]),
        ("wrap_and_then", "=> >>> -> {B0} <<<", ".and_then({0})", [cl(i, s, p, "if x > 5 { Some(x.wrapping_sub(1)) } else { None }")]),
    ]


def fam_capture(prop, tier):
    out = []
    nops = len(HOIST_OPT(0, 0, 0))
    profs = [(2, 2), (1, 2), (2, 1)] if tier == "quick" else [(2, 2), (1, 2), (2, 1), (2, 2, 2), (3, 2), (1, 2, 3)]
    for rot in range(nops):
        for ds in profs:
            if tier == "quick" and ds != (2, 2) and rot % 3:
                continue
            out.append(_capture_harness(prop, ds, rot, "join"))
    for rot in (0, 3):
        out.append(_capture_harness(prop, (2, 2), rot, "try_join"))
    # the same grids with every branch named
    for mac, ds, rot in [("join", (2, 2), 1), ("join", (1, 2), 4), ("try_join", (2, 1), 2)]:
        out.append(_capture_harness(prop, ds, rot, mac, named=True))
    out += _capture_special(prop)
    return out


def _capture_harness(prop, ds, rot, mac, named=False):
    """named=True: every branch is named (`let n{i} = { .. } ..`, odd ones `let mut`): naming a branch changes nothing
    about where its block initial value and its block operands are evaluated"""
    n = len(ds)
    b = ""
    for i in range(n):
        b += "    let a%d: u8 = kani::any();\n" % i
    brs = []
    steps = {}
    nev = 0
    for i in range(n):
        # initial value is a block too (hoisted like an operand)
        init_body = "Some(a%d)" % i
        t = ("let %sn%d = " % ("mut " if i % 2 else "", i) if named else "") + cap(i, 0, 0, 0, init_body)
        steps.setdefault((0, i), []).append(("@init@", [cap(i, 0, 0, 0, init_body)], (i, 0, 0)))
        nev += 1
        for s in range(ds[i]):
            for p in (1, 2):
                if s == 0 and p == 2 and i % 2:
                    continue
                ops = HOIST_OPT(i, s, p)
                name, m, r, bodies = ops[(rot + 2 * i + 3 * s + p) % len(ops)]
                blocks = [cap(i, s, p, k, bd) for k, bd in enumerate(bodies)]
                mt = m
                for k, bl in enumerate(blocks):
                    mt = mt.replace("{B%d}" % k, bl)
                t += " %s%s" % ("~" if (p == 1 and s > 0) else "", mt)
                steps.setdefault((s, i), []).append((r, blocks, (i, s, p)))
                nev += len(blocks) + 1
        brs.append(t)
    prog = "%s! { %s }" % (mac, ", ".join(brs))
    is_try = mac == "try_join"
    rty = ("Option<%s>" % tupty("u8", n)) if is_try else tupty("Option<u8>", n)
    b += "    let r: %s = %s;\n" % (rty, prog)
    b += "    reference_mode();\n"
    b += "    let exp: %s = (|| {\n" % rty
    for s in range(max(ds)):
        act = [i for i in range(n) if ds[i] > s]
        b += "        // step %d: every block operand of the step, branch by branch, position by position ...\n" % s
        for i in act:
            for (r, blocks, (ii, ss, pp)) in steps.get((s, i), []):
                for k, bl in enumerate(blocks):
                    b += "        let c_%d_%d_%d_%d = %s;\n" % (ii, ss, pp, k, bl)
        b += "        // ... then the branch expressions\n"
        for i in act:
            for (r, blocks, (ii, ss, pp)) in steps.get((s, i), []):
                if r == "@init@":
                    b += "        let v%d: Option<u8> = c_%d_0_0_0;\n" % (i, i)
                    continue
                rr = r
                for k in range(len(blocks)):
                    rr = rr.replace("{%d}" % k, "c_%d_%d_%d_%d" % (ii, ss, pp, k))
                b += "        let v%d: Option<u8> = %s;\n" % (i, _apply_ref("v%d" % i, rr))
        if is_try:
            for i in act:
                b += "        if v%d.is_none() { return None; }\n" % i
    if is_try:
        b += "        Some(%s)\n    })();\n" % tup("v%d.unwrap()" % i for i in range(n))
    else:
        b += "        %s\n    })();\n" % tup("v%d" % i for i in range(n))
    b += "    assert!(r == exp, \"value differs from the documented call with the block operands evaluated once, left to right\");\n"
    b += trace_eq(nev)
    hn = "%s_cap_%s_%s_r%d%s" % (prop.lower(), mac, pname(ds), rot, "_named" if named else "")
    return Harness(hn, harness_fn(hn, b), prog, note="block operands on every action; profile %s; operator rotation %d" % (ds, rot))


def _capture_special(prop):
    """iterator operators with two operands / inside wrappers (fold, try_fold, chain, zip, find*, partition)"""
    out = []
    A = "    let a: [u8; 3] = [kani::any(), kani::any(), kani::any()];\n    let a1: u8 = kani::any();\n"
    side = "Some(a1) |> %s" % cap(0, 0, 1, 0, cl(0, 0, 1, "x.wrapping_add(1)"))
    side_ref_cap = "let c0 = %s;" % cap(0, 0, 1, 0, cl(0, 0, 1, "x.wrapping_add(1)"))
    progs = [
        ("fold2", "a.into_iter() ^@ %s, %s" % (cap(1, 0, 1, 0, "1u8"), cap(1, 0, 1, 1, cl(1, 0, 1, "acc.wrapping_mul(3).wrapping_add(x)", "acc: u8, x: u8"))),
         ["let d0 = %s;" % cap(1, 0, 1, 0, "1u8"), "let d1 = %s;" % cap(1, 0, 1, 1, cl(1, 0, 1, "acc.wrapping_mul(3).wrapping_add(x)", "acc: u8, x: u8"))],
         "a.into_iter().fold(d0, d1)", "u8", 5),
        ("try_fold2", "a.into_iter() ?^@ %s, %s" % (cap(1, 0, 1, 0, "0u8"), cap(1, 0, 1, 1, cl(1, 0, 1, "acc.checked_add(x)", "acc: u8, x: u8"))),
         ["let d0 = %s;" % cap(1, 0, 1, 0, "0u8"), "let d1 = %s;" % cap(1, 0, 1, 1, cl(1, 0, 1, "acc.checked_add(x)", "acc: u8, x: u8"))],
         "a.into_iter().try_fold(d0, d1)", "Option<u8>", 5),
        ("chain_in_wrapper", "[[a[0], a[1]], [a[2], 9u8]].into_iter() |> >>> .. into_iter() >@> %s %s <<< %s" % (cap(1, 0, 3, 0, "[7u8]"), SUM, SUM),
         ["let d0 = %s;" % cap(1, 0, 3, 0, "[7u8]")],
         "[[a[0], a[1]], [a[2], 9u8]].into_iter().map(|v| v.into_iter().chain(d0)%s)%s" % (SUMC, SUMC), "u8", 6),
        ("zip_in_wrapper", "[[a[0], a[1]], [a[2], 9u8]].into_iter() |> >>> .. into_iter() >^> %s ^@ 0u8, |acc: u8, (x, y): (u8, u8)| acc.wrapping_add(x).wrapping_add(y) <<< %s" % (cap(1, 0, 3, 0, "[7u8, 8u8]"), SUM),
         ["let d0 = %s;" % cap(1, 0, 3, 0, "[7u8, 8u8]")],
         "[[a[0], a[1]], [a[2], 9u8]].into_iter().map(|v| v.into_iter().zip(d0).fold(0u8, |acc: u8, (x, y): (u8, u8)| acc.wrapping_add(x).wrapping_add(y)))%s" % SUMC, "u8", 6),
        ("find_family", "a.into_iter() ?> %s ?|> %s ?@ %s" % (cap(1, 0, 1, 0, cl(1, 0, 1, "*x > 1", "x: &u8")), cap(1, 0, 2, 0, cl(1, 0, 2, "x.checked_add(1)")), cap(1, 0, 3, 0, cl(1, 0, 3, "*x > 4", "x: &u8"))),
         ["let d0 = %s;" % cap(1, 0, 1, 0, cl(1, 0, 1, "*x > 1", "x: &u8")), "let d1 = %s;" % cap(1, 0, 2, 0, cl(1, 0, 2, "x.checked_add(1)")), "let d2 = %s;" % cap(1, 0, 3, 0, cl(1, 0, 3, "*x > 4", "x: &u8"))],
         "a.into_iter().filter(d0).filter_map(d1).find(d2)", "Option<u8>", 5),
        ("find_map_partition", "a.into_iter() ?&!> %s" % cap(1, 0, 1, 0, cl(1, 0, 1, "*x > 3", "x: &u8")),
         ["let d0 = %s;" % cap(1, 0, 1, 0, cl(1, 0, 1, "*x > 3", "x: &u8"))], "a.into_iter().partition(d0)", "(Acc, Acc)", 5),
        # block operands INSIDE the per-item predicate wrappers (`?> >>>`, `?@ >>>`, `?&!> >>>`): evaluated once, before the
        # step - not once per item inside the wrapper's closure
        ("filter_wrapper_capture", "a.into_iter() ?> >>> -> %s <<< %s" % (cap(1, 0, 2, 0, cl(1, 0, 2, "*x > 1", "x: &u8")), SUM),
         ["let d0 = %s;" % cap(1, 0, 2, 0, cl(1, 0, 2, "*x > 1", "x: &u8"))], "a.into_iter().filter(|v| d0(v))%s" % SUMC, "u8", 5),
        ("find_wrapper_capture", "a.into_iter() ?@ >>> -> %s <<<" % cap(1, 0, 2, 0, cl(1, 0, 2, "*x > 4", "x: &u8")),
         ["let d0 = %s;" % cap(1, 0, 2, 0, cl(1, 0, 2, "*x > 4", "x: &u8"))], "a.into_iter().find(|v| d0(v))", "Option<u8>", 5),
        ("partition_wrapper_capture", "a.into_iter() ?&!> >>> -> %s <<<" % cap(1, 0, 2, 0, cl(1, 0, 2, "*x > 3", "x: &u8")),
         ["let d0 = %s;" % cap(1, 0, 2, 0, cl(1, 0, 2, "*x > 3", "x: &u8"))], "a.into_iter().partition(|v| d0(v))", "(Acc, Acc)", 5),
        # a LABELLED block is a block too (syn: Expr::Block with a label): hoisted like any other
        ("labeled_block", "Some(a1) |> 'l: { ev(code(K_CAP, 1, 0, 2)); break 'l %s }" % cl(1, 0, 1, "x.wrapping_add(2)"),
         ["let d0 = 'l: { ev(code(K_CAP, 1, 0, 2)); break 'l %s };" % cl(1, 0, 1, "x.wrapping_add(2)")],
         "Some(a1).map(d0)", "Option<u8>", 0),
        ("wrapper_capture_unused", "if a1 > 100 { Some(Some(a1)) } else { None } |> >>> |> %s <<<" % cap(1, 0, 2, 0, cl(1, 0, 2, "x.wrapping_add(1)")),
         ["let d0 = %s;" % cap(1, 0, 2, 0, cl(1, 0, 2, "x.wrapping_add(1)"))], "(if a1 > 100 { Some(Some(a1)) } else { None }).map(|v| v.map(d0))", "Option<Option<u8>>", 0),
    ]
    for (name, br1, caps, chain, rty, uw) in progs:
        b = A
        prog = "join! { %s, %s }" % (side, br1)
        b += "    let r: (Option<u8>, %s) = %s;\n" % (rty, prog)
        b += "    reference_mode();\n    %s\n" % side_ref_cap
        for c in caps:
            b += "    %s\n" % c
        b += "    let exp: (Option<u8>, %s) = (Some(a1).map(c0), %s);\n" % (rty, chain)
        b += "    assert!(r == exp, \"value differs from the documented call with the block operands evaluated once, left to right\");\n"
        b += trace_eq(14)
        hn = "%s_cap_special_%s" % (prop.lower(), name)
        out.append(Harness(hn, harness_fn(hn, b, unwind=uw or None), prog, note="block operands of iterator operators / inside wrappers"))
    return out


FAMILIES["C10"] = [fam_ops, fam_tok, lambda p, t: _capture_special(p)]
FAMILIES["C11"] = [fam_capture]
FAMILIES["C19"] = [fam_tok]


# ======================================================================================
# Family LET (C12): `let name =` exposes each branch's latest step result to later captures
# ======================================================================================

def fam_let(prop, tier):
    out = []
    if tier == "quick":
        profs = [(2, 2), (1, 2), (2, 1), (1, 3), (2, 2, 2), (1, 2, 3), (2, 3, 1), (3, 1, 2)]
    else:
        profs = [p for p in profiles([2, 3], 3) if max(p) > 1]
    for mac in ("join", "try_join"):
        for ds in profs:
            n = len(ds)
            subsets = [m for m in range(1, 2 ** n)]
            if tier == "quick":
                subsets = [m for m in subsets if m in (1, 2, 2 ** n - 1, 2 ** n - 2, 5, 6)]
            for mask in subsets:
                if mask >= 2 ** n:
                    continue
                out.append(_let_harness(prop, mac, ds, mask))
    for mac in ("join_async", "try_join_async"):
        for ds, mask in [((2, 2), 2), ((1, 2), 1), ((2, 2, 2), 6)]:
            out.append(_let_harness(prop, mac, ds, mask))
    # a branch reading its own name, in particular while it is the only branch still running
    for mac in ("join", "try_join", "join_async"):
        for ds in [(3,), (3, 1), (1, 3), (2, 4, 1)] + ([(4, 2), (1, 4, 2), (3, 3, 1)] if tier != "quick" else []):
            if mac == "join_async" and (max(ds) > 3 or len(ds) > 2):
                continue
            out.append(_let_harness(prop, mac, ds, 2 ** len(ds) - 1, own=True))
    # names that are raw identifiers (`let r#type = ..`): an ordinary name as far as the property is concerned
    for mac in ("join", "try_join", "join_async"):
        for ds, mask in [((2, 2), 3), ((1, 2, 3), 7), ((2, 3, 1), 5)] + ([((2, 2, 2, 2), 15)] if tier != "quick" and mac != "join_async" else []):
            if mac == "join_async" and len(ds) > 2:
                continue
            out.append(_let_harness(prop, mac, ds, mask, raw=True))
        out.append(_let_harness(prop, mac, (3, 1), 3, own=True, raw=True))
    return out


RAW_NAMES = ["r#type", "r#true", "r#match", "r#false"]


def _let_harness(prop, mac, ds, mask, own=False, raw=False):
    """named branches = bits of mask.  In every step s >= 1 branch j reads, inside a block capture, the name of the
    nearest named branch i != j (cyclically) and folds the snapshot into its value.  own=True: a named branch reads
    ITS OWN name instead (also in steps in which it is the only branch still running)."""
    n = len(ds)
    is_try = mac.startswith("try")
    is_async = mac.endswith("async")
    named = [i for i in range(n) if mask >> i & 1]
    W = "Ok::<u8, u8>" if is_try else "Some"
    wty = "Result<u8, u8>" if is_try else "Option<u8>"
    b = ""
    for i in range(n):
        b += "    let a%d: u8 = kani::any();\n" % i

    def snap_expr(nm):
        # the name holds the branch's latest step result, still wrapped in its Option/Result
        return "%s.clone().unwrap_or(77)" % nm if not is_async else "%s.clone().unwrap_or(77)" % nm
    brs = []
    reads = {}

    def nm(i):
        # raw=True: the name is a raw identifier whose unprefixed spelling is a keyword or a literal
        return RAW_NAMES[i % len(RAW_NAMES)] if raw else "n%d" % i
    for j in range(n):
        init = "%s(a%d)" % (W, j)
        if is_async:
            init = "gate(0, code(K_POLL, %d, 0, 0), %s)" % (j, init)
        t = ("let %s%s = " % ("mut " if j % 2 else "", nm(j)) if j in named else "") + init
        for s in range(1, ds[j]):
            others = [i for i in named if i != j]
            if own and j in named:
                others = [j]
            if others:
                i = others[(j + s) % len(others)]
                reads[(j, s)] = i
                body = "{ let snap: u8 = %s; move |x: u8| x.wrapping_mul(3).wrapping_add(snap) }" % snap_expr(nm(i))
            else:
                body = "|x: u8| x.wrapping_mul(3).wrapping_add(%d)" % K(j, s)
            if is_async and is_try:
                t += " ~|> { let f = %s; move |r: Result<u8, u8>| r.map(f) }" % body
            elif is_async:
                t += " ~|> { let f = %s; move |r: Option<u8>| r.map(f) }" % body
            else:
                t += " ~|> %s" % body
        brs.append(t)
    prog = "%s! { %s }" % (mac, ", ".join(brs))
    if is_try:
        rty = "Result<%s, u8>" % tupty("u8", n)
    else:
        rty = tupty(wty, n)
    if is_async:
        b += "    let (out, _p) = run(%s, 1);\n    assert!(out.is_some());\n    let r: %s = out.unwrap();\n" % (prog, rty)
    else:
        b += "    let r: %s = %s;\n" % (rty, prog)
    # reference: staged evaluation; cur[i] = branch i's value after its latest finished step
    for i in range(n):
        b += "    let mut c%d: u8 = a%d;\n" % (i, i)
    for s in range(1, max(ds)):
        b += "    // step %d: captures read the values as they stand after step %d\n" % (s, s - 1)
        for j in range(n):
            if ds[j] > s:
                if (j, s) in reads:
                    b += "    let s_%d_%d: u8 = c%d;\n" % (j, s, reads[(j, s)])
        for j in range(n):
            if ds[j] > s:
                if (j, s) in reads:
                    b += "    c%d = c%d.wrapping_mul(3).wrapping_add(s_%d_%d);\n" % (j, j, j, s)
                else:
                    b += "    c%d = c%d.wrapping_mul(3).wrapping_add(%d);\n" % (j, j, K(j, s))
    if is_try:
        b += "    let exp: %s = Ok(%s);\n" % (rty, tup("c%d" % i for i in range(n)))
    else:
        b += "    let exp: %s = %s;\n" % (rty, tup("Some(c%d)" % i for i in range(n)))
    b += "    assert!(r == exp, \"C12: a name did not expose its branch's latest step result (or naming changed the result)\");\n"
    hn = "%s_let_%s_%s_m%d%s%s" % (prop.lower(), mac, pname(ds), mask, "_own" if own else "", "_raw" if raw else "")
    return Harness(hn, harness_fn(hn, b, unwind=(3 if is_async else None)), prog, note="profile %s, named branches mask %s" % (ds, bin(mask)))


def _let_macro_param_harnesses(prop):
    """the branch name reaches the macro through a `macro_rules!` parameter (a project-local wrapper around join!): the
    name the steps bind and the name the generated code reads must be the same identifier, hygiene included"""
    out = []
    for mac, W, rty, exp in [("join", "Some", "(Option<u8>, Option<u8>)", "(Some(a.wrapping_add(1)), Some(a.wrapping_add(3)))"),
                             ("try_join", "Some", "Option<(u8, u8)>", "Some((a.wrapping_add(1), a.wrapping_add(3)))")]:
        b = "    let a: u8 = kani::any();\n"
        b += ("    macro_rules! wrapped {\n        ($n:ident, $v:expr) => {\n            %s! {\n                let $n = %s($v) ~|> |x: u8| x.wrapping_add(1),\n"
              "                let mut other = %s(1u8) ~|> { let snap: u8 = $n.clone().unwrap_or(77); move |x: u8| x.wrapping_add(snap) } ~|> { let snap: u8 = $n.clone().unwrap_or(77); move |x: u8| x.wrapping_add(snap).wrapping_sub(a) },\n"
              "            }\n        };\n    }\n") % (mac, W, W)
        b += "    let r: %s = wrapped!(first, a);\n" % rty
        # step 1: other = 1 + a ; first = a + 1 ; step 2: other = (1 + a) + (a + 1) - a = a + 2 ... computed below
        b += "    let exp: %s = %s;\n" % (rty, exp.replace("a.wrapping_add(3)", "1u8.wrapping_add(a).wrapping_add(a.wrapping_add(1)).wrapping_sub(a)"))
        b += "    assert!(r == exp, \"C12: a name passed through a macro_rules! parameter did not expose its branch's latest step result\");\n"
        hn = "%s_let_macro_param_%s" % (prop.lower(), mac)
        out.append(Harness(hn, harness_fn(hn, b), "wrapped!(first, a) => %s! { let $n = .. }" % mac, note="name passed through a macro_rules! parameter"))
    return out


def _let_mut_single_step_harnesses(prop):
    """`let mut name` on a branch with ONE step: the name stays a mutable binding for the captures of the other branches'
    later steps (they may `take()` it, push to it, reassign it)"""
    out = []
    for mac, rty, exp in [("join", "(Option<u8>, Option<u8>)", "(Some(9), Some(a.wrapping_add(1).wrapping_add(9)))"),
                          ("try_join", "Option<(u8, u8)>", "Some((9, a.wrapping_add(1).wrapping_add(9)))")]:
        # (the final tuple is built from the NAMES, so the reassignment in the last capture is what comes out for branch 0)
        b = "    let a: u8 = kani::any();\n"
        prog = ("%s! { let mut first = Some(a), Some(1u8) ~|> { let t: u8 = first.take().unwrap_or(77); move |x: u8| x.wrapping_add(t) } "
                "~|> { let seen: bool = first.is_none(); first = Some(9); move |x: u8| if seen { x.wrapping_add(first.unwrap_or(0)) } else { 0 } } }") % mac
        b += "    let r: %s = %s;\n    assert!(r == %s, \"C12: a `let mut` name of a one-step branch was not a mutable binding in later captures\");\n" % (rty, prog, exp)
        hn = "%s_let_mut_single_step_%s" % (prop.lower(), mac)
        out.append(Harness(hn, harness_fn(hn, b), prog, note="let mut on a one-step branch, mutated by later captures of another branch"))
    return out


def _let_loose_harnesses(prop):
    """naming a branch must not change its value, also when the initial value binds looser than a method call"""
    out = []
    progs = [
        ("binary_unary", "join", "(Option<u8>, Option<i8>, Option<u8>)",
         "let x = a & 0x0f | 1 .. checked_mul(2), let mut y = -b .. checked_abs(), let z = a as u16 .. checked_sub(1000) ~<| { Some(u16::from(x.unwrap_or(0))) } |> |v: u16| v as u8",
         "a & 0x0f | 1 .. checked_mul(2), -b .. checked_abs(), a as u16 .. checked_sub(1000) ~<| { Some(u16::from((a & 0x0f | 1).checked_mul(2).unwrap_or(0))) } |> |v: u16| v as u8"),
        ("ref_closure", "try_join", "Option<(u8, u8)>",
         "let p = &a .. checked_add(1), let q = Some(3u8) ~|> { let s = p.unwrap_or(0); move |v: u8| v.wrapping_add(s) }",
         "&a .. checked_add(1), Some(3u8) ~|> { let s = (&a).checked_add(1).unwrap_or(0); move |v: u8| v.wrapping_add(s) }"),
    ]
    for (name, mac, rty, named, unnamed) in progs:
        b = "    let a: u8 = kani::any();\n    let b: i8 = kani::any(); kani::assume(b > -100);\n"
        b += "    let r1: %s = %s! { %s };\n    let r2: %s = %s! { %s };\n" % (rty, mac, named, rty, mac, unnamed)
        b += "    assert!(r1 == r2, \"C12: writing `let name =` in front of a branch changed the macro's result\");\n"
        hn = "%s_let_loose_%s" % (prop.lower(), name)
        out.append(Harness(hn, harness_fn(hn, b), "%s! { %s }" % (mac, named), note="named vs unnamed, loose-precedence initial values"))
    return out


# ======================================================================================
# Family HANDLER (C13)
# ======================================================================================

def fam_handler(prop, tier):
    out = []
    ns = [1, 2, 3]
    for mac, hk in [("join", "then"), ("try_join", "map"), ("try_join", "and_then"), ("join_async", "then"),
                    ("try_join_async", "map"), ("try_join_async", "and_then")]:
        for n in ns:
            for depth2 in (False, True):
                if mac.endswith("async") and n == 3 and depth2 and tier == "quick":
                    continue
                for pos in (("end",) if tier == "quick" and n != 2 else ("end", "mid")):
                    out.append(_handler_harness(prop, mac, hk, n, depth2, pos))
    return out


def _handler_harness(prop, mac, hk, n, depth2, pos):
    is_try = mac.startswith("try")
    is_async = mac.endswith("async")
    b = ""
    for i in range(n):
        b += "    let a%d: u8 = kani::any(); let f%d: bool = kani::any();\n" % (i, i)
    b += "    let hf: bool = kani::any();\n"
    brs = []
    for i in range(n):
        v = "if f%d { Err::<u8, u8>(%d) } else { Ok(a%d) }" % (i, 100 + i, i)
        if is_async:
            t = "gate(0, code(K_POLL, %d, 0, 0), %s)" % (i, v)
        else:
            t = v
        if depth2 and i == 0:
            if is_async:
                t += " ~|> |r: Result<u8, u8>| r.map(|x| x.wrapping_add(1))"
            else:
                t += " ~|> |x: u8| x.wrapping_add(1)"
        brs.append(t)
    et = "u8" if is_try else "Result<u8, u8>"
    args = ", ".join("x%d: %s" % (i, et) for i in range(n))
    if is_try:
        summ = " ^ ".join("x%d.wrapping_mul(%d)" % (i, 2 * i + 3) for i in range(n))
    else:
        summ = " ^ ".join("x%d.unwrap_or(%d).wrapping_mul(%d)" % (i, 50 + i, 2 * i + 3) for i in range(n))
    hbody = "{ ev(code(K_HANDLER, 0, 0, %d)); " % n
    if hk == "then":
        val = summ
    elif hk == "map":
        val = summ
    else:
        val = "if hf { Err::<u8, u8>(200) } else { Ok(%s) }" % summ
    if is_async and hk in ("then", "and_then"):
        val = "core::future::ready(%s)" % val      # the handler's future must be awaited
    hbody += val + " }"
    h = "%s => |%s| %s" % (hk, args, hbody)
    parts = list(brs)
    if pos == "mid" and n >= 2:
        parts.insert(1, h)
    else:
        parts.append(h)
    prog = "%s! { %s }" % (mac, ", ".join(parts))
    rty = "Result<u8, u8>" if is_try else "u8"
    if is_async:
        b += "    let (out, _p) = run(%s, 1);\n    assert!(out.is_some());\n    let r: %s = out.unwrap();\n" % (prog, rty)
    else:
        b += "    let r: %s = %s;\n" % (rty, prog)
    # reference from C13
    vals = []
    for i in range(n):
        vals.append("a%d%s" % (i, ".wrapping_add(1)" if (depth2 and i == 0) else ""))
    if is_try:
        anyf = " || ".join("f%d" % i for i in range(n))
        s2 = " ^ ".join("%s.wrapping_mul(%d)" % (vals[i], 2 * i + 3) for i in range(n))
        b += "    let anyf = %s;\n" % anyf
        first = "0"
        for i in reversed(range(n)):
            first = "if f%d { %d } else { %s }" % (i, 100 + i, first)
        if hk == "map":
            b += "    let exp: Result<u8, u8> = if anyf { Err(%s) } else { Ok(%s) };\n" % (first, s2)
        else:
            b += "    let exp: Result<u8, u8> = if anyf { Err(%s) } else if hf { Err(200) } else { Ok(%s) };\n" % (first, s2)
        if is_async:
            b += "    assert!(r.is_ok() == exp.is_ok()); if r.is_ok() || !anyf { assert!(r == exp); }\n"
            b += "    if let Err(e) = r { if anyf { assert!(%s); } }\n" % " || ".join("(f%d && e == %d)" % (i, 100 + i) for i in range(n))
        else:
            b += "    assert!(r == exp, \"C13: wrong result\");\n"
        b += "    assert!(tlen_kind(K_HANDLER) == (!anyf) as usize, \"C13: map/and_then handler must run exactly once iff every branch succeeded\");\n"
    else:
        s2 = " ^ ".join("(if f%d { %d } else { %s }).wrapping_mul(%d)" % (i, 50 + i, vals[i], 2 * i + 3) for i in range(n))
        b += "    let exp: u8 = %s;\n" % s2
        b += "    assert!(r == exp, \"C13: `then` receives the raw values in branch order and its value is the macro's value\");\n"
        b += "    assert!(tlen_kind(K_HANDLER) == 1, \"C13: `then` handler must run exactly once\");\n"
    hn = "%s_handler_%s_%s_n%d_%s_%s" % (prop.lower(), mac, hk, n, "d2" if depth2 else "d1", pos)
    return Harness(hn, harness_fn(hn, b, unwind=(TMAX + 2)), prog, note="%s handler on %s, %d branches" % (hk, mac, n))


# ======================================================================================
# Family OPTIONS (C16)
# ======================================================================================

def fam_options(prop, tier):
    out = []
    sup = ""
    # -------- custom joiner (function) in join!: called once per step with > 1 active branch, with those branches in order
    for ds in [(1, 1), (2, 2), (1, 2), (2, 1), (2, 1, 2), (1, 2, 2), (3, 2, 1), (1, 1, 2)]:
        for lazy in (False, True):
            if tier == "quick" and lazy and len(ds) == 3 and ds != (2, 1, 2):
                continue
            out.append(_joiner_harness(prop, ds, lazy))
    # -------- transpose_results(false) with a joiner that returns the already transposed Result (sync; fix b146182)
    for ds in [(1, 1), (2, 2), (1, 2), (2, 1), (2, 1, 2), (3, 2)]:
        out.append(_transpose_harness(prop, ds))
    # ... and with a final handler: it gets the values of the already transposed result
    for ds, h in [((1, 1), "map"), ((2, 2), "map"), ((1, 2), "and_then"), ((2, 1, 2), "map")]:
        out.append(_transpose_harness(prop, ds, h))
    # async try macro with transpose_results(true): the joiner (futures::join!) returns the tuple of Results, the macro transposes
    b = "    let a: u8 = kani::any(); let c: u8 = kani::any(); let f: bool = kani::any();\n"
    prog = "try_join_async! { custom_joiner(::futures::join!) transpose_results(true) gate(0, code(K_POLL, 0, 0, 0), Ok::<u8, u8>(a)), gate(0, code(K_POLL, 1, 0, 0), if f { Err::<u8, u8>(5) } else { Ok(c) }), map => |x: u8, y: u8| x ^ y.rotate_left(1) }"
    b += "    let (out, _p) = run(%s, 2);\n    assert!(out.is_some());\n" % prog
    b += "    let r: Result<u8, u8> = out.unwrap();\n    assert!(r == if f { Err(5) } else { Ok(a ^ c.rotate_left(1)) }, \"C16: transpose_results(true) in an async try macro with a map handler\");\n"
    out.append(Harness("c16_opt_async_transpose_true_map", harness_fn("c16_opt_async_transpose_true_map", b, unwind=4), prog, note="async try, non-default transpose, map handler"))
    # -------- futures_crate_path + async custom joiner macro
    b = "    let a: u8 = kani::any(); let c: u8 = kani::any();\n"
    prog = "join_async! { futures_crate_path(crate::support::reexport::futures) gate(0, code(K_POLL, 0, 0, 0), a) ~|> |x: u8| x.wrapping_add(1), gate(0, code(K_POLL, 1, 0, 0), c) ~|> |x: u8| x.wrapping_add(2) }"
    b += "    let (out, _p) = run(%s, 1);\n    assert!(out == Some((a.wrapping_add(1), c.wrapping_add(2))));\n" % prog
    out.append(Harness("c16_opt_futures_crate_path", harness_fn("c16_opt_futures_crate_path", b, unwind=3), prog, note="every futures item through the given path"))
    b = "    let a: u8 = kani::any(); let c: u8 = kani::any();\n"
    prog = "try_join_async! { custom_joiner(crate::log_try_join!) transpose_results(false) lazy_branches(false) futures_crate_path(::futures) gate(0, code(K_POLL, 0, 0, 0), Ok::<u8, u8>(a)) ~|> |r: Result<u8, u8>| r.map(|x| x.wrapping_add(1)), gate(0, code(K_POLL, 1, 0, 0), Ok::<u8, u8>(c)) }"
    b += "    let (out, _p) = run(%s, 1);\n    assert!(out.is_some());\n" % prog
    b += "    let r: Result<(u8, u8), u8> = out.unwrap();\n    assert!(r == Ok((a.wrapping_add(1), c)));\n    assert!(tlen_kind(K_JOINER) == 1);\n"
    out.append(Harness("c16_opt_async_macro_joiner_all_options", harness_fn("c16_opt_async_macro_joiner_all_options", b, unwind=TMAX + 2), prog, note="all four options, async, macro joiner"))
    # -------- lazy_branches(true) in an ASYNC macro: the joiner macro CALLS each argument, so anything but a zero-argument
    # closure does not compile (the option applies to every kind that takes a custom joiner)
    b = "    let a: u8 = kani::any(); let c: u8 = kani::any();\n"
    prog = "join_async! { custom_joiner(crate::lazy_async_joiner!) lazy_branches(true) gate(0, code(K_POLL, 0, 0, 0), a) ~|> |x: u8| x.wrapping_add(1), gate(0, code(K_POLL, 1, 0, 0), c) ~|> |x: u8| x.wrapping_add(2) }"
    b += "    let (out, _p) = run(%s, 1);\n    assert!(out == Some((a.wrapping_add(1), c.wrapping_add(2))));\n    assert!(tlen_kind(K_JOINER) == 2);\n" % prog
    out.append(Harness("c16_opt_async_lazy_joiner", harness_fn("c16_opt_async_lazy_joiner", b, unwind=TMAX + 2), prog, note="lazy_branches(true) with a thunk-calling joiner macro, async"))
    return out


def _joiner_harness(prop, ds, lazy):
    n = len(ds)
    b = ""
    for i in range(n):
        b += "    let a%d: u8 = kani::any();\n" % i
    brs = []
    for i in range(n):
        t = "tag(code(K_INIT, %d, 0, 0), Some(a%d))" % (i, i)
        for s in range(1, ds[i]):
            t += " ~|> |x: u8| { ev(code(K_CALL, %d, %d, 0)); x.wrapping_add(%d) }" % (i, s, K(i, s))
        brs.append(t)
    jn = "crate::support::lazy_joiner!" if lazy else "crate::support::value_joiner!"
    prog = "join! { custom_joiner(%s) %s%s }" % (jn, "lazy_branches(true) " if lazy else "", ", ".join(brs))
    rty = tupty("Option<u8>", n)
    b += "    let r: %s = %s;\n" % (rty, prog)
    vals = []
    for i in range(n):
        e = "a%d" % i
        for s in range(1, ds[i]):
            e = "%s.wrapping_add(%d)" % (e, K(i, s))
        vals.append("Some(%s)" % e)
    b += "    assert!(r == %s, \"C16: the joiner's output must be used as the step result\");\n" % tup(vals)
    # expected joiner calls: one per step with > 1 active branch, arity = number of active branches
    calls = [(s, len([i for i in range(n) if ds[i] > s])) for s in range(max(ds))]
    calls = [(s, k) for (s, k) in calls if k > 1]
    b += "    assert!(tlen_kind(K_JOINER) == %d, \"C16: custom_joiner must be invoked exactly once per step with more than one active branch\");\n" % len(calls)
    for idx, (s, k) in enumerate(calls):
        b += "    assert!(nth_kind(K_JOINER, %d) == code(K_JOINER, 0, 0, %d), \"C16: joiner arity != number of active branches\");\n" % (idx, k)
    # lazy_branches(true): the joiner macro CALLS each argument (`($b)()`), so anything but a zero-argument closure does not compile;
    # eager: the joiner returns the arguments as the step values, so a closure would not type-check against the result type
    hn = "%s_joiner_%s_%s" % (prop.lower(), pname(ds), "lazy" if lazy else "eager")
    return Harness(hn, harness_fn(hn, b, unwind=TMAX + 2), prog, note="logging joiner, profile %s" % (ds,))


def _transpose_harness(prop, ds, handler=None):
    """handler: None / "map" / "and_then": the final handler is applied to the (already transposed) result of the last step"""
    n = len(ds)
    b = ""
    for i in range(n):
        b += "    let a%d: u8 = kani::any(); let f%d: bool = kani::any();\n" % (i, i)
    b += "    let g: bool = kani::any();\n"
    brs = []
    for i in range(n):
        t = "if f%d { Err::<u8, u8>(%d) } else { Ok(a%d) }" % (i, 100 + i, i)
        for s in range(1, ds[i]):
            if i == 0 and s == 1:
                t += " ~=> |x: u8| { ev(code(K_CALL, 0, 1, 0)); if g { Err::<u8, u8>(150) } else { Ok(x.wrapping_add(%d)) } }" % K(i, s)
            else:
                t += " ~|> |x: u8| { ev(code(K_CALL, %d, %d, 0)); x.wrapping_add(%d) }" % (i, s, K(i, s))
        brs.append(t)
    comb = " ^ ".join("x%d.rotate_left(%d)" % (i, i) for i in range(n))
    if handler == "map":
        brs.append("map => |%s| %s" % (", ".join("x%d: u8" % i for i in range(n)), comb))
    elif handler == "and_then":
        brs.append("and_then => |%s| if (%s) == 7 { Err::<u8, u8>(9) } else { Ok(%s) }" % (", ".join("x%d: u8" % i for i in range(n)), comb, comb))
    prog = "try_join! { transpose_results(false) custom_joiner(crate::support::transposing_joiner!) %s }" % ", ".join(brs)
    rty = "Result<%s, u8>" % (tupty("u8", n) if handler is None else "u8")
    b += "    let r: %s = %s;\n" % (rty, prog)
    vals = []
    for i in range(n):
        e = "a%d" % i
        for s in range(1, ds[i]):
            e = "%s.wrapping_add(%d)" % (e, K(i, s))
        vals.append(e)
    first = "0"
    for i in reversed(range(n)):
        first = "if f%d { %d } else { %s }" % (i, 100 + i, first)
    anyf = " || ".join("f%d" % i for i in range(n))
    gfail = "g" if ds[0] > 1 else "false"
    okv = tup(vals)
    if handler is not None:
        cv = " ^ ".join("(%s).rotate_left(%d)" % (vals[i], i) for i in range(n))
        okv = cv if handler == "map" else None
    if handler == "and_then":
        b += "    let exp: %s = if %s { Err(%s) } else if %s { Err(150) } else if (%s) == 7 { Err(9) } else { Ok(%s) };\n" % (rty, anyf, first, gfail, cv, cv)
    else:
        b += "    let exp: %s = if %s { Err(%s) } else if %s { Err(150) } else { Ok(%s) };\n" % (rty, anyf, first, gfail, okv)
    b += "    assert!(r == exp, \"C16: transpose_results(false): the joiner's output is the already transposed Result in every step\");\n"
    hn = "%s_transpose_false_%s%s" % (prop.lower(), pname(ds), "" if handler is None else "_" + handler)
    return Harness(hn, harness_fn(hn, b, unwind=TMAX + 2), prog, note="transposing joiner, profile %s" % (ds,))


# + both operands of fold / try_fold as blocks: the captures that read names are block operands, every one of them must be defined
FAMILIES["C12"] = [fam_let, lambda p, t: _let_loose_harnesses(p), lambda p, t: _let_macro_param_harnesses(p), lambda p, t: _let_mut_single_step_harnesses(p), lambda p, t: [h for h in _capture_special(p) if "fold2" in h.name]]
FAMILIES["C13"] = [fam_handler, lambda p, t: _async_lazy_harnesses(p)]
FAMILIES["C09"] = [fam_async, lambda p, t: _async_lazy_harnesses(p)]
FAMILIES["C16"] = [fam_options]


# ======================================================================================
# Family NAMES (C17): two-digit indices everywhere; macros nested in operands, captures, handlers
# ======================================================================================

def fam_names(prop, tier):
    out = []
    N = 12
    A = 12
    b = "    let s: u8 = kani::any();\n"
    brs = []
    exps = []
    for i in range(N):
        t = "Some(s.wrapping_add(%d))" % i
        tot = i
        for p in range(1, A):
            k = (7 * i + 3 * p + 1) % 23
            tot += k
            t += " %s|> { let k = %du8; move |x: u8| x.wrapping_add(k) }" % ("~" if p == A // 2 else "", k)
        brs.append(t)
        exps.append("Some(s.wrapping_add(%d))" % (tot % 256))
    prog = "join! { %s }" % ", ".join(brs)
    b += "    let r = %s;\n" % prog
    b += "    let exp = (%s);\n" % ", ".join(exps)
    b += "    assert!(r == exp, \"C17: result depends on the number of branches / actions / captures (name clash?)\");\n"
    out.append(Harness("c17_names_12x12", harness_fn("c17_names_12x12", b), "join! { 12 branches x 12 actions, a block capture on every action, one `~` }",
                       note="branch, action and operand indices reach two digits; every __ew name is live"))
    # try variant with let names and a handler, 11 branches (two-digit result names)
    b = "    let s: u8 = kani::any();\n"
    brs = []
    for i in range(11):
        brs.append("let n%d = Ok::<u8, u8>(s.wrapping_add(%d)) ~|> { let k = %du8; move |x: u8| x.wrapping_add(k) }" % (i, i, i + 1))
    args = ", ".join("x%d: u8" % i for i in range(11))
    summ = " ^ ".join("x%d.wrapping_mul(%d)" % (i, 2 * i + 1) for i in range(11))
    prog = "try_join! { %s, map => |%s| %s }" % (", ".join(brs), args, summ)
    b += "    let r: Result<u8, u8> = %s;\n" % prog
    b += "    let exp: u8 = %s;\n" % " ^ ".join("s.wrapping_add(%d).wrapping_mul(%d)" % (2 * i + 1, 2 * i + 1) for i in range(11))
    b += "    assert!(r == Ok(exp));\n"
    out.append(Harness("c17_names_try11_let_handler", harness_fn("c17_names_try11_let_handler", b), "try_join! { 11 named branches, 2 steps, map handler }", note="two-digit result / step names with let patterns"))
    # mirrored positions: a block capture on EVERY action of a 4 x 4 grid, error and process operators alternating,
    # so that (branch b, action e) and (branch e, action b) both carry live __ew names of either expression kind
    for rot in range(2):
        b = ""
        brs = []
        exps = []
        for i in range(4):
            b += "    let a%d: Result<u8, u8> = if kani::any::<bool>() { Ok(kani::any()) } else { Err(kani::any()) };\n" % i
            t = "a%d" % i
            e = "a%d" % i
            for p in range(1, 5):
                k = 10 * i + p
                if (i < p) == (rot == 0) and i != p:
                    t += " <= { let k = %du8; move |e: u8| if e & 1 == 0 { Ok::<u8, u8>(e.wrapping_add(k)) } else { Err(e.wrapping_add(k)) } }" % k
                    e += ".or_else(|e: u8| if e & 1 == 0 { Ok::<u8, u8>(e.wrapping_add(%d)) } else { Err(e.wrapping_add(%d)) })" % (k, k)
                elif (i + p) % 3 == 0:
                    t += " !> { let k = %du8; move |e: u8| e.wrapping_add(k) }" % k
                    e += ".map_err(|e: u8| e.wrapping_add(%d))" % k
                else:
                    t += " => { let k = %du8; move |x: u8| if x & 1 == 0 { Ok::<u8, u8>(x.wrapping_add(k)) } else { Err(x.wrapping_add(k)) } }" % k
                    e += ".and_then(|x: u8| if x & 1 == 0 { Ok::<u8, u8>(x.wrapping_add(%d)) } else { Err(x.wrapping_add(%d)) })" % (k, k)
            brs.append(t)
            exps.append(e)
        prog = "join! { %s }" % ", ".join(brs)
        b += "    let r = %s;\n    let exp = (%s);\n" % (prog, ", ".join(exps))
        b += "    assert!(r == exp, \"C17: a hoisted operand binding was shadowed by another one (name clash)\");\n"
        out.append(Harness("c17_names_mirror_r%d" % rot, harness_fn("c17_names_mirror_r%d" % rot, b), prog, note="block captures at mirrored (branch, action) positions on error and process operators"))
    # nesting
    nest = [
        ("operand", "u8", "join! { Some(a) |> |x: u8| join! { Some(x) |> |y: u8| try_join! { Some(y) |> |z: u8| z.wrapping_add(1) }.unwrap_or(0) }.unwrap_or(0) }.unwrap_or(0)", "a.wrapping_add(1)"),
        ("capture", "u8", "join! { Some(a) |> { let k = join! { Some(a) |> { let j = try_join! { Some(2u8) ~|> |z: u8| z }.unwrap_or(0); move |y: u8| y.wrapping_add(j) } }.unwrap_or(0); move |x: u8| x.wrapping_add(k) } }.unwrap_or(0)", "a.wrapping_add(a.wrapping_add(2))"),
        ("handler", "u8", "join! { Some(a), Some(1u8), then => |x: Option<u8>, y: Option<u8>| try_join! { x, y, map => |p: u8, q: u8| join! { Some(p) |> |v: u8| v.wrapping_add(q) }.unwrap_or(0) }.unwrap_or(9) }", "a.wrapping_add(1)"),
        ("branches_two_digit_nested", "u8", "join! { Some(a) |> |x: u8| join! { " + ", ".join("Some(x.wrapping_add(%d)) |> { let k = 1u8; move |v: u8| v.wrapping_add(k) }" % i for i in range(11)) + ", then => |" + ", ".join("v%d: Option<u8>" % i for i in range(11)) + "| v10.unwrap_or(0) } }.unwrap_or(0)", "a.wrapping_add(11)"),
        ("async_in_sync", "u8", "join! { Some(a) |> |x: u8| run(join_async! { gate(0, 1, x) |> |y: u8| run(try_join_async! { gate(0, 2, Ok::<u8, u8>(y)) }, 1).0.unwrap().unwrap_or(0) }, 1).0.unwrap_or(0) }.unwrap_or(0)", "a"),
        ("sync_in_async", "u8", "run(join_async! { gate(0, 1, a) |> |x: u8| join! { Some(x) |> |y: u8| y.wrapping_add(1), Some(2u8) }.0.unwrap_or(0), gate(0, 2, 5u8) |> { let k = try_join! { Some(1u8), Some(2u8) }.map(|t| t.1).unwrap_or(0); move |v: u8| v.wrapping_add(k) } }, 1).0.map(|t| t.0.wrapping_add(t.1)).unwrap_or(0)", "a.wrapping_add(1).wrapping_add(7)"),
    ]
    for (name, ty_, prog, exp) in nest:
        b = "    let a: u8 = kani::any();\n"
        b += "    let r: %s = %s;\n" % (ty_, prog)
        b += "    assert!(r == %s, \"C17: nesting changed the meaning of a macro\");\n" % exp
        hn = "c17_nest_%s" % name
        out.append(Harness(hn, harness_fn(hn, b, unwind=4), prog, note="nesting depth up to 3"))
    # a nested macro written as a BARE operand (`op join! { .. }`): it is an ordinary expression operand, evaluated where and
    # as often as the documented method call evaluates its argument
    prog = "join! { if c { Some(Some(a)) } else { None } |> >>> |> join! { tag(code(K_CAP, 0, 0, 1), |x: u8| x.wrapping_add(1)) } <<< }"
    b = "    let a: u8 = kani::any(); let c: bool = kani::any();\n"
    b += "    let r: Option<Option<u8>> = %s;\n" % prog
    b += "    let exp: Option<Option<u8>> = (if c { Some(Some(a)) } else { None }).map(|v| v.map(|x: u8| x.wrapping_add(1)));\n"
    b += "    assert!(r == exp, \"C17: nesting changed the meaning of a macro\");\n"
    b += "    assert!(tlen() == (c as usize), \"C17: a nested macro inside a wrapper must be evaluated when (and only when) the wrapped chain runs\");\n"
    out.append(Harness("c17_nest_bare_operand_in_wrapper", harness_fn("c17_nest_bare_operand_in_wrapper", b, unwind=4), prog, note="nested macro as a bare operand inside a wrapper"))
    prog = "join! { tag(code(K_INIT, 0, 0, 0), Some(a)), Some(2u8) |> join! { tag(code(K_CAP, 1, 0, 1), |x: u8| x.wrapping_add(1)) } |> try_join! { tag(code(K_CAP, 1, 0, 2), Some(|x: u8| x.wrapping_mul(2))) }.unwrap() }"
    b = "    let a: u8 = kani::any();\n"
    b += "    let r: (Option<u8>, Option<u8>) = %s;\n" % prog
    b += "    assert!(r == (Some(a), Some(6)), \"C17: nesting changed the meaning of a macro\");\n"
    b += "    assert!(tlen() == 3 && tr(0) == code(K_INIT, 0, 0, 0) && tr(1) == code(K_CAP, 1, 0, 1) && tr(2) == code(K_CAP, 1, 0, 2), \"C17: nested macros used as operands must be evaluated in place, like any other operand expression\");\n"
    out.append(Harness("c17_nest_bare_operand_order", harness_fn("c17_nest_bare_operand_order", b, unwind=4), prog, note="nested macros as bare operands: evaluated in place"))
    return out


FAMILIES["C17"] = [fam_names]


# ======================================================================================
# NATIVE SWEEPS (engine R, family `spawn_sweep`): the same Hoare triples instantiated with the THREAD-SPAWNING macros
# and run natively on sampled input vectors (Kani has no threads).  Bounded stand-in: one OS schedule per run.
# ======================================================================================

def _pos_async_spawn_harness(prop, mac, var, ds):
    """C04 under the tokio-spawning macros (native only): branch i's final value is element i / handler argument i"""
    n = len(ds)
    is_try = mac.startswith("try")
    b = ""
    for i in range(n):
        b += "    let a%d: u8 = kani::any();\n" % i

    def f(i, s, x):
        return "%s.wrapping_mul(3).wrapping_add(%d)" % (x, K(i, s))
    brs = []
    for i in range(n):
        t = "core::future::ready(%s)" % ("Ok::<u8, u8>(a%d)" % i if is_try else "a%d" % i)
        for s in range(1, ds[i]):
            if is_try:
                t += " ~=> |x: u8| core::future::ready(Ok::<u8, u8>(%s))" % f(i, s, "x")
            else:
                t += " ~|> |x: u8| %s" % f(i, s, "x")
        brs.append(t)
    args = ", ".join("x%d: u8" % i for i in range(n))
    tupx = "(" + ", ".join("x%d" % i for i in range(n)) + ("," if n == 1 else "") + ")"
    handler = ""
    if var == "then":
        handler = ", then => |%s| core::future::ready(%s)" % (args, tupx)
    elif var == "map":
        handler = ", map => |%s| %s" % (args, tupx)
    prog = "%s! { %s%s }" % (mac, ", ".join(brs), handler)
    vals = []
    for i in range(n):
        e = "a%d" % i
        for s in range(1, ds[i]):
            e = f(i, s, e)
        vals.append(e)
    has_h = var in ("then", "map")
    hty = "(" + ", ".join(["u8"] * n) + ("," if n == 1 else "") + ")"
    vty = hty if has_h else tupty("u8", n)
    rty = "Result<%s, u8>" % vty if is_try else vty
    expv = ("(" + ", ".join(vals) + ("," if n == 1 else "") + ")") if has_h else tup(vals)
    b += "    let r: %s = block_on_tokio(async move { %s.await });\n" % (rty, prog)
    b += "    let exp: %s = %s;\n" % (rty, ("Ok(%s)" % expv) if is_try else expv)
    b += "    assert!(r == exp, \"C04: element i of the result is not branch i's final value\");\n"
    name = "%s_pos_%s_%s_%s" % (prop.lower(), mac, var, pname(ds))
    return Harness(name, harness_fn(name, b), prog, note="profile %s, %s, %s (tokio tasks, native)" % (ds, mac, var))


def _try_async_spawn_harness(prop, ds):
    """C05/C06 under try_join_async_spawn! (native only): Ok(tuple) iff no evaluated position fails; otherwise the payload
    of a branch failing in the EARLIEST failing step; no callback of a later step runs"""
    n = len(ds)
    b = ""
    for i in range(n):
        for s in range(ds[i]):
            b += "    let f_%d_%d: bool = kani::any();\n" % (i, s)

    def pay(i, s):
        return 100 + 10 * i + s
    brs = []
    for i in range(n):
        t = "core::future::ready(if f_%d_0 { Err::<u8, u8>(%d) } else { Ok(%d) })" % (i, pay(i, 0), K(i, 0))
        for s in range(1, ds[i]):
            t += " ~=> move |x: u8| { ev(code(K_CALL, %d, %d, 0)); core::future::ready(if f_%d_%d { Err::<u8, u8>(%d) } else { Ok(x.wrapping_add(%d)) }) }" % (
                i, s, i, s, pay(i, s), K(i, s))
        brs.append(t)
    prog = "try_join_async_spawn! { %s }" % ", ".join(brs)
    rty = "Result<%s, u8>" % tupty("u8", n)
    b += "    let r: %s = block_on_tokio(async move { %s.await });\n" % (rty, prog)
    b += "    let mut fail_step: i32 = -1;\n"
    for s in reversed(range(max(ds))):
        act = [i for i in range(n) if ds[i] > s]
        b += "    if %s { fail_step = %d; }\n" % (" || ".join("f_%d_%d" % (i, s) for i in act), s)
    vals = []
    for i in range(n):
        v = K(i, 0)
        for s in range(1, ds[i]):
            v = (v + K(i, s)) % 256
        vals.append(str(v))
    b += "    assert!(r.is_ok() == (fail_step < 0), \"C05: success iff no evaluated position fails\");\n"
    b += "    if fail_step < 0 { assert!(r == Ok(%s), \"C05: all-success tuple\"); }\n" % tup(vals)
    b += "    if let Err(e) = r {\n        let mut found = false;\n"
    for s in range(max(ds)):
        for i in [i for i in range(n) if ds[i] > s]:
            b += "        if fail_step == %d && f_%d_%d && e == %d { found = true; }\n" % (s, i, s, pay(i, s))
    b += "        assert!(found, \"C05: Err payload is not that of a branch failing in the earliest failing step\");\n    }\n"
    b += "    let nev = tlen().min(TMAX);\n"
    b += "    for k in 0..nev { assert!(fail_step < 0 || (step_of(tr(k)) as i32) <= fail_step, \"C06: a callback of a step after the failing one ran\"); }\n"
    name = "%s_try_async_spawn_%s" % (prop.lower(), pname(ds))
    return Harness(name, harness_fn(name, b), prog, note="profile %s, try_join_async_spawn (tokio tasks, native)" % (ds,))


def _c09_tokio_harnesses(prop):
    """C09 under the tokio-spawning macros (native only, wall-clock timeout 20 s per program): the macro future is lazy,
    branches of a step make progress concurrently, and it completes whenever every branch can"""
    out = []
    T = "tokio::time::timeout(std::time::Duration::from_secs(20), %s).await"
    progs = [
        # an operand that awaits INLINE while the step is being assembled, released by an earlier sibling of the same step
        ("inline_await_released_by_sibling", "join_async_spawn",
         "let (tx, rx) = futures::channel::oneshot::channel::<u8>();",
         "async move { let _ = tx.send(7); 1u8 }, rx.await.unwrap() -> |v: u8| async move { v }", "(1u8, 7u8)"),
        # a branch future that waits for its sibling (either order)
        ("first_waits_for_second", "join_async_spawn",
         "let (tx, rx) = futures::channel::oneshot::channel::<u8>();",
         "async move { rx.await.unwrap() }, async move { let _ = tx.send(5); 2u8 }", "(5u8, 2u8)"),
        ("second_waits_for_first_later_step", "join_async_spawn",
         "let (tx, rx) = futures::channel::oneshot::channel::<u8>();",
         "async { 1u8 } ~|> move |x: u8| { let _ = tx.send(x + 1); x } , async { 3u8 } ~-> move |f| async move { let y = f.await; y + rx.await.unwrap() }", "(1u8, 5u8)"),
        ("try_first_waits_for_second", "try_join_async_spawn",
         "let (tx, rx) = futures::channel::oneshot::channel::<u8>();",
         "async move { Ok::<u8, u8>(rx.await.unwrap()) }, async move { let _ = tx.send(5); Ok::<u8, u8>(2) }", "Ok::<(u8, u8), u8>((5u8, 2u8))"),
        ("non_spawn_first_waits_for_second", "join_async",
         "let (tx, rx) = futures::channel::oneshot::channel::<u8>();",
         "async move { rx.await.unwrap() }, async move { let _ = tx.send(5); 2u8 }", "(5u8, 2u8)"),
    ]
    for (name, mac, pre, body, exp) in progs:
        prog = "%s! { %s }" % (mac, body)
        b = "    let r = block_on_tokio(async move {\n        %s\n        let fut = %s;\n        %s\n    });\n" % (pre, prog, T % "fut")
        b += "    assert!(r.is_ok(), \"C09: the macro's future did not complete although every branch could\");\n"
        b += "    assert!(r.unwrap() == %s, \"C09: wrong result\");\n" % exp
        hn = "%s_tokio_%s" % (prop.lower(), name)
        out.append(Harness(hn, harness_fn(hn, b), prog, note="tokio runtime (3 workers), 20 s timeout, native"))
    # laziness: nothing runs before the first poll
    prog = "join_async_spawn! { async { ev(code(K_INIT, 0, 0, 0)); 1u8 }, tag(code(K_INIT, 1, 0, 0), async { 2u8 }) |> { ev(code(K_CAP, 1, 0, 1)); |x: u8| x + 1 } }"
    b = "    let r = block_on_tokio(async move {\n        let fut = %s;\n        let before = tlen();\n        tokio::task::yield_now().await;\n        let before2 = tlen();\n        (before, before2, fut.await)\n    });\n" % prog
    b += "    assert!(r.0 == 0 && r.1 == 0, \"C09: something was evaluated before the first poll\");\n"
    b += "    assert!(r.2 == (1u8, 3u8));\n"
    out.append(Harness("%s_tokio_lazy" % prop.lower(), harness_fn("%s_tokio_lazy" % prop.lower(), b), prog, note="tokio runtime, laziness of the spawning macro"))
    return out


def _c08_harnesses(prop, tier):
    """C08 (native only): under the thread-spawning macros a step with n > 1 active branches runs them on n distinct,
    simultaneously alive threads named <caller>_join_<branch index>; a single active branch runs on the caller"""
    out = []
    profs = [(1, 1), (2, 2), (1, 2), (2, 1), (1, 2, 2), (2, 1, 3), (3, 1, 2), (1, 1, 1, 1)] + ([] if tier == "quick" else [(3, 3, 3), (2, 3, 1, 3), (1, 2, 3, 4), (2, 2, 2, 2, 2)])
    for mac in ("join_spawn", "try_join_spawn", "spawn", "try_spawn"):
        for ds in profs:
            for ctx in ("main", "named", "unnamed"):
                if tier == "quick" and mac in ("spawn", "try_spawn") and (ctx != "named" or len(ds) > 2):
                    continue
                n = len(ds)
                act = lambda s: sum(1 for d in ds if d > s)
                brs = []
                exp = []
                for i in range(n):
                    t = "Some(%du8) |> |x: u8| { probe(%d, 0, %d); x }" % (i, i, act(0))
                    exp.append("(%d, 0, %d)" % (i, act(0)))
                    for s in range(1, ds[i]):
                        t += " ~|> |x: u8| { probe(%d, %d, %d); x.wrapping_add(1) }" % (i, s, act(s))
                        exp.append("(%d, %d, %d)" % (i, s, act(s)))
                    brs.append(t)
                prog = "%s! { %s }" % (mac, ", ".join(brs))
                vals = tup("Some(%du8)" % (i + ds[i] - 1) for i in range(n)) if not mac.startswith("try") else "Some(%s)" % tup("%du8" % (i + ds[i] - 1) for i in range(n))
                body = "        let me = std::thread::current(); let cid = me.id(); let cname = me.name().map(|s| s.to_string());\n"
                body += "        let r = %s;\n" % prog
                body += "        if r != %s { return Err(\"C08: wrong result\".to_string()); }\n" % vals
                body += "        check_probes(cid, cname, &[%s])\n" % ", ".join(exp)
                b = "    probe_reset();\n    let run = move || -> Result<(), String> {\n%s    };\n" % body
                if ctx == "main":
                    b += "    let res = with_watchdog(run);\n"
                elif ctx == "named":
                    b += "    let res = with_watchdog(move || std::thread::Builder::new().name(\"caller\".into()).spawn(run).unwrap().join().unwrap());\n"
                else:
                    b += "    let res = with_watchdog(move || std::thread::spawn(run).join().unwrap());\n"
                b += "    assert!(res.is_some(), \"C08: the macro did not return within 25 s\");\n"
                b += "    if let Some(Err(m)) = res { panic!(\"{}\", m); }\n"
                hn = "%s_threads_%s_%s_%s" % (prop.lower(), mac, pname(ds), ctx)
                out.append(Harness(hn, harness_fn(hn, b), prog, note="profile %s, caller thread %s" % (ds, ctx)))
    return out


def _c08_initial_harnesses(prop):
    """C08 (native only): the INITIAL VALUE of a branch belongs to the branch - it is evaluated on the branch's own thread,
    concurrently with its siblings, whatever kind of expression it is (call, binary, unary, cast, parenthesised)"""
    out = []
    shapes = [("call", "pv(%d, 0, %d, %du8)"), ("binary", "pv(%d, 0, %d, %du8) + 0u8"), ("unary", "!pv(%d, 0, %d, !%du8)"),
              ("cast", "pv(%d, 0, %d, %du8) as u8"), ("paren_binary", "(pv(%d, 0, %d, %du8) ^ 0u8)"), ("binary_of_calls", "pv(%d, 0, %d, %du8) | core::convert::identity(0u8)")]
    for mac in ("join_spawn", "spawn"):
        for ds in [(1, 1), (2, 2), (1, 2, 2)]:
            for (sn, shape) in shapes:
                if mac == "spawn" and ds != (2, 2):
                    continue
                n = len(ds)
                act = lambda s: sum(1 for d in ds if d > s)
                brs, exp = [], []
                for i in range(n):
                    t = (shape % (i, act(0), i)) + " -> |x: u8| x"
                    exp.append("(%d, 0, %d)" % (i, act(0)))
                    for s in range(1, ds[i]):
                        t += " ~-> |x: u8| { probe(%d, %d, %d); x.wrapping_add(1) }" % (i, s, act(s))
                        exp.append("(%d, %d, %d)" % (i, s, act(s)))
                    brs.append(t)
                prog = "%s! { %s }" % (mac, ", ".join(brs))
                vals = tup("%du8" % (i + ds[i] - 1) for i in range(n))
                body = "        let me = std::thread::current(); let cid = me.id(); let cname = me.name().map(|s| s.to_string());\n"
                body += "        let r = %s;\n" % prog
                body += "        if r != %s { return Err(\"C08: wrong result\".to_string()); }\n" % vals
                body += "        check_probes(cid, cname, &[%s])\n" % ", ".join(exp)
                b = "    probe_reset();\n    let run = move || -> Result<(), String> {\n%s    };\n" % body
                b += "    let res = with_watchdog(move || std::thread::Builder::new().name(\"caller\".into()).spawn(run).unwrap().join().unwrap());\n"
                b += "    assert!(res.is_some(), \"C08: the macro did not return within 25 s\");\n"
                b += "    if let Some(Err(m)) = res { panic!(\"{}\", m); }\n"
                hn = "%s_initial_%s_%s_%s" % (prop.lower(), mac, pname(ds), sn)
                out.append(Harness(hn, harness_fn(hn, b), prog, note="initial value of kind `%s` records its thread, profile %s" % (sn, ds)))
    return out


def _c18_harnesses(prop, tier):
    """C18 (native only): a panic injected at (branch, step) reaches the caller, nothing of a later step runs, the
    caller is not left blocked - for the sync, thread-spawning, async and tokio-spawning kinds"""
    out = []
    profs = [(1,), (2,), (1, 2), (2, 1), (2, 2), (1, 2, 3), (3, 1, 2)] + ([] if tier == "quick" else [(3, 3), (2, 3, 1), (1, 1, 1), (2, 2, 2, 2)])
    kinds = ["join", "try_join", "join_spawn", "try_join_spawn", "join_async", "try_join_async", "join_async_spawn", "try_join_async_spawn"]
    for mac in kinds:
        is_async = "async" in mac
        is_try = mac.startswith("try")
        for ds in profs:
            n = len(ds)
            for bi in range(n):
                for si in range(ds[bi]):
                    if tier == "quick" and (bi + si + len(ds)) % 2 == 1 and n > 1:
                        continue
                    brs = []
                    for i in range(n):
                        def cb(i, s):
                            inj = "panic!(\"INJECTED\")" if (i, s) == (bi, si) else "{}"
                            return "{ ev_e(ep, code(K_CALL, %d, %d, 0)); %s; x }" % (i, s, inj)
                        if is_async:
                            t = "async move { let x = %du8; %s; %s }" % (i, "ev_e(ep, code(K_CALL, %d, 0, 0)); %s" % (i, "panic!(\"INJECTED\")" if (i, 0) == (bi, si) else "{}"),
                                                                      "Ok::<u8, u8>(x)" if is_try else "x")
                            for s in range(1, ds[i]):
                                if is_try:
                                    t += " ~=> move |x: u8| async move { %s; Ok::<u8, u8>(x) }" % ("ev_e(ep, code(K_CALL, %d, %d, 0)); %s" % (i, s, "panic!(\"INJECTED\")" if (i, s) == (bi, si) else "{}"))
                                else:
                                    t += " ~|> move |x: u8| %s" % cb(i, s)
                        else:
                            t = ("Ok::<u8, u8>(%du8)" % i if is_try else "Some(%du8)" % i) + " |> |x: u8| %s" % cb(i, 0)
                            for s in range(1, ds[i]):
                                t += " ~|> |x: u8| %s" % cb(i, s)
                        brs.append(t)
                    prog = "%s! { %s }" % (mac, ", ".join(brs))
                    run = ("block_on_tokio(async move { let _ = %s.await; })" % prog) if is_async else ("{ let _ = %s; }" % prog)
                    b = "    let ep = epoch_begin();\n"
                    b += "    let res = with_watchdog(move || std::panic::catch_unwind(std::panic::AssertUnwindSafe(|| %s)).is_err());\n" % run
                    b += "    assert!(res.is_some(), \"C18: the caller was left blocked after a panic in a branch\");\n"
                    b += "    assert!(res == Some(true), \"C18: the panic of a user expression did not reach the caller\");\n"
                    b += "    let nev = tlen().min(TMAX);\n"
                    b += "    for k in 0..nev { assert!(step_of(tr(k)) <= %d, \"C18: an expression of a later step ran after the panic\"); }\n" % si
                    hn = "%s_panic_%s_%s_b%ds%d" % (prop.lower(), mac, pname(ds), bi, si)
                    out.append(Harness(hn, harness_fn(hn, b), prog, note="panic injected at branch %d step %d, profile %s" % (bi, si, ds)))
    return out


def _c08_nested_harnesses(prop):
    """C08 (native only): a spawn macro nested inside a spawned branch: its threads are named after the branch thread"""
    out = []
    for outer, inner in [("join_spawn", "join_spawn"), ("try_join_spawn", "join_spawn"), ("join_spawn", "try_join_spawn")]:
        inner_prog = "%s! { Some(5u8) |> |y: u8| { probe(10, 1, 2); y }, Some(6u8) |> |y: u8| { probe(11, 1, 2); y } }" % inner
        inner_val = "inner.0.unwrap()" if not inner.startswith("try") else "inner.unwrap().0"
        prog = "%s! { Some(0u8) |> |x: u8| { probe(0, 0, 2); x }, Some(1u8) |> |x: u8| { probe(1, 0, 2); let inner = %s; x + %s } }" % (outer, inner_prog, inner_val)
        body = "        let r = %s;\n" % prog
        body += "        let _ = r;\n"
        body += "        let me = std::thread::current(); let c = me.name().unwrap_or(\"?\").to_string();\n"
        body += "        for (b, want) in [(0u8, format!(\"{}_join_0\", c)), (1u8, format!(\"{}_join_1\", c))] { if probe_thread_name(b, 0) != Some(want.clone()) { return Err(format!(\"C08: outer branch {} ran on {:?}, expected {:?}\", b, probe_thread_name(b, 0), want)); } }\n"
        body += "        for (b, want) in [(10u8, format!(\"{}_join_1_join_0\", c)), (11u8, format!(\"{}_join_1_join_1\", c))] { if probe_thread_name(b, 1) != Some(want.clone()) { return Err(format!(\"C08: nested branch {} ran on {:?}, expected {:?}\", b - 10, probe_thread_name(b, 1), want)); } }\n"
        body += "        Ok(())\n"
        b = "    probe_reset();\n    let run = move || -> Result<(), String> {\n%s    };\n" % body
        b += "    let res = with_watchdog(move || std::thread::Builder::new().name(\"caller\".into()).spawn(run).unwrap().join().unwrap());\n"
        b += "    assert!(res.is_some(), \"C08: the macro did not return within 25 s\");\n"
        b += "    if let Some(Err(m)) = res { panic!(\"{}\", m); }\n"
        hn = "%s_threads_nested_%s_in_%s" % (prop.lower(), inner, outer)
        out.append(Harness(hn, harness_fn(hn, b), prog, note="nested spawn macros: thread names compose"))
    # the nested macro IS the whole branch expression, written with braces: it still runs on the branch's thread
    inner_prog = "join_spawn! { Some(5u8) |> |y: u8| { probe(10, 1, 2); y }, Some(6u8) |> |y: u8| { probe(11, 1, 2); y } }"
    prog = "join_spawn! { Some(0u8) |> |x: u8| { probe(0, 0, 1); x }, %s }" % inner_prog
    body = "        let r = %s;\n        let _ = r;\n" % prog
    body += "        let me = std::thread::current(); let c = me.name().unwrap_or(\"?\").to_string();\n"
    body += "        for (b, want) in [(10u8, format!(\"{}_join_1_join_0\", c)), (11u8, format!(\"{}_join_1_join_1\", c))] { if probe_thread_name(b, 1) != Some(want.clone()) { return Err(format!(\"C08: nested branch {} ran on {:?}, expected {:?}\", b - 10, probe_thread_name(b, 1), want)); } }\n"
    body += "        Ok(())\n"
    b = "    probe_reset();\n    let run = move || -> Result<(), String> {\n%s    };\n" % body
    b += "    let res = with_watchdog(move || std::thread::Builder::new().name(\"caller\".into()).spawn(run).unwrap().join().unwrap());\n"
    b += "    assert!(res.is_some(), \"C08: the macro did not return within 25 s\");\n"
    b += "    if let Some(Err(m)) = res { panic!(\"{}\", m); }\n"
    hn = "%s_threads_nested_bare_branch" % prop.lower()
    out.append(Harness(hn, harness_fn(hn, b), prog, note="a brace-written spawn macro as a whole branch"))
    return out


def _c18_capture_handler_harnesses(prop, tier):
    """C18 (native only): the panic sits in a block capture (evaluated before its step) or in the final handler"""
    out = []
    kinds = ["join", "try_join", "join_spawn", "try_join_spawn", "join_async", "try_join_async", "join_async_spawn", "try_join_async_spawn"]
    for mac in kinds:
        is_async = "async" in mac
        is_try = mac.startswith("try")
        for ds in [(2, 2), (1, 2)] + ([] if tier == "quick" else [(2, 1, 2), (3, 2)]):
            n = len(ds)
            sites = [("cap", bi, si) for bi in range(n) for si in range(1, ds[bi])] + [("handler", 0, max(ds) - 1)]
            for (site, bi, si) in sites:
                brs = []
                for i in range(n):
                    if is_async:
                        t = "async move { ev_e(ep, code(K_CALL, %d, 0, 0)); %s }" % (i, "Ok::<u8, u8>(%du8)" % i if is_try else "%du8" % i)
                    else:
                        t = ("Ok::<u8, u8>(%du8)" % i if is_try else "Some(%du8)" % i) + " |> |x: u8| { ev_e(ep, code(K_CALL, %d, 0, 0)); x }" % i
                    for s in range(1, ds[i]):
                        inj = "panic!(\"INJECTED\");" if (site, i, s) == ("cap", bi, si) else ""
                        if is_async and is_try:
                            t += " ~=> { %s move |x: u8| async move { ev_e(ep, code(K_CALL, %d, %d, 0)); Ok::<u8, u8>(x) } }" % (inj, i, s)
                        else:
                            t += " ~|> { %s move |x: u8| { ev_e(ep, code(K_CALL, %d, %d, 0)); x } }" % (inj, i, s)
                    brs.append(t)
                h = ""
                if site == "handler":
                    args = ", ".join("_x%d" % i for i in range(n))
                    if is_try:
                        h = ", map => |%s| -> u8 { panic!(\"INJECTED\") }" % args
                    elif is_async:
                        h = ", then => |%s| async move { if true { panic!(\"INJECTED\") } 0u8 }" % args
                    else:
                        h = ", then => |%s| -> u8 { panic!(\"INJECTED\") }" % args
                prog = "%s! { %s%s }" % (mac, ", ".join(brs), h)
                run = ("block_on_tokio(async move { let _ = %s.await; })" % prog) if is_async else ("{ let _ = %s; }" % prog)
                b = "    let ep = epoch_begin();\n"
                b += "    let res = with_watchdog(move || std::panic::catch_unwind(std::panic::AssertUnwindSafe(|| %s)).is_err());\n" % run
                b += "    assert!(res.is_some(), \"C18: the caller was left blocked after a panic\");\n"
                b += "    assert!(res == Some(true), \"C18: the panic of a user expression did not reach the caller\");\n"
                if site == "cap":
                    # a block capture of step s is evaluated before any expression of step s
                    b += "    let nev = tlen().min(TMAX);\n"
                    b += "    for k in 0..nev { assert!(step_of(tr(k)) < %d, \"C18: an expression of the step (or of a later one) ran after the panic in its block capture\"); }\n" % si
                hn = "%s_panic_%s_%s_%s_b%ds%d" % (prop.lower(), site, mac, pname(ds), bi, si)
                out.append(Harness(hn, harness_fn(hn, b), prog, note="panic in a %s at branch %d step %d, profile %s" % (site, bi, si, ds)))
    return out


def _c18_operator_callback_harnesses(prop):
    """C18 (native only): the panicking expression is the CALLBACK of each operator that takes one (incl. the iterator
    operators `?@`, `?|>@`, `?>`, `?|>`, `^@`, `?^@`, `?&!>` on a non-empty iterator): it reaches the caller of the sync and
    thread-spawning kinds - an operator that silently never calls its callback swallows the panic"""
    out = []
    B = "|_| -> %s { panic!(\"INJECTED\") }"
    IT = "vec![1u8, 2, 3].into_iter()"
    chains = [
        ("map", "Some(1u8) |> " + B % "u8"), ("and_then", "Some(1u8) => " + B % "Option<u8>"), ("filter", "Some(1u8) ?> " + B % "bool"),
        ("then", "Some(1u8) -> " + B % "Option<u8>"), ("inspect", "Some(1u8) ?? " + B % "()"), ("or_else", "None::<u8> <= || -> Option<u8> { panic!(\"INJECTED\") }"),
        ("map_err", "Err::<u8, u8>(1) !> " + B % "u8"),
        ("find", IT + " ?@ " + B % "bool"), ("find_map", IT + " ?|>@ " + B % "Option<u8>"),
        ("iter_filter_collect", IT + " ?> " + B % "bool" + " =>[] Vec<u8>"), ("iter_filter_map_collect", IT + " ?|> " + B % "Option<u8>" + " =>[] Vec<u8>"),
        ("iter_map_collect", IT + " |> " + B % "u8" + " =>[] Vec<u8>"),
        ("fold", IT + " ^@ 0u8, |_, _| -> u8 { panic!(\"INJECTED\") }"), ("try_fold", IT + " ?^@ 0u8, |_, _| -> Option<u8> { panic!(\"INJECTED\") }"),
        ("partition", IT + " ?&!> " + B % "bool" + " -> |p: (Vec<u8>, Vec<u8>)| p.0.len()"),
    ]
    for mac in ("join", "join_spawn"):
        for (name, chain) in chains:
            prog = "%s! { %s, Some(2u8) |> |x: u8| x }" % (mac, chain)
            b = "    let res = with_watchdog(move || std::panic::catch_unwind(std::panic::AssertUnwindSafe(|| { let _ = %s; })).is_err());\n" % prog
            b += "    assert!(res.is_some(), \"C18: the caller was left blocked after a panic\");\n"
            b += "    assert!(res == Some(true), \"C18: the panic of an operator's callback did not reach the caller (callback never invoked?)\");\n"
            hn = "%s_panic_callback_%s_%s" % (prop.lower(), mac, name)
            out.append(Harness(hn, harness_fn(hn, b), prog, note="panic in the callback of `%s`" % name))
    return out


def _c18_deferred_err_op_harnesses(prop):
    """C18 (native only): the later step of the other branch starts with a deferred ERROR operator (`~<=`, `~!>`, `~<|`) on a
    failed value: it belongs to step 1 and must not run when step 0 panicked"""
    out = []
    for mac in ("join", "join_spawn", "join_async", "join_async_spawn"):
        is_async = "async" in mac
        for op in ("or_else", "map_err", "or", "wrap_map", "wrap_and_then"):
            if op.startswith("wrap_"):
                # the later step starts with a deferred operator in its WRAPPER form (`~|> >>> ..`): still a step boundary
                inner = "|> move |x: u8| { ev_e(ep, code(K_CALL, 0, 1, 0)); x }"
                w = "~|> >>> " + inner if op == "wrap_map" else "~=> >>> " + inner
                if is_async:
                    if op == "wrap_and_then":
                        continue
                    b0 = "async move { Some(1u8) } " + w
                    b1 = "async move { if true { panic!(\"INJECTED\") } Some(2u8) }"
                else:
                    b0 = "Some(Some(1u8)) " + w
                    b1 = "Some(2u8) |> |x: u8| -> u8 { panic!(\"INJECTED\") }"
            elif is_async:
                b0 = "async move { Err::<u8, u8>(1) }"
                if op == "or_else":
                    b0 += " ~<= move |e: u8| async move { ev_e(ep, code(K_CALL, 0, 1, 0)); Ok::<u8, u8>(e) }"
                elif op == "map_err":
                    b0 += " ~!> move |e: u8| { ev_e(ep, code(K_CALL, 0, 1, 0)); e }"
                else:
                    continue
                b1 = "async move { if true { panic!(\"INJECTED\") } Ok::<u8, u8>(2) }"
            else:
                b0 = "Err::<u8, u8>(1)"
                if op == "or_else":
                    b0 += " ~<= move |e: u8| { ev_e(ep, code(K_CALL, 0, 1, 0)); Ok::<u8, u8>(e) }"
                elif op == "map_err":
                    b0 += " ~!> move |e: u8| { ev_e(ep, code(K_CALL, 0, 1, 0)); e }"
                else:
                    b0 += " ~<| { ev_e(ep, code(K_CAP, 0, 1, 0)); Ok::<u8, u8>(3) }"
                b1 = "Ok::<u8, u8>(2) |> |x: u8| -> u8 { panic!(\"INJECTED\") }"
            prog = "%s! { %s, %s }" % (mac, b0, b1)
            run = ("block_on_tokio(async move { let _ = %s.await; })" % prog) if is_async else ("{ let _ = %s; }" % prog)
            b = "    let ep = epoch_begin();\n"
            b += "    let res = with_watchdog(move || std::panic::catch_unwind(std::panic::AssertUnwindSafe(|| %s)).is_err());\n" % run
            b += "    assert!(res == Some(true), \"C18: the panic of a user expression did not reach the caller\");\n"
            b += "    std::thread::sleep(std::time::Duration::from_millis(30));\n"
            b += "    let nev = tlen().min(TMAX);\n"
            b += "    for k in 0..nev { assert!(step_of(tr(k)) == 0, \"C18: an expression of a later step (a deferred error operator) ran although step 0 panicked\"); }\n"
            hn = "%s_panic_deferred_%s_%s" % (prop.lower(), op, mac)
            out.append(Harness(hn, harness_fn(hn, b), prog, note="branch 1 panics in step 0, branch 0's step 1 is a deferred error operator on a failed value"))
    return out


def _c18_blocked_sibling_harnesses(prop, tier):
    """C18 (native only): branch 0 panics in step s while every later-numbered branch of that step is blocked on
    something only the harness releases AFTER the caller has returned: the panic must reach the caller anyway"""
    out = []
    for mac in ("join_spawn", "try_join_spawn"):
        is_try = mac.startswith("try")
        for ds, si in [((1, 1), 0), ((2, 2), 1), ((1, 1, 1), 0), ((2, 1, 2), 1)] + ([] if tier == "quick" else [((3, 3), 2), ((2, 2, 2, 2), 1)]):
            n = len(ds)
            brs = []
            for i in range(n):
                def cb(i, s):
                    if s != si or ds[i] <= si:
                        return "{ x }"
                    return "{ panic!(\"INJECTED\"); x }" if i == 0 else "{ hold(); x }"
                t = ("Ok::<u8, u8>(%du8)" % i if is_try else "Some(%du8)" % i) + " |> |x: u8| %s" % cb(i, 0)
                for s in range(1, ds[i]):
                    t += " ~|> |x: u8| %s" % cb(i, s)
                brs.append(t)
            prog = "%s! { %s }" % (mac, ", ".join(brs))
            b = "    hold_reset();\n"
            b += "    let res = with_watchdog(move || std::panic::catch_unwind(std::panic::AssertUnwindSafe(|| { let _ = %s; })).is_err());\n" % prog
            b += "    release();\n"
            b += "    assert!(res.is_some(), \"C18: the caller was left blocked: it waits for a sibling of the panicking branch\");\n"
            b += "    assert!(res == Some(true), \"C18: the panic of a user expression did not reach the caller\");\n"
            hn = "%s_panic_blocked_sibling_%s_%s_s%d" % (prop.lower(), mac, pname(ds), si)
            out.append(Harness(hn, harness_fn(hn, b), prog, note="branch 0 panics in step %d, its siblings are blocked until the caller has returned" % si))
    return out


def _rand_program_harness(prop, k, mac):
    """differential check over RANDOM programs (native family `rand_diff`): branches x steps x operators drawn from the
    Option -> Option pool, operands plain or block captures, captures that read the NAME of another (or the same) branch,
    `let` / `let mut` names, initial values that are blocks or can fail, optional final handler - against the staged
    reference (captures of a step first, in branch / position order, then the branch expressions; a try macro stops after
    the first step in which a branch is None).  Value always; event trace exactly (sync kinds) / as a multiset (spawn kinds)."""
    import random
    rng = random.Random(7919 * k + 13 + sum(ord(c) for c in mac))
    is_try = mac.startswith("try")
    is_spawn = "spawn" in mac
    n = rng.choice([1, 2, 2, 3, 3])
    ds = [rng.choice([1, 2, 2, 3]) for _ in range(n)]
    names = [rng.choice([None, None, "let", "let mut"]) for _ in range(n)]
    b = ""
    for i in range(n):
        b += "    let a%d: u8 = kani::any();\n" % i
    brs = []
    steps = {}    # (s, i) -> list of (ref, [(var, block_text or None, plain_text)], key)
    nev = 0
    for i in range(n):
        kind = rng.choice(["plain", "block", "cond"])
        if kind == "block":
            init = cap(i, 0, 0, 0, "Some(a%d)" % i)
            nev += 1
        elif kind == "cond":
            init = "if a%d > 200 { None } else { Some(a%d) }" % (i, i)
        else:
            init = "Some(a%d)" % i
        t = ("%s n%d = " % (names[i], i) if names[i] else "") + init
        steps.setdefault((0, i), []).append(("@init@", [("c_%d_0_0_0" % i, init if kind == "block" else None, init)], (i, 0, 0)))
        for s in range(ds[i]):
            nops = rng.choice([0, 1, 2]) if s == 0 else rng.choice([1, 1, 2])
            for p in range(1, nops + 1):
                ops = HOIST_OPT(i, s, p)
                name, m, r, bodies = ops[rng.randrange(len(ops))]
                readers = [j for j in range(n) if names[j]]
                operands = []
                for kk, bd in enumerate(bodies):
                    var = "c_%d_%d_%d_%d" % (i, s, p, kk)
                    muts = [j for j in range(n) if names[j] == "let mut"]
                    if name == "map" and s >= 1 and muts and rng.random() < 0.35:
                        # a capture that REASSIGNS a `let mut` name (also of a branch that has finished)
                        j = rng.choice(muts)
                        blk = "{ ev(code(K_CAP, %d, %d, %d)); n%d = n%d.map(|v: u8| v.wrapping_add(%d)); |x: u8| { ev(code(K_CALL, %d, %d, %d)); x.wrapping_add(1) } }" % (i, s, 2 * p + kk, j, j, K(i, s), i, s, p)
                        refblk = blk.replace("n%d = n%d.map" % (j, j), "v%d = v%d.map" % (j, j))
                        operands.append((var, blk, refblk))
                        nev += 1
                    elif name == "map" and s >= 1 and readers and rng.random() < 0.5:
                        j = rng.choice(readers)
                        blk = "{ ev(code(K_CAP, %d, %d, %d)); let snap: u8 = n%d.clone().unwrap_or(77); move |x: u8| { ev(code(K_CALL, %d, %d, %d)); x.wrapping_add(snap) } }" % (i, s, 2 * p + kk, j, i, s, p)
                        refblk = blk.replace("n%d.clone()" % j, "v%d.clone()" % j)
                        operands.append((var, blk, refblk))
                        nev += 1
                    elif rng.random() < 0.5:
                        blk = cap(i, s, p, kk, bd)
                        operands.append((var, blk, blk))
                        nev += 1
                    else:
                        operands.append((var, None, bd))
                mt = m
                for kk, (var, blk, plain) in enumerate(operands):
                    mt = mt.replace("{B%d}" % kk, blk if blk is not None else plain)
                t += " %s%s" % ("~" if (p == 1 and s > 0) else "", mt)
                steps.setdefault((s, i), []).append((r, operands, (i, s, p)))
                nev += 2
        brs.append(t)
    handler = rng.random() < 0.3
    if handler:
        if is_try:
            brs.append("map => |%s| %s" % (", ".join("x%d: u8" % i for i in range(n)), " ^ ".join("x%d.rotate_left(%d)" % (i, i) for i in range(n))))
        else:
            brs.append("then => |%s| %s" % (", ".join("x%d: Option<u8>" % i for i in range(n)), " ^ ".join("x%d.unwrap_or(%d).rotate_left(%d)" % (i, 100 + i, i) for i in range(n))))
    prog = "%s! { %s }" % (mac, ", ".join(brs))
    if is_try:
        rty = "Option<u8>" if handler else "Option<%s>" % tupty("u8", n)
    else:
        rty = "u8" if handler else tupty("Option<u8>", n)
    b += "    let r: %s = %s;\n" % (rty, prog)
    b += "    reference_mode();\n"
    b += "    let exp: %s = (|| {\n" % rty
    for i in range(n):
        b += "        #[allow(unused_mut, unused_assignments)] let mut v%d: Option<u8> = None;\n" % i
    for s in range(max(ds)):
        act = [i for i in range(n) if ds[i] > s]
        b += "        // step %d: block operands first (branch by branch, position by position), then the branch expressions\n" % s
        for i in act:
            for (r, operands, key) in steps.get((s, i), []):
                for (var, blk, ref) in operands:
                    if blk is not None:
                        b += "        let %s = %s;\n" % (var, ref)
        for i in act:
            for (r, operands, key) in steps.get((s, i), []):
                if r == "@init@":
                    var, blk, ref = operands[0]
                    b += "        v%d = %s;\n" % (i, var if blk is not None else ref)
                    continue
                rr = r
                for kk, (var, blk, ref) in enumerate(operands):
                    rr = rr.replace("{%d}" % kk, var if blk is not None else "(%s)" % ref)
                b += "        v%d = %s;\n" % (i, _apply_ref("v%d" % i, rr))
        if is_try:
            for i in act:
                b += "        if v%d.is_none() { return None; }\n" % i
    if is_try:
        vals = ["v%d.unwrap()" % i for i in range(n)]
        b += "        Some(%s)\n    })();\n" % (" ^ ".join("%s.rotate_left(%d)" % (vals[i], i) for i in range(n)) if handler else tup(vals))
    else:
        b += "        %s\n    })();\n" % (" ^ ".join("v%d.unwrap_or(%d).rotate_left(%d)" % (i, 100 + i, i) for i in range(n)) if handler else tup("v%d" % i for i in range(n)))
    b += "    assert!(r == exp, \"rand_diff: value differs from the staged reference\");\n"
    if is_spawn:
        b += "    assert!(traces_same_multiset(), \"rand_diff: the set of evaluated expressions differs from the staged reference\");\n"
    else:
        b += trace_eq(min(nev + 2, 46))
    hn = "%s_rand_%s_%d" % (prop.lower(), mac, k)
    return Harness(hn, harness_fn(hn, b), prog, note="random program #%d" % k)


def _rand_async_program_harness(prop, k, mac):
    """rand_diff for the async kinds: branches are futures (harness gates), operators are the future / try-future methods
    they print as under `use futures::{FutureExt, TryFutureExt}`; the staged reference is written with the same methods
    and `futures::join!` / `futures::try_join!` per step.  Value always; evaluation trace as a multiset for the
    non-spawning kinds (a spawned task keeps running after a sibling failed, so the spawning kinds compare values only)."""
    import random
    rng = random.Random(104729 * k + 7 + sum(ord(c) for c in mac))
    is_try = mac.startswith("try")
    is_spawn = "spawn" in mac
    n = rng.choice([1, 2, 2, 3])
    ds = [rng.choice([1, 2, 2, 3]) for _ in range(n)]
    names = [rng.choice([None, None, "let"]) for _ in range(n)]
    VT = "Result<u8, u8>" if is_try else "u8"
    b = ""
    for i in range(n):
        b += "    let a%d: u8 = kani::any();\n" % i

    def op_pool(i, s, p):
        c = "ev(code(K_CALL, %d, %d, %d));" % (i, s, p)
        kk = K(i, s)
        if is_try:
            return [
                ("map", "|> {B}", ".map({0})", "move |r: Result<u8, u8>| { %s r.map(|x: u8| x.wrapping_add(%d)) }" % (c, kk)),
                ("and_then", "=> {B}", ".and_then({0})", "move |x: u8| { %s futures::future::ready(if x > 3 { Ok::<u8, u8>(x) } else { Err(x) }) }" % c),
                ("or_else", "<= {B}", ".or_else({0})", "move |e: u8| { %s futures::future::ready(if e > 100 { Ok::<u8, u8>(e) } else { Err(e) }) }" % c),
                ("map_err", "!> {B}", ".map_err({0})", "move |e: u8| { %s e.wrapping_add(1) }" % c),
                ("inspect", "?? {B}", ".inspect({0})", "move |r: &Result<u8, u8>| { %s let _ = r; }" % c),
            ]
        return [
            ("map", "|> {B}", ".map({0})", "move |x: u8| { %s x.wrapping_add(%d) }" % (c, kk)),
            ("inspect", "?? {B}", ".inspect({0})", "move |x: &u8| { %s let _ = x; }" % c),
            ("then", "-> {B}", "@call@{0}", "move |f| async move { let x: u8 = f.await; %s x.wrapping_mul(3) }" % c),
        ]
    brs = []
    steps = {}
    for i in range(n):
        v0 = ("if a%d > 200 { Err::<u8, u8>(a%d) } else { Ok(a%d) }" % (i, i, i)) if is_try else "a%d" % i
        g = "gate(0, code(K_POLL, %d, 0, 0), %s)" % (i, v0)
        blk_init = rng.random() < 0.4
        init = ("{ ev(code(K_CAP, %d, 0, 0)); %s }" % (i, g)) if blk_init else g
        t = ("let n%d = " % i if names[i] else "") + init
        steps.setdefault((0, i), []).append(("@init@", ("c_%d_0_0" % i, init if blk_init else None, init)))
        for s in range(ds[i]):
            nops = rng.choice([0, 1, 2]) if s == 0 else rng.choice([1, 1, 2])
            for p in range(1, nops + 1):
                pool = op_pool(i, s, p)
                name, m, r, body = pool[rng.randrange(len(pool))]
                var = "c_%d_%d_%d" % (i, s, p)
                readers = [j for j in range(n) if names[j]]
                if name == "map" and s >= 1 and readers and rng.random() < 0.5:
                    j = rng.choice(readers)
                    rd = "n%d.clone().unwrap_or(77)" % j if is_try else "n%d" % j
                    if is_try:
                        fn_ = "move |r: Result<u8, u8>| { ev(code(K_CALL, %d, %d, %d)); r.map(|x: u8| x.wrapping_add(snap)) }" % (i, s, p)
                    else:
                        fn_ = "move |x: u8| { ev(code(K_CALL, %d, %d, %d)); x.wrapping_add(snap) }" % (i, s, p)
                    blk = "{ ev(code(K_CAP, %d, %d, %d)); let snap: u8 = %s; %s }" % (i, s, p, rd, fn_)
                    ref = blk.replace("n%d" % j, "w%d" % j)
                    operand = (var, blk, ref)
                elif rng.random() < 0.5:
                    blk = "{ ev(code(K_CAP, %d, %d, %d)); %s }" % (i, s, p, body)
                    operand = (var, blk, blk)
                else:
                    operand = (var, None, body)
                t += " %s%s" % ("~" if (p == 1 and s > 0) else "", m.replace("{B}", operand[1] if operand[1] is not None else operand[2]))
                steps.setdefault((s, i), []).append((r, operand))
        brs.append(t)
    handler = rng.random() < 0.3
    comb = " ^ ".join("x%d.rotate_left(%d)" % (i, i) for i in range(n))
    if handler:
        if is_try:
            brs.append("map => move |%s| %s" % (", ".join("x%d: u8" % i for i in range(n)), comb))
        else:
            brs.append("then => move |%s| futures::future::ready(%s)" % (", ".join("x%d: u8" % i for i in range(n)), comb))
    prog = "%s! { %s }" % (mac, ", ".join(brs))
    if is_try:
        rty = "Result<u8, u8>" if handler else "Result<%s, u8>" % tupty("u8", n)
    else:
        rty = "u8" if handler else tupty("u8", n)
    runner = "block_on_tokio" if is_spawn else "futures::executor::block_on"
    b += "    let r: %s = %s(async move { %s.await });\n" % (rty, runner, prog)
    b += "    reference_mode();\n"
    b += "    let exp_errs: std::cell::RefCell<Vec<u8>> = std::cell::RefCell::new(Vec::new());\n    let exp_errs_ref = &exp_errs;\n"
    b += "    let exp: %s = futures::executor::block_on(async move {\n" % rty
    b += "        use futures::{FutureExt, TryFutureExt};\n"
    for i in range(n):
        b += "        #[allow(unused_mut, unused_assignments, unused_variables)] let mut w%d: %s = %s;\n" % (i, VT, "Ok(0)" if is_try else "0")
    for s in range(max(ds)):
        act = [i for i in range(n) if ds[i] > s]
        b += "        // step %d: block operands first, then one future per active branch, joined\n" % s
        for i in act:
            for (r, (var, blk, ref)) in steps.get((s, i), []):
                if blk is not None:
                    b += "        let %s = %s;\n" % (var, ref)
        futs = []
        for i in act:
            cur = None
            for (r, (var, blk, ref)) in steps.get((s, i), []):
                if r == "@init@":
                    cur = var if blk is not None else ref
                    continue
                if cur is None:
                    cur = "async move { w%d }" % i
                cur = _apply_ref(cur, r.replace("{0}", var if blk is not None else "(%s)" % ref))
            if cur is None:
                cur = "async move { w%d }" % i
            b += "        let f%d = %s;\n" % (i, cur)
            futs.append("f%d" % i)
        if len(act) == 1:
            i = act[0]
            if is_try:
                b += "        w%d = match f%d.await { Ok(v) => Ok(v), Err(e) => return Err(e) };\n" % (i, i)
            else:
                b += "        w%d = f%d.await;\n" % (i, i)
        else:
            if is_try and is_spawn:
                # tokio tasks finish in any order: WHICH failing branch of the earliest failing step is reported depends on
                # the schedule (C05: "a branch that failed in the earliest failing step") - the reference collects them all
                b += "        let %s = futures::join!(%s);\n" % (tup("q%d" % i for i in act), ", ".join(futs))
                b += "        let errs: Vec<u8> = [%s].iter().filter_map(|q: &Result<u8, u8>| q.err()).collect();\n" % ", ".join("q%d" % i for i in act)
                b += "        if !errs.is_empty() { exp_errs_ref.borrow_mut().extend(errs.iter().copied()); return Err(errs[0]); }\n"
                for i in act:
                    b += "        w%d = q%d;\n" % (i, i)
            elif is_try:
                b += "        let %s = match futures::try_join!(%s) { Ok(t) => t, Err(e) => return Err(e) };\n" % (tup("t%d" % i for i in act), ", ".join(futs))
                for i in act:
                    b += "        w%d = Ok(t%d);\n" % (i, i)
            else:
                b += "        let %s = futures::join!(%s);\n" % (tup("t%d" % i for i in act), ", ".join(futs))
                for i in act:
                    b += "        w%d = t%d;\n" % (i, i)
    if is_try:
        vals = ["w%d.unwrap()" % i for i in range(n)]
        b += "        Ok(%s)\n    });\n" % (" ^ ".join("%s.rotate_left(%d)" % (vals[i], i) for i in range(n)) if handler else tup(vals))
    else:
        b += "        %s\n    });\n" % (" ^ ".join("w%d.rotate_left(%d)" % (i, i) for i in range(n)) if handler else tup("w%d" % i for i in range(n)))
    if is_try and is_spawn:
        b += "    let same = match (&r, &exp) { (Err(e), Err(x)) => e == x || exp_errs.borrow().contains(e), _ => r == exp };\n"
        b += "    assert!(same, \"rand_diff(async): value differs from the staged reference\");\n"
    else:
        b += "    assert!(r == exp, \"rand_diff(async): value differs from the staged reference\");\n"
    if not is_spawn:
        b += "    assert!(traces_same_multiset(), \"rand_diff(async): the set of evaluated expressions differs from the staged reference\");\n"
    hn = "%s_rand_%s_%d" % (prop.lower(), mac, k)
    return Harness(hn, harness_fn(hn, b), prog, note="random async program #%d" % k)


def _rand_diff_harnesses(prop, tier):
    out = []
    per = 12 if tier == "quick" else 60
    for mac in ("join", "try_join", "join_spawn", "try_join_spawn"):
        for k in range(per):
            out.append(_rand_program_harness(prop, k, mac))
    pera = 8 if tier == "quick" else 40
    for mac in ("join_async", "try_join_async", "join_async_spawn", "try_join_async_spawn"):
        for k in range(pera):
            out.append(_rand_async_program_harness(prop, k, mac))
    return out


def _c17_spawn_nest_harnesses(prop):
    """C17 nesting under the SPAWNING kinds (native only): a spawning macro nested inside a branch of another spawning
    macro - the inner expansion becomes part of a spawned thread's closure / a spawned task's future and has to satisfy
    the bounds spawning needs (Send + 'static), to depth 3; names of the levels must not clash"""
    out = []
    T = "tokio::time::timeout(std::time::Duration::from_secs(20), %s).await"
    inner_a = "join_async_spawn! { async move { a }, async { 3u8 } |> |x: u8| x.wrapping_add(1) }"
    inner_t = "try_join_async_spawn! { async move { Ok::<u8, u8>(a) }, async { Ok::<u8, u8>(3) } |> |r: Result<u8, u8>| r.map(|x: u8| x.wrapping_add(1)) }"
    progs = [
        ("async_spawn_in_async_spawn", "join_async_spawn! { async { 1u8 } |> |x: u8| x.wrapping_add(1), async move { %s.await } |> |(p, q): (u8, u8)| p.wrapping_add(q) }" % inner_a,
         "(u8, u8)", "(2u8, a.wrapping_add(4))"),
        ("try_async_spawn_in_async_spawn", "join_async_spawn! { async { 1u8 }, async move { %s.await } |> |r: Result<(u8, u8), u8>| r.map(|(p, q)| p.wrapping_add(q)) }" % inner_t,
         "(u8, Result<u8, u8>)", "(1u8, Ok(a.wrapping_add(4)))"),
        ("async_spawn_depth3", "join_async_spawn! { async { 1u8 }, async move { join_async_spawn! { async { 2u8 }, async move { %s.await } |> |(p, q): (u8, u8)| p.wrapping_add(q) }.await } |> |(p, q): (u8, u8)| p.wrapping_add(q) }" % inner_a,
         "(u8, u8)", "(1u8, a.wrapping_add(6))"),
        ("async_spawn_in_operand_closure", "join_async_spawn! { async { 1u8 }, async { 2u8 } -> move |f| async move { let x: u8 = f.await; let (p, q) = %s.await; p.wrapping_add(q).wrapping_add(x) } }" % inner_a,
         "(u8, u8)", "(1u8, a.wrapping_add(6))"),
    ]
    # multi-step inner and outer macros over Copy values with two branches still active after the `~`
    inner_ms = "join_async_spawn! { async move { a } ~|> |x: u8| x.wrapping_add(1), async { 3u8 } ~|> |x: u8| x.wrapping_add(1) }"
    progs += [
        ("async_spawn_multi_step", inner_ms, "(u8, u8)", "(a.wrapping_add(1), 4u8)"),
        ("async_spawn_multi_step_nested", "join_async_spawn! { async { 1u8 } ~|> |x: u8| x.wrapping_add(1), async move { %s.await } ~|> |(p, q): (u8, u8)| p.wrapping_add(q) }" % inner_ms,
         "(u8, u8)", "(2u8, a.wrapping_add(5))"),
        ("try_async_spawn_multi_step_in_handler", "try_join_async_spawn! { async move { Ok::<u8, u8>(a) } ~|> |r: Result<u8, u8>| r, async { Ok::<u8, u8>(3) } ~|> |r: Result<u8, u8>| r, and_then => |p: u8, q: u8| async move { let (s, t) = %s.await; Ok::<u8, u8>(p.wrapping_add(q).wrapping_add(s).wrapping_add(t)) } }" % inner_ms.replace("async move { a }", "async move { p }").replace("async { 3u8 }", "async move { q }"),
         "Result<u8, u8>", "Ok(a.wrapping_add(3).wrapping_add(a.wrapping_add(1)).wrapping_add(4))"),
    ]
    for (name, prog, rty, exp) in progs:
        b = "    let a: u8 = kani::any();\n"
        b += "    let r = block_on_tokio(async move {\n        let fut = %s;\n        %s\n    });\n" % (prog, T % "fut")
        b += "    assert!(r.is_ok(), \"C17: nested spawning macros did not complete\");\n"
        b += "    let r: %s = r.unwrap();\n    assert!(r == %s, \"C17: nesting changed a result (name clash between levels?)\");\n" % (rty, exp)
        hn = "%s_spawn_nest_%s" % (prop.lower(), name)
        out.append(Harness(hn, harness_fn(hn, b), prog, note="spawning macro nested inside a spawned branch, tokio runtime, native"))
    # thread-spawning kinds: the inner macro runs inside a spawned thread's closure
    sync_progs = [
        ("spawn_in_spawn", "join_spawn! { 1u8 -> |x: u8| x.wrapping_add(1), a -> |x: u8| { let (p, q) = join_spawn! { x -> |v: u8| v, 3u8 -> |v: u8| v.wrapping_add(1) }; p.wrapping_add(q) } }", "(u8, u8)", "(2u8, a.wrapping_add(4))"),
        ("try_spawn_in_spawn_depth3", "join_spawn! { 1u8 -> |x: u8| x, a -> |x: u8| { let (p, q) = join_spawn! { 2u8 -> |v: u8| v, x -> |v: u8| try_join_spawn! { Some(v) |> |w: u8| w, Some(3u8) |> |w: u8| w.wrapping_add(1) }.map(|(s, t)| s.wrapping_add(t)).unwrap_or(0) }; p.wrapping_add(q) } }", "(u8, u8)", "(1u8, a.wrapping_add(6))"),
    ]
    for (name, prog, rty, exp) in sync_progs:
        b = "    let a: u8 = kani::any();\n    let r: %s = %s;\n    assert!(r == %s, \"C17: nesting changed a result (name clash between levels?)\");\n" % (rty, prog, exp)
        hn = "%s_spawn_nest_%s" % (prop.lower(), name)
        out.append(Harness(hn, harness_fn(hn, b), prog, note="thread-spawning macro nested inside a spawned branch, native"))
    return out


def _c01_async_stream_harnesses(prop):
    """C01 in the async kinds over STREAMS (native only): on a stream of Results `=>` / `!>` / `<=` / `?^@` are the
    TryStreamExt methods, on a plain stream `|>` / `?>` / `?|>` / `>^>` / `^@` the StreamExt ones - each compared with the
    documented method chain written out by hand in the same program (all four extension traits of the generated `use`)"""
    out = []
    SRC = "futures::stream::iter(vec![Ok::<u8, u8>(a), Ok(2), Err(7), Ok(4)])"
    PLAIN = "futures::stream::iter(vec![a, 2u8, 7, 4])"
    progs = [
        ("and_then_map_err", "join_async", "%s => |v: u8| futures::future::ok::<u8, u8>(v.wrapping_add(1)) !> |e: u8| e.wrapping_add(1) =>[] Vec<Result<u8, u8>>" % SRC,
         "{ use futures::{StreamExt, TryStreamExt}; %s.and_then(|v: u8| futures::future::ok::<u8, u8>(v.wrapping_add(1))).map_err(|e: u8| e.wrapping_add(1)).collect::<Vec<Result<u8, u8>>>().await }" % SRC, "Vec<Result<u8, u8>>"),
        ("or_else", "join_async", "%s <= |e: u8| futures::future::ready(if e == 7 { Ok::<u8, u8>(70) } else { Err(e) }) =>[] Vec<Result<u8, u8>>" % SRC,
         "{ use futures::{StreamExt, TryStreamExt}; %s.or_else(|e: u8| futures::future::ready(if e == 7 { Ok::<u8, u8>(70) } else { Err(e) })).collect::<Vec<Result<u8, u8>>>().await }" % SRC, "Vec<Result<u8, u8>>"),
        ("try_fold", "try_join_async", "%s ?^@ 0u8, |acc: u8, v: u8| futures::future::ready(Ok::<u8, u8>(acc.wrapping_add(v)))" % SRC,
         "{ use futures::TryStreamExt; %s.try_fold(0u8, |acc: u8, v: u8| futures::future::ready(Ok::<u8, u8>(acc.wrapping_add(v)))).await }" % SRC, "Result<u8, u8>"),
        ("try_fold_ok", "try_join_async", "futures::stream::iter(vec![Ok::<u8, u8>(a), Ok(2)]) ?^@ 0u8, |acc: u8, v: u8| futures::future::ready(Ok::<u8, u8>(acc.wrapping_add(v)))",
         "{ use futures::TryStreamExt; futures::stream::iter(vec![Ok::<u8, u8>(a), Ok(2)]).try_fold(0u8, |acc: u8, v: u8| futures::future::ready(Ok::<u8, u8>(acc.wrapping_add(v)))).await }", "Result<u8, u8>"),
        ("try_fold_spawn", "try_join_async_spawn", "futures::stream::iter(vec![Ok::<u8, u8>(a), Ok(2)]) ?^@ 0u8, |acc: u8, v: u8| futures::future::ready(Ok::<u8, u8>(acc.wrapping_add(v)))",
         "{ use futures::TryStreamExt; futures::stream::iter(vec![Ok::<u8, u8>(a), Ok(2)]).try_fold(0u8, |acc: u8, v: u8| futures::future::ready(Ok::<u8, u8>(acc.wrapping_add(v)))).await }", "Result<u8, u8>"),
        ("plain_map_filter_collect", "join_async", "%s |> |v: u8| v.wrapping_add(1) ?> |v: &u8| futures::future::ready(*v %% 2 == 0) =>[] Vec<u8>" % PLAIN,
         "{ use futures::StreamExt; %s.map(|v: u8| v.wrapping_add(1)).filter(|v: &u8| futures::future::ready(*v %% 2 == 0)).collect::<Vec<u8>>().await }" % PLAIN, "Vec<u8>"),
        ("plain_filter_map_fold", "join_async", "%s ?|> |v: u8| futures::future::ready(if v > 3 { Some(v) } else { None }) ^@ 0u8, |acc: u8, v: u8| futures::future::ready(acc.wrapping_add(v))" % PLAIN,
         "{ use futures::StreamExt; %s.filter_map(|v: u8| futures::future::ready(if v > 3 { Some(v) } else { None })).fold(0u8, |acc: u8, v: u8| futures::future::ready(acc.wrapping_add(v))).await }" % PLAIN, "u8"),
        ("plain_zip_spawn", "join_async_spawn", "%s >^> futures::stream::iter(vec![1u8, 2, 3]) =>[] Vec<(u8, u8)>" % PLAIN,
         "{ use futures::StreamExt; %s.zip(futures::stream::iter(vec![1u8, 2, 3])).collect::<Vec<(u8, u8)>>().await }" % PLAIN, "Vec<(u8, u8)>"),
    ]
    for (name, mac, chain, ref, rty) in progs:
        b = "    let a: u8 = kani::any();\n"
        b += "    let (r, e): (%s, %s) = block_on_tokio(async move {\n        let r: %s = %s! { %s }.await;\n        let e: %s = %s;\n        (r, e)\n    });\n" % (rty, rty, rty, mac, chain, rty, ref)
        b += "    assert!(r == e, \"C01: an operator on a stream differs from its documented method chain\");\n"
        hn = "%s_async_stream_%s" % (prop.lower(), name)
        out.append(Harness(hn, harness_fn(hn, b), "%s! { %s }" % (mac, chain), note="stream operand, tokio runtime, native"))
    return out


def _c19_alloc_harnesses(prop):
    """C19 (native only): the sequential macros perform no heap allocation of their own - programs over stack-only values
    run under a counting global allocator; the count of the calling thread must not move across the macro"""
    out = []
    progs = [
        ("try_res_steps", "try_join! { Ok::<u8, u8>(a) ~=> |v: u8| if keep { Ok(v) } else { Err(v) } ~|> |v: u8| v.wrapping_add(1), Ok::<u8, u8>(2) ~|> |v: u8| v + 1 ~|> |v: u8| v }",
         "Result<(u8, u8), u8>", "if keep { Ok((a.wrapping_add(1), 3)) } else { Err(a) }"),
        ("try_opt_steps_map", "try_join! { Some(a) ~?> |v: &u8| keep || *v > 250 ~|> |v: u8| v, Some(2u8) ~|> |v: u8| v + 1, Some(3u8), map => |x: u8, y: u8, z: u8| x.wrapping_add(y).wrapping_add(z) }",
         "Option<u8>", "if keep || a > 250 { Some(a.wrapping_add(6)) } else { None }"),
        ("try_and_then_three_steps", "try_join! { Some(a) ~|> |v: u8| v ~=> |v: u8| Some(v) ~|> |v: u8| v, Some(1u8) ~|> |v: u8| v ~|> |v: u8| v, and_then => |x: u8, y: u8| if keep { Some(x.wrapping_add(y)) } else { None } }",
         "Option<u8>", "if keep { Some(a.wrapping_add(1)) } else { None }"),
        ("join_then_steps", "join! { Some(a) |> |v: u8| v.wrapping_add(1) ~=> |v: u8| if keep { Some(v) } else { None }, 2u8 -> |v: u8| v + 1 ~-> |v: u8| v, then => |x: Option<u8>, y: u8| x.map(|v| v.wrapping_add(y)) }",
         "Option<u8>", "if keep { Some(a.wrapping_add(4)) } else { None }"),
        ("join_wrapper_capture_inspect", "join! { Some(Some(a)) |> >>> |> { let k = 2u8; move |v: u8| v.wrapping_add(k) } <<< ?? |v: &Option<Option<u8>>| { let _ = v; } ~|> |v: Option<u8>| v, Some(1u8) ~<| Some(9u8) }",
         "(Option<Option<u8>>, Option<u8>)", "(Some(Some(a.wrapping_add(2))), Some(1))"),
        ("join_single_branch_steps", "join! { a -> |v: u8| v.wrapping_add(1) ~-> |v: u8| v.wrapping_add(1) ~-> |v: u8| v }", "u8", "a.wrapping_add(2)"),
    ]
    for (name, prog, rty, exp) in progs:
        b = "    let a: u8 = kani::any();\n    let keep: bool = kani::any();\n"
        b += "    let before = alloc_count::allocs();\n    let r: %s = %s;\n    let after = alloc_count::allocs();\n" % (rty, prog)
        b += "    assert!(after == before, \"C19: a sequential macro allocated on the heap\");\n"
        b += "    assert!(r == %s, \"C19: value differs\");\n" % exp
        hn = "%s_alloc_%s" % (prop.lower(), name)
        out.append(Harness(hn, harness_fn(hn, b), prog, note="counting global allocator (calling thread), native"))
    return out


def native_families(pid, tier):
    out = []
    quick = tier == "quick"
    if pid == "C19":
        out += _c19_alloc_harnesses(pid)
    if pid == "C01":
        out += _c01_async_stream_harnesses(pid)
    if pid == "C17":
        out += _c17_spawn_nest_harnesses(pid)
    if pid in ("C01", "C03", "C04", "C05", "C06", "C10", "C11", "C12"):
        out += _rand_diff_harnesses(pid, tier)
    if pid == "C18":
        out += _c18_blocked_sibling_harnesses(pid, tier)
        out += _c18_capture_handler_harnesses(pid, tier)
        out += _c18_deferred_err_op_harnesses(pid)
        out += _c18_operator_callback_harnesses(pid)
    if pid == "C08":
        out += _c08_harnesses(pid, tier)
        out += _c08_nested_harnesses(pid)
        out += _c08_initial_harnesses(pid)
    if pid == "C18":
        out += _c18_harnesses(pid, tier)
    if pid == "C09":
        out += _c09_tokio_harnesses(pid)
        # native, not Kani: the boxed `dyn Future` continuations cost CBMC minutes per program
        out += _async_temporaries_harnesses(pid)
    if pid == "C04":
        for mac, var in [("join_async_spawn", "plain"), ("try_join_async_spawn", "plain"), ("join_async_spawn", "then"), ("try_join_async_spawn", "map"), ("async_spawn", "plain")]:
            for ds in [(1, 2), (2, 1), (1, 2, 2), (2, 1, 3), (3, 1, 2), (1, 2, 3), (2, 1, 2, 2)]:
                out.append(_pos_async_spawn_harness(pid, mac, var, ds))
    if pid in ("C05", "C06"):
        for ds in [(2, 2), (1, 2), (2, 1), (3,), (3, 2), (2, 3), (1, 3, 2), (3, 1, 2), (1, 2, 3)]:
            out.append(_try_async_spawn_harness(pid, ds))
    if pid == "C04":
        profs = [(1, 2), (2, 1), (1, 2, 2), (2, 1, 2), (1, 3, 2), (3, 1, 2), (2, 3, 1), (1, 2, 3), (2, 1, 2, 2)] + ([] if quick else profiles([2, 3], 3))
        for mac, var in [("join_spawn", "plain"), ("try_join_spawn", "plain"), ("join_spawn", "then"), ("try_join_spawn", "map"),
                         ("try_join_spawn", "and_then"), ("join_spawn", "let"), ("try_join_spawn", "let"), ("spawn", "plain"), ("try_spawn", "map")]:
            for ds in profs:
                out.append(_pos_harness(pid, mac, var, ds))
    if pid in ("C05", "C06"):
        profs = [(2, 2), (1, 2), (2, 1), (3,), (3, 2), (2, 3), (1, 3, 2), (3, 1, 2), (2, 3, 1), (1, 2, 3), (3, 2, 3)] + ([] if quick else profiles([3], 3) + [(1, 2, 2, 3), (2, 1, 3, 3)])
        for flavour in ("res", "opt"):
            for ds in profs:
                out.append(_try_harness(pid, flavour, ds, mac="try_join_spawn"))
    if pid == "C03":
        profs = [(2, 2), (1, 2), (2, 1), (3, 2), (2, 3), (1, 2, 2), (2, 1, 2), (3, 2, 1), (1, 3, 2), (2, 2, 2)]
        for rot in range(3 if quick else len(SYNC_OPS)):
            for ds in profs:
                out.append(_barrier_sync_harness(pid, ds, rot * 2 if quick else rot, mac="join_spawn"))
    if pid == "C12":
        for mac in ("join_spawn", "try_join_spawn"):
            for ds in [(2, 2), (1, 2), (2, 1), (2, 2, 2), (1, 2, 3), (2, 3, 1), (3, 1, 2)]:
                for mask in (1, 2, 2 ** len(ds) - 1):
                    out.append(_let_harness(pid, mac, ds, mask))
            for ds in [(3, 1), (1, 3), (2, 4, 1)]:
                out.append(_let_harness(pid, mac, ds, 2 ** len(ds) - 1, own=True))
            out.append(_let_harness(pid, mac, (2, 3, 1), 7, raw=True))
    if pid == "C13":
        for mac, hk in [("join_spawn", "then"), ("try_join_spawn", "map"), ("try_join_spawn", "and_then")]:
            for n in (2, 3):
                for depth2 in (False, True):
                    for pos in ("end", "mid"):
                        out.append(_handler_harness(pid, mac, hk, n, depth2, pos))
    return dedup(out)
