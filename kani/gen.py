"""Harness generator for engine K (DESIGN.md 3.2).

Every harness is a Hoare triple around a REAL macro invocation (expanded by the proc-macro built
from /repo's working tree):
    { inputs, callback behaviour, failure flags, readiness schedule : kani::any() }
        r = <macro>!{ program P }
    { r == Spec_P(inputs)  /\\  trace in TraceSpec_P }
Spec_P is written from the PROPERTY STATEMENT (documented method chain, staged step evaluation,
first failing step / lowest failing branch, element i is branch i, ...), never from the generator.

families(pid, tier) -> list of Harness(name, code, covers, program, bounded_note)
"""
import itertools


class Harness:
    def __init__(self, name, code, program, unwind=None, note=""):
        self.name = name
        self.code = code
        self.program = program
        self.unwind = unwind
        self.note = note


def profiles(ns, dmax):
    out = []
    for n in ns:
        out += list(itertools.product(range(1, dmax + 1), repeat=n))
    return out


def pname(ds):
    return "".join(str(d) for d in ds)


def K(i, s):
    """distinct odd constant per (branch, step) so that any swap of same-typed values is visible"""
    return (17 * i + 5 * s + 3) % 251


def tup(xs):
    xs = list(xs)
    if len(xs) == 1:
        return xs[0]
    return "(" + ", ".join(xs) + ")"


def tupty(t, n):
    return t if n == 1 else "(" + ", ".join([t] * n) + ")"


HDR = "#[cfg_attr(kani, kani::proof)]\n"


def harness_fn(name, body, unwind=None):
    u = "#[cfg_attr(kani, kani::unwind(%d))]\n" % unwind if unwind else ""
    return HDR + u + "pub fn %s() {\n    reset();\n%s}\n" % (name, body)


def trace_eq(nmax):
    """exact trace equality macro-run vs reference-run (sync programs have one schedule)"""
    s = "    assert!(tlen() == elen(), \"trace length differs from the staged reference\");\n"
    for k in range(nmax):
        s += "    assert!(%d >= tlen() || tr(%d) == etr(%d), \"event %d differs from the staged reference\");\n" % (k, k, k, k)
    return s


# ======================================================================================
# Family TRY  (C05, C06): all failure placements, all depth profiles
# ======================================================================================

def fam_try(prop, tier):
    out = []
    if tier == "quick":
        profs = profiles([1, 2, 3], 2) + [(3,), (3, 2), (2, 3), (3, 3), (1, 3, 2), (3, 1, 2), (2, 3, 1), (1, 2, 3), (3, 2, 3)]
        aprofs = [(1,), (2,), (1, 1), (2, 1), (1, 2), (2, 2)]
    else:
        profs = profiles([1, 2, 3], 3) + [(1, 2, 2, 3), (3, 1, 2, 2), (2, 2, 1, 3), (1, 3, 1, 2), (2, 1, 3, 3)]
        aprofs = [(1,), (2,), (1, 1), (2, 1), (1, 2), (2, 2), (3,), (3, 2), (2, 3), (2, 1, 2), (1, 2, 2), (2, 2, 1)]
    for flavour in ("res", "opt"):
        for ds in profs:
            out.append(_try_harness(prop, flavour, ds))
    for ds in aprofs:
        out.append(_try_async_harness(prop, ds))
    return out


def _try_async_harness(prop, ds):
    """try_join_async!: gates (symbolic pending count <= 1) at the initial position, failure flags symbolic at every
    (branch, step), payloads distinct constants.  Spec (C05/C06, async clause): Ok(tuple) iff no evaluated position
    fails; otherwise the Err of SOME branch failing in the earliest failing step; no event of a later step."""
    n = len(ds)
    b = ""
    for i in range(n):
        b += "    let p%d: u8 = kani::any(); kani::assume(p%d <= 1);\n" % (i, i)
        for s in range(ds[i]):
            b += "    let f_%d_%d: bool = kani::any();\n" % (i, s)

    def E(i, s):
        return 100 + 10 * i + s
    brs = []
    for i in range(n):
        t = "gate(p%d, code(K_POLL, %d, 0, 0), if f_%d_0 { Err::<u8, u8>(%d) } else { Ok(%d) })" % (i, i, i, E(i, 0), K(i, 0))
        for s in range(1, ds[i]):
            t += " ~=> |x: u8| { ev(code(K_CALL, %d, %d, 0)); core::future::ready(if f_%d_%d { Err::<u8, u8>(%d) } else { Ok(x.wrapping_add(%d)) }) }" % (
                i, s, i, s, E(i, s), K(i, s))
        brs.append(t)
    prog = "try_join_async! { %s }" % ", ".join(brs)
    rty = "Result<%s, u8>" % tupty("u8", n)
    b += "    let fut = %s;\n" % prog
    b += "    assert!(tlen() == 0, \"nothing may be evaluated before the first poll\");\n"
    b += "    let (out, polls) = run(fut, 2);\n"
    b += "    assert!(out.is_some(), \"future did not complete\");\n"
    b += "    let r: %s = out.unwrap();\n" % rty
    vals = []
    for i in range(n):
        v = K(i, 0)
        for s in range(1, ds[i]):
            v = (v + K(i, s)) % 256
        vals.append(str(v))
    prev = "true"
    b += "    let mut fail_step: i32 = -1;\n"
    for s in range(max(ds)):
        act = [i for i in range(n) if ds[i] > s]
        anyf = " || ".join("f_%d_%d" % (i, s) for i in act)
        b += "    let any%d = %s;\n" % (s, anyf)
        b += "    if %s && any%d {\n        fail_step = %d;\n" % (prev, s, s)
        if prop == "C05":
            b += "        assert!(%s, \"C05: Err payload is not that of a branch failing in the earliest failing step\");\n" % " || ".join(
                "(f_%d_%d && r == Err(%d))" % (i, s, E(i, s)) for i in act)
        else:
            b += "        assert!(r.is_err());\n"
        b += "    }\n"
        prev += " && !any%d" % s
    b += "    if %s { assert!(r == Ok(%s), \"C05: all positions succeed but the result is not Ok(tuple)\"); }\n" % (prev, tup(vals))
    if prop == "C06":
        nmaxev = 2 * n + sum(ds)
        b += "    assert!(tlen() <= %d);\n" % nmaxev
        for k in range(nmaxev):
            b += "    assert!(%d >= tlen() || fail_step < 0 || (step_of(tr(%d)) as i32) <= fail_step, \"C06: event of a step after the failing one\");\n" % (k, k)
    b += "    kani_cover!(r.is_ok());\n    kani_cover!(polls == 2);\n"
    if max(ds) > 1:
        b += "    kani_cover!(fail_step == 1);\n"
    name = "%s_try_ares_%s" % (prop.lower(), pname(ds))
    return Harness(name, harness_fn(name, b, unwind=4), prog, note="profile %s, async Result; pending count <= 1 per initial gate" % (ds,))


def _try_harness(prop, flavour, ds):
    n = len(ds)
    is_async = flavour == "ares"
    opt = flavour == "opt"
    OK, ER = ("Some", "None") if opt else ("Ok", "Err")
    ty = "Option<u8>" if opt else "Result<u8, u8>"
    b = ""
    nev = 0
    # ---- inputs
    for i in range(n):
        if opt:
            b += "    let a%d: %s = if kani::any::<bool>() { Some(kani::any()) } else { None };\n" % (i, ty)
        else:
            b += "    let a%d: %s = if kani::any::<bool>() { Ok(kani::any()) } else { Err(kani::any()) };\n" % (i, ty)
        for s in range(ds[i]):
            b += "    let f_%d_%d: bool = kani::any();" % (i, s)
            if not opt:
                b += " let e_%d_%d: u8 = kani::any();" % (i, s)
            if is_async:
                b += " let p_%d_%d: u8 = kani::any(); kani::assume(p_%d_%d <= 1);" % (i, s, i, s)
            b += "\n"

    def fail(i, s):
        return "None" if opt else "Err(e_%d_%d)" % (i, s)

    def cb_body(i, s, x):
        return "if f_%d_%d { %s } else { %s(%s.wrapping_add(%d)) }" % (i, s, fail(i, s), OK, x, K(i, s))

    # ---- program
    brs = []
    for i in range(n):
        if is_async:
            t = "gate(p_%d_0, code(K_POLL, %d, 0, 0), a%d)" % (i, i, i)
            t += " => |x: u8| { ev(code(K_CALL, %d, 0, 0)); core::future::ready::<%s>(%s) }" % (i, ty, cb_body(i, 0, "x"))
            for s in range(1, ds[i]):
                t += " ~=> |x: u8| { ev(code(K_CALL, %d, %d, 0)); gate(p_%d_%d, code(K_POLL, %d, %d, 1), %s) }" % (
                    i, s, i, s, i, s, cb_body(i, s, "x"))
        else:
            t = "a%d => |x: u8| { ev(code(K_CALL, %d, 0, 0)); %s }" % (i, i, cb_body(i, 0, "x"))
            for s in range(1, ds[i]):
                t += " ~=> |x: u8| { ev(code(K_CALL, %d, %d, 0)); %s }" % (i, s, cb_body(i, s, "x"))
        brs.append(t)
        nev += ds[i]
    mac = "try_join_async" if is_async else "try_join"
    prog = "%s! { %s }" % (mac, ", ".join(brs))
    rty = "%s<%s%s>" % ("Option" if opt else "Result", tupty("u8", n), "" if opt else ", u8")
    if is_async:
        maxpoll = 1 + max(ds)
        b += "    let fut = %s;\n" % prog
        b += "    assert!(tlen() == 0, \"C09: nothing may be evaluated before the first poll\");\n"
        b += "    let (out, polls) = run(fut, %d);\n" % (maxpoll + 1)
        b += "    assert!(out.is_some(), \"future did not complete\");\n"
        b += "    let r: %s = out.unwrap();\n" % rty
    else:
        b += "    let r: %s = %s;\n" % (rty, prog)
    # ---- reference: staged evaluation, straight from C05/C06
    b += "    reference_mode();\n"
    b += "    let mut fail_step: i32 = -1;\n"
    b += "    let exp: %s = (|| {\n" % rty
    for i in range(n):
        b += "        let mut v%d: u8 = 0;\n" % i
    for s in range(max(ds)):
        act = [i for i in range(n) if ds[i] > s]
        b += "        // step %d: every active branch runs the step to its end ...\n" % s
        for i in act:
            if s == 0:
                b += "        let r%d: %s = match a%d { %s(x) => { ev(code(K_CALL, %d, 0, 0)); %s } other => other };\n" % (
                    i, ty, i, OK, i, cb_body(i, 0, "x"))
            else:
                b += "        ev(code(K_CALL, %d, %d, 0)); let r%d: %s = %s;\n" % (i, s, i, ty, cb_body(i, s, "v%d" % i))
        b += "        // ... then the lowest-numbered failing branch decides\n"
        for i in act:
            if opt:
                b += "        if r%d.is_none() { fail_step = %d; return None; }\n" % (i, s)
            else:
                b += "        if let Err(e) = r%d { fail_step = %d; return Err(e); }\n" % (i, s)
        for i in act:
            b += "        v%d = r%d.unwrap();\n" % (i, i)
    b += "        %s(%s)\n    })();\n" % (OK, tup("v%d" % i for i in range(n)))
    if not is_async:
        if prop == "C05":
            b += "    assert!(r == exp, \"C05: result differs from the staged reference\");\n"
        else:
            b += "    assert!(r.is_%s() == exp.is_%s());\n" % (("some", "some") if opt else ("ok", "ok"))
            b += trace_eq(nev)
    else:
        # async: any failing branch of the earliest failing step; nothing of a later step runs
        b += "    assert!(r.is_ok() == exp.is_ok(), \"C05: success iff no evaluated position fails\");\n"
        if prop == "C05":
            b += "    if let Ok(t) = r { assert!(Ok(t) == exp); }\n"
            b += "    if let Err(e) = r {\n        let mut found = false;\n"
            for s in range(max(ds)):
                for i in [i for i in range(n) if ds[i] > s]:
                    if s == 0:
                        b += "        if fail_step == 0 && ((a%d.is_err() && a%d == Err(e)) || (a%d.is_ok() && f_%d_0 && e_%d_0 == e)) { found = true; }\n" % (i, i, i, i, i)
                    else:
                        b += "        if fail_step == %d && f_%d_%d && e_%d_%d == e { found = true; }\n" % (s, i, s, i, s)
            b += "        assert!(found, \"C05: Err payload is not that of a branch failing in the earliest failing step\");\n    }\n"
        else:
            nmaxev = sum(ds) * 4
            b += "    assert!(tlen() <= %d);\n" % nmaxev
            for k in range(nmaxev):
                b += "    assert!(%d >= tlen() || fail_step < 0 || (step_of(tr(%d)) as i32) <= fail_step, \"C06: event of a step after the failing one\");\n" % (k, k)
    # ---- covers (vacuity guards)
    b += "    kani_cover!(r.is_%s());\n" % ("some" if opt else "ok")
    if max(ds) > 1:
        b += "    kani_cover!(fail_step >= 1);\n"
    name = "%s_try_%s_%s" % (prop.lower(), flavour, pname(ds))
    return Harness(name, harness_fn(name, b, unwind=((3 + max(ds)) if is_async else None)), prog,
                   note="profile %s, %s" % (ds, flavour))


TMAX_UNWIND = 50


# ======================================================================================
# Family POS  (C04): result positions for all depth profiles, handlers, let patterns
# ======================================================================================

def fam_pos(prop, tier):
    out = []
    if tier == "quick":
        profs = profiles([1, 2, 3], 2) + [(1, 3, 2), (3, 1, 2), (2, 3, 1), (1, 2, 3), (3, 2, 3), (1, 2, 2, 1), (2, 1, 2, 2)]
    else:
        profs = profiles([1, 2, 3], 3) + profiles([4], 2) + [(1, 3, 2, 3), (3, 1, 2, 2), (2, 2, 1, 3), (1, 3, 1, 2)]
    variants = [("join", "plain"), ("try_join", "plain"), ("join", "then"), ("try_join", "map"), ("try_join", "and_then"),
                ("join", "let"), ("try_join", "let"), ("join_async", "plain"), ("try_join_async", "plain"),
                ("join_async", "then"), ("try_join_async", "map")]
    for mac, var in variants:
        for ds in profs:
            if tier == "quick" and var != "plain" and len(ds) > 3:
                continue
            if tier == "quick" and mac.endswith("async") and (len(ds) > 3 or (len(ds) == 3 and max(ds) > 2 and var != "plain")):
                continue
            out.append(_pos_harness(prop, mac, var, ds))
    return out


def _pos_harness(prop, mac, var, ds):
    n = len(ds)
    is_async = mac.endswith("async")
    is_try = mac.startswith("try")
    wrap_opt = (not is_async) and (not is_try)      # join!: branch values are Option<u8> so that `|>` is `.map`
    et = "Option<u8>" if wrap_opt else "u8"           # element type of the result tuple / handler arguments
    b = ""
    for i in range(n):
        b += "    let a%d: u8 = kani::any();\n" % i

    def f(i, s, x):
        return "%s.wrapping_mul(3).wrapping_add(%d)" % (x, K(i, s))
    brs = []
    for i in range(n):
        init = "Ok::<u8, u8>(a%d)" % i if is_try else ("Some(a%d)" % i if wrap_opt else "a%d" % i)
        if is_async:
            t = "gate(0, code(K_POLL, %d, 0, 0), %s)" % (i, init)
        else:
            t = init
        if var == "let":
            t = "let %sn%d = %s" % ("mut " if i % 2 else "", i, t)
        for s in range(1, ds[i]):
            if is_async and is_try:
                t += " ~=> |x: u8| core::future::ready(Ok::<u8, u8>(%s))" % f(i, s, "x")
            elif is_async:
                t += " ~|> |x: u8| %s" % f(i, s, "x")
            else:
                t += " ~|> |x: u8| %s" % f(i, s, "x")
        brs.append(t)
    args = ", ".join("x%d: %s" % (i, et) for i in range(n))
    tupx = "(" + ", ".join("x%d" % i for i in range(n)) + ("," if n == 1 else "") + ")"
    hty = "(" + ", ".join([et] * n) + ("," if n == 1 else "") + ")"
    handler = ""
    if var == "then":
        handler = ", then => |%s| { ev(code(K_HANDLER, 0, 0, 0)); %s }" % (args, ("core::future::ready(%s)" % tupx) if is_async else tupx)
    elif var == "map":
        handler = ", map => |%s| { ev(code(K_HANDLER, 0, 0, 0)); %s }" % (args, tupx)
    elif var == "and_then":
        handler = ", and_then => |%s| { ev(code(K_HANDLER, 0, 0, 0)); Ok::<%s, u8>(%s) }" % (args, hty, tupx)
    prog = "%s! { %s%s }" % (mac, ", ".join(brs), handler)
    has_h = var in ("then", "map", "and_then")
    vty = hty if has_h else tupty(et, n)
    rty = "Result<%s, u8>" % vty if is_try else vty
    if is_async:
        b += "    let fut = %s;\n" % prog
        b += "    let (out, _polls) = run(fut, 1);\n"
        b += "    assert!(out.is_some(), \"future did not complete in one poll although no gate is pending\");\n"
        b += "    let r: %s = out.unwrap();\n" % rty
    else:
        b += "    let r: %s = %s;\n" % (rty, prog)
    # ---- reference: C04 "branch i's final value is element i"
    vals = []
    for i in range(n):
        e = "a%d" % i
        for s in range(1, ds[i]):
            e = f(i, s, e)
        vals.append("Some(%s)" % e if wrap_opt else e)
    expv = ("(" + ", ".join(vals) + ("," if n == 1 else "") + ")") if has_h else tup(vals)
    b += "    let exp: %s = %s;\n" % (rty, ("Ok(%s)" % expv) if is_try else expv)
    b += "    assert!(r == exp, \"C04: element i of the result is not branch i's final value\");\n"
    if has_h:
        b += "    assert!(tlen() >= 1);\n"
    name = "%s_pos_%s_%s_%s" % (prop.lower(), mac, var, pname(ds))
    return Harness(name, harness_fn(name, b, unwind=(3 if is_async else None)), prog,
                   note="profile %s, %s, %s" % (ds, mac, var))


# ======================================================================================
# Family BARRIER (C03 sync/async) and ASYNC (C09)
# ======================================================================================

SYNC_OPS = ["map", "or_else", "and_then", "map_err", "or", "inspect", "then"]


def _sync_op(kind, i, s, pos):
    """(macro text, reference method-call text applied to `cur`) for one deferred operator with logging callback"""
    c = "code(K_CALL, %d, %d, %d)" % (i, s, pos)
    k = K(i, s)
    if kind == "map":
        cl = "|x: u8| { ev(%s); x.wrapping_add(%d) }" % (c, k)
        return "|> " + cl, ".map(%s)" % cl
    if kind == "and_then":
        cl = "|x: u8| { ev(%s); if x & 1 == 0 { Ok::<u8, u8>(x.wrapping_add(%d)) } else { Err::<u8, u8>(x) } }" % (c, k)
        return "=> " + cl, ".and_then(%s)" % cl
    if kind == "or_else":
        cl = "|e: u8| { ev(%s); if e & 1 == 0 { Ok::<u8, u8>(e.wrapping_add(%d)) } else { Err::<u8, u8>(e.wrapping_add(1)) } }" % (c, k)
        return "<= " + cl, ".or_else(%s)" % cl
    if kind == "map_err":
        cl = "|e: u8| { ev(%s); e.wrapping_add(%d) }" % (c, k)
        return "!> " + cl, ".map_err(%s)" % cl
    if kind == "or":
        ex = "tag(%s, Ok::<u8, u8>(%d))" % (c, k)
        return "<| " + ex, ".or(%s)" % ex
    if kind == "inspect":
        cl = "|r: &Result<u8, u8>| { ev(%s); let _ = r; }" % c
        return "?? " + cl, "@inspect@" + cl
    if kind == "then":
        cl = "|r: Result<u8, u8>| { ev(%s); r.map(|x| x.wrapping_add(%d)) }" % (c, k)
        return "-> " + cl, "@call@" + cl
    raise KeyError(kind)


def _apply_ref(cur, ref):
    if ref.startswith("@inspect@"):
        return "{ let t = %s; (%s)(&t); t }" % (cur, ref[len("@inspect@"):])
    if ref.startswith("@call@"):
        return "(%s)(%s)" % (ref[len("@call@"):], cur)
    return cur + ref


def fam_barrier_sync(prop, tier):
    out = []
    if tier == "quick":
        profs = [(2,), (3,), (2, 2), (1, 2), (2, 1), (3, 2), (2, 3), (1, 2, 2), (2, 1, 2), (3, 2, 1), (1, 3, 2), (2, 2, 2)]
    else:
        profs = [p for p in profiles([1, 2, 3], 3) if max(p) > 1] + [(1, 2, 2, 3), (3, 1, 2, 2)]
    for rot in range(len(SYNC_OPS) if tier == "thorough" else 3):
        for ds in profs:
            out.append(_barrier_sync_harness(prop, ds, rot * 2 if tier == "quick" else rot))
    return out


def _barrier_sync_harness(prop, ds, rot):
    n = len(ds)
    b = ""
    for i in range(n):
        b += "    let a%d: Result<u8, u8> = if kani::any::<bool>() { Ok(kani::any()) } else { Err(kani::any()) };\n" % i
    brs = []
    refs = {}
    nev = 0
    for i in range(n):
        t = "a%d" % i
        for s in range(ds[i]):
            # two actions per step: one deferred (opens the step, except step 0) and one instant
            for pos in range(2):
                if s == 0 and pos == 0:
                    continue
                kind = SYNC_OPS[(rot + 3 * i + 2 * s + pos) % len(SYNC_OPS)]
                m, r = _sync_op(kind, i, s, pos)
                t += " %s%s" % ("~" if pos == 0 else "", m)
                refs.setdefault((s, i), []).append(r)
                nev += 1
        brs.append(t)
    prog = "join! { %s }" % ", ".join(brs)
    b += "    let r: %s = %s;\n" % (tupty("Result<u8, u8>", n), prog)
    b += "    reference_mode();\n"
    for i in range(n):
        b += "    let c%d: Result<u8, u8> = a%d;\n" % (i, i)
    for s in range(max(ds)):
        b += "    // step %d of every active branch, branch by branch, each continuing from its own value\n" % s
        for i in range(n):
            for r in refs.get((s, i), []):
                b += "    let c%d: Result<u8, u8> = %s;\n" % (i, _apply_ref("c%d" % i, r))
    b += "    let exp = %s;\n" % tup("c%d" % i for i in range(n))
    b += "    assert!(r == exp, \"C03: a branch did not continue from its own previous step value\");\n"
    b += trace_eq(nev)
    b += "    kani_cover!(tlen() >= %d);\n" % max(1, nev // 2)
    name = "%s_barrier_sync_%s_r%d" % (prop.lower(), pname(ds), rot)
    return Harness(name, harness_fn(name, b), prog, note="profile %s, operator rotation %d" % (ds, rot))


def fam_async(prop, tier):
    """join_async!/try_join_async! with harness-controlled gates: all readiness patterns (pending count <= 1 per gate)"""
    out = []
    if tier == "quick":
        profs = [(1,), (2,), (1, 1), (2, 1), (1, 2), (2, 2), (2, 1, 2), (1, 2, 2)]
    else:
        profs = [(1,), (2,), (1, 1), (2, 1), (1, 2), (2, 2), (2, 1, 2), (1, 2, 2), (3,), (3, 2), (2, 3), (2, 2, 1), (2, 2, 2), (1, 1, 1), (1, 2, 2, 1)]
    for mac in ("join_async", "try_join_async"):
        for ds in profs:
            if mac == "try_join_async" and tier == "quick" and len(ds) > 2:
                continue
            out.append(_async_harness(prop, mac, ds))
    return out


def _async_harness(prop, mac, ds):
    n = len(ds)
    is_try = mac.startswith("try")
    b = ""
    for i in range(n):
        for s in range(ds[i]):
            b += "    let p_%d_%d: u8 = kani::any(); kani::assume(p_%d_%d <= 1);\n" % (i, s, i, s)
    brs = []
    for i in range(n):
        v0 = "Ok::<u8, u8>(%d)" % K(i, 0) if is_try else "%du8" % K(i, 0)
        t = "gate(p_%d_0, code(K_POLL, %d, 0, 0), %s)" % (i, i, v0)
        for s in range(1, ds[i]):
            t += " ~-> |f| %s(f, p_%d_%d, code(K_CALL, %d, %d, 0), %d)" % ("then_gate_r" if is_try else "then_gate", i, s, i, s, K(i, s))
        brs.append(t)
    prog = "%s! { %s }" % (mac, ", ".join(brs))
    b += "    let fut = %s;\n" % prog
    b += "    assert!(tlen() == 0, \"C09: evaluated something before the first poll\");\n"
    # polls needed when all active branches of a step progress concurrently: 1 + sum_s max_i p_is
    need = "1u8"
    for s in range(max(ds)):
        act = [i for i in range(n) if ds[i] > s]
        m = "p_%d_%d" % (act[0], s)
        for i in act[1:]:
            m = "core::cmp::max(%s, p_%d_%d)" % (m, i, s)
        need += " + " + m
    b += "    let need: u8 = %s;\n" % need
    maxp = 1 + max(ds)
    b += "    let (out, polls) = run(fut, %d);\n" % maxp
    vals = []
    for i in range(n):
        v = K(i, 0)
        for s in range(1, ds[i]):
            v = (v + K(i, s)) % 256
        vals.append(str(v))
    if is_try:
        rty = "Result<%s, u8>" % tupty("u8", n)
        exp = "Ok(%s)" % tup(vals)
    else:
        rty = tupty("u8", n)
        exp = tup(vals)
    if prop == "C09":
        b += "    assert!(out.is_some(), \"C09: future did not complete although every branch could\");\n"
        b += "    assert!(polls <= need, \"C09: a pending branch blocked a ready sibling (more polls than concurrent progress needs)\");\n"
        b += "    assert!(wake_ok(), \"C09: a Pending answer without a wake-up of the macro's future\");\n"
        b += "    let r: %s = out.unwrap();\n    assert!(r == %s);\n" % (rty, exp)
    else:
        b += "    assert!(out.is_some());\n    let r: %s = out.unwrap();\n" % rty
        b += "    assert!(r == %s, \"C03: a branch did not continue from its own previous step value\");\n" % exp
        nmaxev = 3 * sum(ds)
        b += "    assert!(tlen() <= %d);\n" % nmaxev
        for k in range(1, nmaxev):
            b += "    assert!(%d >= tlen() || step_of(tr(%d)) <= step_of(tr(%d)), \"C03: an event of step k+1 precedes an event of step k\");\n" % (k, k - 1, k)
    b += "    kani_cover!(polls == %d);\n" % maxp
    if n >= 2:
        b += "    kani_cover!(p_0_0 == 1 && p_1_0 == 0);\n    kani_cover!(p_0_0 == 0 && p_1_0 == 1);\n"
    name = "%s_async_%s_%s" % (prop.lower(), mac, pname(ds))
    return Harness(name, harness_fn(name, b, unwind=(2 + maxp)), prog, note="profile %s, pending count <= 1 per gate (one gate per branch and step)" % (ds,))


# ======================================================================================

FAMILIES = {
    "C03": [fam_barrier_sync, fam_async],
    "C04": [fam_pos],
    "C05": [fam_try],
    "C06": [fam_try],
    "C09": [fam_async],
}


def families(pid, tier):
    out = []
    for f in FAMILIES.get(pid, []):
        out += f(pid, tier)
    return out


def render(hs):
    s = "#![allow(unused, unused_mut, unused_parens, unused_braces, static_mut_refs, clippy::all)]\n"
    s += "pub mod support;\npub use support::*;\nuse join::*;\n\n"
    for h in hs:
        s += "// program: %s\n%s\n" % (h.program.replace("\n", " "), h.code)
    s += "#[cfg(not(kani))]\npub fn run_harness(name: &str) -> bool {\n    match name {\n"
    for h in hs:
        s += "        \"%s\" => %s(),\n" % (h.name, h.name)
    s += "        _ => return false,\n    }\n    true\n}\n"
    return s
