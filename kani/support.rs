// Support code shared by all generated harnesses (engine K, DESIGN.md 3.2).
// Compiled by Kani (cfg(kani)) and natively (replay) with the `kani` shim below.
#![allow(unused, static_mut_refs, clippy::all)]

#[cfg(not(kani))]
pub mod kani {
    //! native stand-in for `kani::any()` fed from a concrete-playback vector
    use std::cell::RefCell;
    use std::collections::VecDeque;
    thread_local! { pub static Q: RefCell<VecDeque<Vec<u8>>> = RefCell::new(VecDeque::new()); }
    pub fn feed(v: Vec<Vec<u8>>) { Q.with(|q| *q.borrow_mut() = v.into_iter().collect()); }
    pub trait Any { fn from_bytes(b: &[u8]) -> Self; }
    impl Any for bool { fn from_bytes(b: &[u8]) -> Self { b.first().map(|x| *x != 0).unwrap_or(false) } }
    impl Any for u8 { fn from_bytes(b: &[u8]) -> Self { b.first().copied().unwrap_or(0) } }
    impl Any for i8 { fn from_bytes(b: &[u8]) -> Self { b.first().copied().unwrap_or(0) as i8 } }
    impl Any for i32 { fn from_bytes(b: &[u8]) -> Self { let mut a = [0u8; 4]; for (i, x) in b.iter().take(4).enumerate() { a[i] = *x; } i32::from_le_bytes(a) } }
    impl Any for usize { fn from_bytes(b: &[u8]) -> Self { let mut a = [0u8; 8]; for (i, x) in b.iter().take(8).enumerate() { a[i] = *x; } usize::from_le_bytes(a) } }
    impl Any for u16 { fn from_bytes(b: &[u8]) -> Self { let mut a = [0u8; 2]; for (i, x) in b.iter().take(2).enumerate() { a[i] = *x; } u16::from_le_bytes(a) } }
    impl Any for u32 { fn from_bytes(b: &[u8]) -> Self { let mut a = [0u8; 4]; for (i, x) in b.iter().take(4).enumerate() { a[i] = *x; } u32::from_le_bytes(a) } }
    pub fn any<T: Any>() -> T { Q.with(|q| T::from_bytes(&q.borrow_mut().pop_front().unwrap_or_default())) }
    pub fn assume(c: bool) { if !c { panic!("REPLAY: assumption violated by the playback vector"); } }
    #[macro_export]
    macro_rules! kani_cover { ($($t:tt)*) => {}; }
}

#[cfg(kani)]
#[macro_export]
macro_rules! kani_cover { ($($t:tt)*) => { kani::cover!($($t)*); }; }

// ------------------------------------------------------------------ event traces
pub const TMAX: usize = 48;
pub static mut TRACE: [u16; TMAX] = [0; TMAX];
pub static mut TLEN: usize = 0;
pub static mut ETRACE: [u16; TMAX] = [0; TMAX];
pub static mut ELEN: usize = 0;
/// which buffer `ev` writes to: 0 = macro run, 1 = reference run
pub static mut WHICH: u8 = 0;

pub fn reset() { unsafe { TLEN = 0; ELEN = 0; WHICH = 0; DROPS = 0; LIVE = 0; WAKES = 0; } }
pub fn reference_mode() { unsafe { WHICH = 1; } }
pub fn macro_mode() { unsafe { WHICH = 0; } }

/// event code: kind(4 bits) | branch(4) | step(4) | pos(4)
pub const fn code(kind: u16, branch: u16, step: u16, pos: u16) -> u16 { (kind << 12) | (branch << 8) | (step << 4) | pos }
pub const K_CALL: u16 = 1;   // callback invoked
pub const K_CAP: u16 = 2;    // block capture evaluated
pub const K_POLL: u16 = 3;   // gate polled
pub const K_HANDLER: u16 = 4;
pub const K_JOINER: u16 = 5;
pub const K_INIT: u16 = 6;   // initial value expression evaluated
pub fn step_of(c: u16) -> u16 { (c >> 4) & 0xf }
pub fn branch_of(c: u16) -> u16 { (c >> 8) & 0xf }
pub fn kind_of(c: u16) -> u16 { c >> 12 }

#[cfg(not(kani))]
static EVLOCK: std::sync::Mutex<()> = std::sync::Mutex::new(());
pub fn ev(c: u16) {
    // natively (replay / native sweeps of the thread-spawning macros) events may come from several threads: the lock
    // makes the recorded order a linearisation of them
    #[cfg(not(kani))]
    let _g = EVLOCK.lock().unwrap_or_else(|e| e.into_inner());
    unsafe {
        if WHICH == 0 { if TLEN < TMAX { TRACE[TLEN] = c; } TLEN += 1; }
        else { if ELEN < TMAX { ETRACE[ELEN] = c; } ELEN += 1; }
    }
}
/// native only: the two traces hold the same events, order disregarded (thread-spawning macros)
#[cfg(not(kani))]
pub fn traces_same_multiset() -> bool {
    let (mut a, mut b): (Vec<u16>, Vec<u16>) = unsafe { (TRACE[..TLEN.min(TMAX)].to_vec(), ETRACE[..ELEN.min(TMAX)].to_vec()) };
    a.sort(); b.sort();
    a == b && tlen() == elen()
}
/// native only: no event of step k+1 is recorded before an event of step k
#[cfg(not(kani))]
pub fn trace_steps_monotone() -> bool {
    let n = tlen().min(TMAX);
    (1..n).all(|k| step_of(tr(k - 1)) <= step_of(tr(k)))
}
pub fn tlen() -> usize { unsafe { TLEN } }
pub fn elen() -> usize { unsafe { ELEN } }
pub fn tr(i: usize) -> u16 { unsafe { if i < TMAX { TRACE[i] } else { 0 } } }
pub fn etr(i: usize) -> u16 { unsafe { if i < TMAX { ETRACE[i] } else { 0 } } }
/// evaluates to `v` after logging `c` (used to tag operand / initial expressions)
pub fn tag<T>(c: u16, v: T) -> T { ev(c); v }

// ------------------------------------------------------------------ move-only token with drop counting
pub static mut DROPS: u32 = 0;
pub static mut LIVE: i32 = 0;
pub struct Tok(pub u8);
impl Tok { pub fn new(v: u8) -> Tok { unsafe { LIVE += 1; } Tok(v) } }
impl Drop for Tok { fn drop(&mut self) { unsafe { DROPS += 1; LIVE -= 1; } } }
pub fn drops() -> u32 { unsafe { DROPS } }
pub fn live() -> i32 { unsafe { LIVE } }

// ------------------------------------------------------------------ async: gates, waker, poll loop
use core::future::Future;
use core::pin::Pin;
use core::task::{Context, Poll, RawWaker, RawWakerVTable, Waker};

pub static mut WAKES: u32 = 0;
pub fn wakes() -> u32 { unsafe { WAKES } }

fn rw_clone(_: *const ()) -> RawWaker { RawWaker::new(core::ptr::null(), &VT) }
fn rw_wake(_: *const ()) { unsafe { WAKES += 1; } }
fn rw_drop(_: *const ()) {}
static VT: RawWakerVTable = RawWakerVTable::new(rw_clone, rw_wake, rw_wake, rw_drop);
pub fn counting_waker() -> Waker { unsafe { Waker::from_raw(RawWaker::new(core::ptr::null(), &VT)) } }

/// Leaf future controlled by the harness: answers `Pending` `pending` times (waking the waker it
/// was given each time), then `Ready(value)`.  Logs a K_POLL event on every poll.
pub struct Gate<T> { pub pending: u8, pub value: Option<T>, pub code: u16 }
impl<T: Unpin> Future for Gate<T> {
    type Output = T;
    fn poll(mut self: Pin<&mut Self>, cx: &mut Context<'_>) -> Poll<T> {
        ev(self.code);
        if self.pending > 0 {
            self.pending -= 1;
            cx.waker().wake_by_ref();
            Poll::Pending
        } else {
            Poll::Ready(self.value.take().expect("gate polled after completion"))
        }
    }
}
/// C09: an operand expression whose evaluation creates a temporary with a `Drop` (a lock guard, say): the temporary
/// must be gone before the operand's result is awaited, or a continuation that needs the lock never finishes
pub static mut HELD: u8 = 0;
pub struct HeldGuard;
impl Drop for HeldGuard { fn drop(&mut self) { unsafe { HELD -= 1; } } }
pub fn hold_guard() -> HeldGuard { unsafe { HELD += 1; } HeldGuard }
pub struct WaitReleased;
impl Future for WaitReleased {
    type Output = ();
    fn poll(self: Pin<&mut Self>, cx: &mut Context<'_>) -> Poll<()> {
        if unsafe { HELD } > 0 { cx.waker().wake_by_ref(); Poll::Pending } else { Poll::Ready(()) }
    }
}
impl HeldGuard {
    pub fn cont<F: Future<Output = u8> + 'static>(&self, k: u8) -> impl FnOnce(F) -> Pin<Box<dyn Future<Output = u8>>> {
        move |f: F| -> Pin<Box<dyn Future<Output = u8>>> { Box::pin(async move { let x = f.await; WaitReleased.await; x.wrapping_add(k) }) }
    }
    pub fn cont_r<F: Future<Output = Result<u8, u8>> + 'static>(&self, k: u8) -> impl FnOnce(F) -> Pin<Box<dyn Future<Output = Result<u8, u8>>>> {
        move |f: F| -> Pin<Box<dyn Future<Output = Result<u8, u8>>>> { Box::pin(async move { let x = f.await?; WaitReleased.await; Ok(x.wrapping_add(k)) }) }
    }
}
pub fn bump_mut(c: &mut u8) -> &mut u8 { *c = c.wrapping_add(1); c }
pub fn gate<T: Unpin>(pending: u8, code: u16, value: T) -> Gate<T> { Gate { pending, value: Some(value), code } }

/// Polls `f` up to `max` times; returns the output and the number of polls used.
/// `WAKE_OK` stays true iff every `Pending` answer was preceded by a wake-up of the root waker.
pub static mut WAKE_OK: bool = true;
pub fn wake_ok() -> bool { unsafe { WAKE_OK } }
pub fn run<F: Future>(f: F, max: u8) -> (Option<F::Output>, u8) {
    let mut f = Box::pin(f);
    let w = counting_waker();
    let mut cx = Context::from_waker(&w);
    unsafe { WAKE_OK = true; }
    let mut n: u8 = 0;
    while n < max {
        let before = wakes();
        n += 1;
        match f.as_mut().poll(&mut cx) {
            Poll::Ready(v) => return (Some(v), n),
            Poll::Pending => { if wakes() == before { unsafe { WAKE_OK = false; } } }
        }
    }
    (None, n)
}

/// step continuation for `~->` in async programs: awaits the previous value, logs, then waits on a fresh gate
pub fn then_gate(f: impl Future<Output = u8>, p: u8, c: u16, k: u8) -> impl Future<Output = u8> {
    async move { let x = f.await; ev(c); gate(p, (c & 0x0fff) | (K_POLL << 12) | 1, x.wrapping_add(k)).await }
}
pub fn then_gate_r(f: impl Future<Output = Result<u8, u8>>, p: u8, c: u16, k: u8) -> impl Future<Output = Result<u8, u8>> {
    async move { let x = f.await?; ev(c); gate(p, (c & 0x0fff) | (K_POLL << 12) | 1, Ok::<u8, u8>(x.wrapping_add(k))).await }
}

/// order-sensitive accumulator usable as a `partition` / `collect` target without heap allocation
#[derive(Default, PartialEq, Eq, Debug, Clone, Copy)]
pub struct Acc(pub u8, pub u8);
impl Extend<u8> for Acc {
    fn extend<I: IntoIterator<Item = u8>>(&mut self, it: I) { for x in it { self.0 = self.0.wrapping_mul(3).wrapping_add(x); self.1 = self.1.wrapping_add(1); } }
}

/// number of logged events of a kind / the n-th event of a kind (bounded scans)
pub fn tlen_kind(kind: u16) -> usize { let mut n = 0; let mut i = 0; while i < TMAX && i < tlen() { if kind_of(tr(i)) == kind { n += 1; } i += 1; } n }
pub fn nth_kind(kind: u16, n: usize) -> u16 { let mut k = 0; let mut i = 0; while i < TMAX && i < tlen() { if kind_of(tr(i)) == kind { if k == n { return tr(i); } k += 1; } i += 1; } 0 }

pub mod reexport { pub use ::futures; }

/// logging joiners (macro form, so that any arity works)
#[macro_export]
macro_rules! value_joiner { ($($b:expr),+) => {{ $crate::support::ev($crate::support::code($crate::support::K_JOINER, 0, 0, 0 $(+ { let _ = stringify!($b); 1 })+)); ($($b),+) }}; }
#[macro_export]
macro_rules! lazy_joiner { ($($b:expr),+) => {{ $crate::support::ev($crate::support::code($crate::support::K_JOINER, 0, 0, 0 $(+ { let _ = stringify!($b); 1 })+)); ($(($b)()),+) }}; }
#[macro_export]
macro_rules! transposing_joiner {
    ($a:expr, $b:expr) => {{ $crate::support::ev($crate::support::code($crate::support::K_JOINER, 0, 0, 2)); let (a, b) = ($a, $b); a.and_then(|a| b.map(|b| (a, b))) }};
    ($a:expr, $b:expr, $c:expr) => {{ $crate::support::ev($crate::support::code($crate::support::K_JOINER, 0, 0, 3)); let (a, b, c) = ($a, $b, $c); a.and_then(|a| b.and_then(|b| c.map(|c| (a, b, c)))) }};
}
#[macro_export]
macro_rules! lazy_async_joiner { ($($b:expr),+) => {{ $crate::support::ev($crate::support::code($crate::support::K_JOINER, 0, 0, 0 $(+ { let _ = stringify!($b); 1 })+)); ::futures::join!($(($b)()),+) }}; }
#[macro_export]
macro_rules! log_try_join { ($($b:expr),+) => {{ $crate::support::ev($crate::support::code($crate::support::K_JOINER, 0, 0, 0 $(+ { let _ = stringify!($b); 1 })+)); ::futures::try_join!($($b),+) }}; }
pub use crate::{lazy_joiner, transposing_joiner, value_joiner};

/// native sweeps of the tokio-spawning macros
#[cfg(all(not(kani), feature = "tokio_rt"))]
pub fn block_on_tokio<F: core::future::Future>(f: F) -> F::Output {
    tokio::runtime::Builder::new_multi_thread().worker_threads(3).enable_all().build().unwrap().block_on(f)
}

// ------------------------------------------------------------------ native only: heap allocations of the calling thread (C19)
#[cfg(not(kani))]
pub mod alloc_count {
    use std::alloc::{GlobalAlloc, Layout, System};
    use std::cell::Cell;
    thread_local! { static N: Cell<usize> = const { Cell::new(0) }; }
    pub struct Counting;
    unsafe impl GlobalAlloc for Counting {
        unsafe fn alloc(&self, l: Layout) -> *mut u8 { let _ = N.try_with(|c| c.set(c.get() + 1)); System.alloc(l) }
        unsafe fn alloc_zeroed(&self, l: Layout) -> *mut u8 { let _ = N.try_with(|c| c.set(c.get() + 1)); System.alloc_zeroed(l) }
        unsafe fn realloc(&self, p: *mut u8, l: Layout, n: usize) -> *mut u8 { let _ = N.try_with(|c| c.set(c.get() + 1)); System.realloc(p, l, n) }
        unsafe fn dealloc(&self, p: *mut u8, l: Layout) { System.dealloc(p, l) }
    }
    /// allocations made by the current thread so far
    pub fn allocs() -> usize { N.with(|c| c.get()) }
}
#[cfg(not(kani))]
#[global_allocator]
static GLOBAL_ALLOC: alloc_count::Counting = alloc_count::Counting;

// ------------------------------------------------------------------ native only: thread probes (C08) and watchdog (C18)
#[cfg(not(kani))]
pub mod probes {
    use std::sync::atomic::{AtomicUsize, Ordering};
    use std::sync::Mutex;
    use std::thread::ThreadId;
    use std::time::{Duration, Instant};
    pub struct Probe { pub branch: u8, pub step: u8, pub name: Option<String>, pub id: ThreadId, pub all_arrived: bool }
    static PROBES: Mutex<Vec<Probe>> = Mutex::new(Vec::new());
    static ARRIVALS: [AtomicUsize; 16] = [const { AtomicUsize::new(0) }; 16];
    pub fn probe_reset() { PROBES.lock().unwrap_or_else(|e| e.into_inner()).clear(); for a in ARRIVALS.iter() { a.store(0, Ordering::SeqCst); } }
    /// called by the callback of (branch, step): records the thread it runs on, then waits (up to 10 s) until all
    /// `expected` active branches of the step have arrived - they can only all arrive if they are alive at the same time
    pub fn probe(branch: u8, step: u8, expected: usize) {
        let t = std::thread::current();
        ARRIVALS[step as usize].fetch_add(1, Ordering::SeqCst);
        let deadline = Instant::now() + Duration::from_secs(10);
        let mut ok = true;
        while ARRIVALS[step as usize].load(Ordering::SeqCst) < expected {
            if Instant::now() > deadline { ok = false; break; }
            std::thread::sleep(Duration::from_millis(1));
        }
        PROBES.lock().unwrap_or_else(|e| e.into_inner()).push(Probe { branch, step, name: t.name().map(|s| s.to_string()), id: t.id(), all_arrived: ok });
    }
    /// `probe`, usable inside an expression: records, waits for the siblings, hands `v` on
    pub fn pv(branch: u8, step: u8, expected: usize, v: u8) -> u8 { probe(branch, step, expected); v }
    /// expect: (branch, step, number of branches active in that step)
    pub fn check_probes(caller_id: ThreadId, caller_name: Option<String>, expect: &[(u8, u8, usize)]) -> Result<(), String> {
        let p = PROBES.lock().unwrap_or_else(|e| e.into_inner());
        for &(b, s, n) in expect {
            let hits: Vec<&Probe> = p.iter().filter(|x| x.branch == b && x.step == s).collect();
            if hits.len() != 1 { return Err(format!("C08: callback of branch {} step {} ran {} times", b, s, hits.len())); }
            let h = hits[0];
            if !h.all_arrived { return Err(format!("C08: branch {} of step {} waited in vain for its {} siblings: the branches of a step are not alive at the same time", b, s, n - 1)); }
            if n > 1 {
                let want = match &caller_name { Some(c) => format!("{}_join_{}", c, b), None => format!("join_{}", b) };
                if h.name.as_deref() != Some(want.as_str()) { return Err(format!("C08: branch {} of step {} ran on a thread named {:?}, expected {:?}", b, s, h.name, want)); }
                if h.id == caller_id { return Err(format!("C08: branch {} of step {} ({} active branches) ran on the calling thread", b, s, n)); }
                if p.iter().any(|o| o.step == s && o.branch != b && o.id == h.id) { return Err(format!("C08: two branches of step {} shared a thread", s)); }
            } else if h.id != caller_id {
                return Err(format!("C08: the single active branch {} of step {} did not run on the calling thread", b, s));
            }
        }
        Ok(())
    }
    pub fn probe_thread_name(branch: u8, step: u8) -> Option<String> {
        PROBES.lock().unwrap_or_else(|e| e.into_inner()).iter().find(|x| x.branch == branch && x.step == step).and_then(|x| x.name.clone())
    }
    // panic injection leaves detached threads / tasks behind (the siblings of the panicking branch): their late events
    // must not leak into the next run, so every run has an epoch and an event is recorded only under the epoch it was
    // created for
    static EPOCH: AtomicUsize = AtomicUsize::new(0);
    pub fn epoch_begin() -> usize { super::reset(); EPOCH.fetch_add(1, Ordering::SeqCst) + 1 }
    pub fn ev_e(epoch: usize, c: u16) { if EPOCH.load(Ordering::SeqCst) == epoch { super::ev(c); } }
    static RELEASE: std::sync::atomic::AtomicBool = std::sync::atomic::AtomicBool::new(false);
    pub fn hold_reset() { RELEASE.store(false, Ordering::SeqCst); }
    pub fn release() { RELEASE.store(true, Ordering::SeqCst); }
    /// a branch that waits for something only the harness provides (after the caller has returned): models a sibling
    /// blocked on what a panicking branch would have produced
    pub fn hold() {
        let deadline = Instant::now() + Duration::from_secs(60);
        while !RELEASE.load(Ordering::SeqCst) && Instant::now() < deadline { std::thread::sleep(Duration::from_millis(1)); }
    }
    /// runs `f` on a helper thread and waits up to 25 s: None = the caller would have been left blocked
    pub fn with_watchdog<T: Send + 'static>(f: impl FnOnce() -> T + Send + 'static) -> Option<T> {
        let (tx, rx) = std::sync::mpsc::channel();
        std::thread::Builder::new().name("main".into()).spawn(move || { let _ = tx.send(f()); }).unwrap();
        rx.recv_timeout(Duration::from_secs(25)).ok()
    }
}
#[cfg(not(kani))]
pub use probes::*;
