#!/bin/bash
# Builds the framework offline from files on disk only.
set -e
cd "$(dirname "$0")"
export CARGO_NET_OFFLINE=true
(cd tools/extract && cargo build --offline --release 2>&1 | tail -2)
(cd rac && cp -f /repo/Cargo.lock Cargo.lock && cargo build --offline 2>&1 | tail -2)
(cd rac2 && cp -f /repo/Cargo.lock Cargo.lock && cargo build --offline 2>&1 | tail -2)
(cd rac3 && cp -f /repo/Cargo.lock Cargo.lock && cargo build --offline 2>&1 | tail -2)
echo setup ok
